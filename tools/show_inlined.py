#!/usr/bin/env python3
"""show_inlined.py <patch.diff|-> <qualname> : print a function as the rules see it (after sa/inline.py) on /repo + patch."""
import ast, os, shutil, subprocess, sys, tempfile
from pathlib import Path
sys.path.insert(0, str(Path(__file__).resolve().parent.parent))
patch, q = sys.argv[1], sys.argv[2]
root = None
if patch != "-":
    root = Path(tempfile.mkdtemp(prefix="sa_show_"))
    shutil.copytree("/repo/pipefunc", root / "pipefunc", ignore=shutil.ignore_patterns("__pycache__"))
    subprocess.run(["patch", "-p1", "-s", "-d", str(root)], stdin=open(patch), check=True)
    os.environ["PIPEFUNC_REPO"] = str(root)
from sa.loader import Program  # noqa: E402
P = Program()
print("# inline:", {k: v for k, v in P.inline_stats.items() if k != "log"})
for l in P.inline_stats.get("log", []):
    print("#   ", l)
print(ast.unparse(P.func(q).node))
if root:
    shutil.rmtree(root)
