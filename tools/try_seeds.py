#!/usr/bin/env python3
"""Apply each seeded change to /repo, run every registered quick check, undo the change.

Usage: tools/try_seeds.py [DIR ...]     DIR contains patch_<k>.diff (sub-agent output) or patch.diff (kept seed)
Default: every /verif/seeded/*/ directory.  Prints a detection matrix; /repo is always restored.
"""
import json
import subprocess
import sys
from concurrent.futures import ThreadPoolExecutor
from pathlib import Path

VERIF = Path(__file__).resolve().parent.parent
PY = "/venv/bin/python"


def sh(*cmd, **kw):
    return subprocess.run(cmd, capture_output=True, text=True, **kw)


def run_check(prop):
    p = sh(PY, "-m", "sa.check", prop, "--tier", "quick", "--no-write", cwd=VERIF)
    fired = [line for line in p.stdout.splitlines() if line.startswith("FAILED")]
    return prop, p.returncode, fired, [line for line in p.stdout.splitlines() if line.startswith("ANALYSIS-ERROR")]


def main():
    manifest = json.loads((VERIF / "MANIFEST.json").read_text())
    props = [c["property_id"] for c in manifest["checks"]]
    dirs = [Path(a) for a in sys.argv[1:]] or sorted((VERIF / "seeded").glob("*/"))
    assert sh("git", "-C", "/repo", "status", "--porcelain").stdout.strip() == "", "/repo is dirty"
    rows = []
    for d in dirs:
        for patch in sorted(d.glob("patch*.diff")):
            name = f"{d.name}/{patch.name}"
            a = sh("git", "-C", "/repo", "apply", str(patch.resolve()))
            if a.returncode != 0:
                rows.append((name, "DOES-NOT-APPLY", a.stderr.strip()[:100]))
                continue
            try:
                with ThreadPoolExecutor(8) as ex:
                    res = list(ex.map(run_check, props))
            finally:
                sh("git", "-C", "/repo", "checkout", "--", ".")
                sh("git", "-C", "/repo", "clean", "-fdq", "pipefunc")
            hits = {p: f for p, rc, f, err in res if rc == 1}
            errs = {p: err for p, rc, f, err in res if rc == 2}
            rows.append((name, "DETECTED by " + ",".join(hits) if hits else ("analysis-error in " + ",".join(errs) if errs else "missed"),
                         "; ".join(f"{f[0][:160]}" for f in hits.values()) if hits else (str(list(errs.values())[0])[:160] if errs else "")))
    assert sh("git", "-C", "/repo", "status", "--porcelain").stdout.strip() == "", "/repo left dirty!"
    for r in rows:
        print(f"{r[0]:28} {r[1]:34} {r[2]}")
    det = sum(r[1].startswith("DETECTED") for r in rows)
    print(f"{det}/{len(rows)} detected with checks {props}")


main()
