#!/usr/bin/env python3
"""Apply each behaviour-preserving refactoring to /repo, run every quick check, undo. Every check must stay silent.

Usage: tools/try_refactors.py [DIR ...]   (default: /verif/refactors/*/ ; DIR holds patch*.diff)
"""
import json
import subprocess
import sys
from concurrent.futures import ThreadPoolExecutor
from pathlib import Path

VERIF = Path(__file__).resolve().parent.parent
PY = "/venv/bin/python"


def sh(*cmd, **kw):
    return subprocess.run(cmd, capture_output=True, text=True, **kw)


def run_check(prop):
    p = sh(PY, "-m", "sa.check", prop, "--tier", "quick", "--no-write", cwd=VERIF)
    return prop, p.returncode, [l for l in p.stdout.splitlines() if l.startswith(("FAILED", "ANALYSIS-ERROR", "UNDECIDED"))]


def main():
    manifest = json.loads((VERIF / "MANIFEST.json").read_text())
    props = [c["property_id"] for c in manifest["checks"]]
    verbose = "-v" in sys.argv
    dirs = [Path(a) for a in sys.argv[1:] if a != "-v"] or sorted((VERIF / "refactors").glob("*/"))
    assert sh("git", "-C", "/repo", "status", "--porcelain").stdout.strip() == "", "/repo is dirty"
    alarms = errors = und = total = 0
    for d in dirs:
        for patch in sorted(d.glob("patch*.diff")):
            total += 1
            name = f"{d.name}/{patch.name}"
            a = sh("git", "-C", "/repo", "apply", str(patch.resolve()))
            if a.returncode != 0:
                print(f"{name:30} DOES-NOT-APPLY {a.stderr.strip()[:80]}")
                continue
            try:
                with ThreadPoolExecutor(8) as ex:
                    res = list(ex.map(run_check, props))
            finally:
                sh("git", "-C", "/repo", "checkout", "--", ".")
                sh("git", "-C", "/repo", "clean", "-fdq", "pipefunc")
            bad = [(p, rc, lines) for p, rc, lines in res if rc != 0]
            undecided = [l for p, rc, lines in res for l in lines if l.startswith("UNDECIDED")]
            und += len(undecided)
            if not bad:
                print(f"{name:30} silent" + (f" ({len(undecided)} undecided)" if undecided else ""))
                if verbose:
                    for l in undecided:
                        print(f"      {l[:230]}")
                continue
            alarms += any(rc == 1 for _, rc, _ in bad)
            errors += any(rc == 2 for _, rc, _ in bad) and not any(rc == 1 for _, rc, _ in bad)
            print(f"{name:30} " + ", ".join(f"{p}:{'ALARM' if rc == 1 else 'ERROR'}" for p, rc, _ in bad))
            for p, rc, lines in bad:
                for l in lines:
                    if not l.startswith("UNDECIDED"):
                        print(f"      {l[:260]}")
    assert sh("git", "-C", "/repo", "status", "--porcelain").stdout.strip() == "", "/repo left dirty!"
    print(f"{total} refactorings: {alarms} with a false alarm, {errors} with an analysis error only, {und} undecided obligations in total")


main()
