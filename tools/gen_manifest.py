#!/usr/bin/env python3
"""Regenerate /verif/MANIFEST.json from the rule modules that exist (run from /verif)."""
import importlib
import json
import sys
from pathlib import Path

VERIF = Path(__file__).resolve().parent.parent
sys.path.insert(0, str(VERIF))

ALL = [f"C{i:02d}" for i in range(1, 21)]
PY = "/venv/bin/python"

NA_REASONS = {
    "C19": "Every clause is about the contents of xarray/pandas objects built by third-party constructors "
           "(dims=, coords=, MultiIndex, merge); no necessary condition is visible in pipefunc's own code shape that "
           "a realistic break would violate without a rule that also fires on equivalent refactors (DESIGN.md section 5).",
}
PENDING = "static check not built yet in this session (see DESIGN.md section 4 for the planned clauses)"

TECH = {}


def main() -> None:
    checks = []
    na = []
    for p in ALL:
        try:
            mod = importlib.import_module(f"sa.rules.{p.lower()}")
        except ModuleNotFoundError:
            na.append({"property_id": p, "reason": NA_REASONS.get(p, PENDING)})
            continue
        checks.append({
            "property_id": p,
            "quick_cmd": f"{PY} -m sa.check {p} --tier quick",
            "thorough_cmd": f"{PY} -m sa.check {p} --tier thorough",
            "evidence_file": f"/verif/evidence/{p}.json",
            "replay_cmd_template": f"{PY} -m sa.check {p} --tier quick  # re-runs the rule named in {{path}}",
            "engine": "sa",
            "technique": getattr(mod, "TECHNIQUE", "static analysis: custom AST/CFG/call-graph rules over pipefunc's source"),
            "level_claimed": {
                "category": "other",
                "text": getattr(mod, "LEVEL_TEXT", "") or (
                    "Static analysis. Decides the structural clauses listed in the rule module's docstring (necessary "
                    "conditions of the property, true on every path through the code and hence for every input, "
                    "schedule or crash point that can drive that path); it does not decide the value-level reading of "
                    "the property. " + mod.EXPLANATION),
                "design_ref": f"DESIGN.md section 4, {p}",
            },
            "level_note": "Trusted: " + "; ".join(mod.TRUSTED) + ". Declined clauses: " + "; ".join(mod.DECLINED),
        })
    manifest = {
        "version": 1,
        "setup_cmd": f"{PY} -m compileall -q sa tools",
        "hooks": {
            "guard": "PIPEFUNC_VERIF",
            "enable": "none needed: the checks parse /repo's source and never import or execute it",
            "baseline_off_cmd": "cd /repo && /venv/bin/python -m pytest -ra -q -p no:cacheprovider --timeout=900 --continue-on-collection-errors",
            "source_commits": [],
            "add_only": True,
        },
        "engines": [{
            "name": "sa",
            "path": "/verif/sa",
            "serves_properties": [c["property_id"] for c in checks],
            "kind_free_text": "repository-specific static analysis in Python: ast loader + annotation-driven types + resolved call graph "
                              "(networkx) + statement CFG with dominators + effect summaries + small abstract interpreters; "
                              "nothing under /repo is imported or executed",
        }],
        "checks": checks,
        "not_applicable": na,
        "notes": "Every check parses /repo's working tree on each run and never imports or executes it. Obligations are three-valued: "
                 "holds / violated (a violating construct was positively identified) / UNDECIDED (the construct was rewritten into a "
                 "shape the rule does not recognise; printed and counted in the evidence, never an alarm). Exit 0 = no violation "
                 "(KNOWN-FINDING lines for entries of known_findings.json); exit 1 + VIOLATION line = an unlisted obligation is "
                 "violated; exit 2 + ANALYSIS-ERROR = a public anchor of the property is gone or the analysis crashed. The thorough "
                 "tier additionally replays, in memory, the rule module's mutants and the committed corpora under seeded/ and "
                 "refactors/ (evidence about the checker itself; it never changes the exit code).",
    }
    (VERIF / "MANIFEST.json").write_text(json.dumps(manifest, indent=1) + "\n")
    print(f"MANIFEST.json: {len(checks)} checks, {len(na)} not applicable")


main()
