#!/bin/bash
# alarms.sh <PROP> [file]: which refactorings alarm on PROP and how
F=${2:-/tmp/refac_r1.txt}
awk -v P="$1" '/^C[0-9]+-[0-9]/ {name=$1} /FAILED|ANALYSIS-ERROR/ { if ($0 ~ "FAILED "P"\\." || $0 ~ "property="P" ") print name": "substr($0,1,300) }' $F
