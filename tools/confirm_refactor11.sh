#!/bin/bash
# confirm_refactor3.sh <prop> <k>: the round-7 refactoring applies to /repo HEAD and keeps the pinned suite green.
set -u
P=$1; K=$2
OUT=/tmp/refac11/out_$P
WT=/tmp/confirm/r11wt_${P}_$K
mkdir -p /tmp/confirm
RES=/tmp/confirm/R11_${P}_$K.result
rm -rf "$WT"; git -C /repo worktree prune
git -C /repo worktree add -q --detach "$WT" HEAD || { echo "worktree failed" > $RES; exit 1; }
cd "$WT"
if git apply --check $OUT/patch_$K.diff 2>/dev/null; then A=1; git apply $OUT/patch_$K.diff; else A=0; fi
/venv/bin/python -m compileall -q pipefunc >/dev/null 2>&1; C=$?
M=$(timeout 1500 /venv/bin/python /tmp/refac11/check_tests.py "$WT" 2>&1 | grep -o "missing=[0-9]*" | tail -1)
echo "prop=$P k=$K applies=$A compiles=$C tests_$M" > $RES
cd /; git -C /repo worktree remove --force "$WT"
