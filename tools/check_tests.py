#!/usr/bin/env python3
"""Run the pinned baseline test command on /repo and compare with BASELINE.json stable_pass.

Usage: /venv/bin/python /verif/tools/baseline_check.py [pytest-args...]
Exit 0 iff every test in stable_pass passed.
"""
import json, subprocess, sys, tempfile, os, xml.etree.ElementTree as ET

WT = sys.argv[1]

def main():
    base = json.load(open("/root/.vp/BASELINE.json"))
    want = set(base["stable_pass"])
    with tempfile.TemporaryDirectory() as d:
        x = os.path.join(d, "j.xml")
        cmd = ["/venv/bin/python", "-m", "pytest", "-ra", "-q", "-p", "no:cacheprovider", "--timeout=900",
               "--continue-on-collection-errors", f"--junitxml={x}", *sys.argv[2:]]
        p = subprocess.run(cmd, cwd=WT, stdout=subprocess.PIPE, stderr=subprocess.STDOUT, text=True)
        tail = p.stdout.strip().splitlines()[-1:]
        passed = set()
        for tc in ET.parse(x).getroot().iter("testcase"):
            if not any(ch.tag in ("failure", "error", "skipped") for ch in tc):
                passed.add(f"{tc.get('classname')}::{tc.get('name')}")
    missing = sorted(want - passed)
    print("pytest:", *tail)
    print(f"stable_pass={len(want)} passed_now={len(passed)} missing={len(missing)}")
    for m in missing[:40]:
        print("  MISSING", m)
    subprocess.run(["rm", "-rf", WT + "/my_run_folder"])
    return 1 if missing else 0

sys.exit(main())
