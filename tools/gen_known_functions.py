#!/usr/bin/env python3
"""Regenerate sa/tables/known_functions.txt from /repo's current tree (run after reviewing new helpers)."""
import os, sys
from pathlib import Path
sys.path.insert(0, str(Path(__file__).resolve().parent.parent))
os.environ["SA_NO_INLINE"] = "1"
from sa.loader import Program  # noqa: E402
import subprocess  # noqa: E402
P = Program()
names = sorted(q for q, f in P.functions.items() if f.parent is None)
head = subprocess.run(["git", "-C", "/repo", "rev-parse", "--short", "HEAD"], capture_output=True, text=True).stdout.strip()
out = Path(__file__).resolve().parent.parent / "sa" / "tables" / "known_functions.txt"
out.write_text(f"# Functions and methods of pipefunc on the tree the rules were written against (/repo {head}).\n"
               "# Used ONLY by sa/inline.py to decide which private helpers are *new* and get inlined back into their callers\n"
               "# before the rules look at the code; no verdict is derived from this list.  Regenerate with tools/gen_known_functions.py.\n" + "\n".join(names) + "\n")
print(len(names), "functions")
