#!/bin/bash
# confirm_corpus.sh <corpus dir with patch.diff>: the patch applies to /repo HEAD, compiles and keeps the pinned suite green.
set -u
D=$(realpath "$1"); N=$(basename "$D")
WT=/tmp/confirm/cwt_$N
mkdir -p /tmp/confirm
rm -rf "$WT"; git -C /repo worktree prune
git -C /repo worktree add -q --detach "$WT" HEAD || { echo "$N worktree failed"; exit 1; }
cd "$WT"
if git apply --check "$D/patch.diff" 2>/dev/null; then A=1; git apply "$D/patch.diff"; else A=0; fi
/venv/bin/python -m compileall -q pipefunc >/dev/null 2>&1; C=$?
M=$(timeout 1500 /venv/bin/python /verif/tools/check_tests.py "$WT" 2>&1 | grep -o "missing=[0-9]*" | tail -1)
echo "$N applies=$A compiles=$C tests_$M head=$(git -C /repo rev-parse --short HEAD)"
cd /; git -C /repo worktree remove --force "$WT"
