"""Interactive helper: `from tools.dbg import *` gives P (Program), ctx(prop), ast, norm, walk_no_nested."""
import ast, os, sys
sys.path.insert(0, os.path.dirname(os.path.dirname(os.path.abspath(__file__))))
from sa.loader import Program, norm, walk_no_nested, dotted  # noqa: E402,F401
from sa.report import Ctx  # noqa: E402
from sa.flow import *  # noqa: E402,F401,F403
P = Program()
def ctx(prop="C01"):
    return Ctx(P, prop, "quick")
