#!/bin/bash
# confirm_seed8.sh <prop> <k> : independently confirm a round-5 sub-agent patch in a fresh scratch worktree.
set -u
P=$1; K=$2
OUT=/tmp/seed8/out_$P
WT=/tmp/confirm/wt8_${P}_$K
mkdir -p /tmp/confirm
RES=/tmp/confirm/S8_${P}_$K.result
rm -rf "$WT"; git -C /repo worktree prune
git -C /repo worktree add -q --detach "$WT" HEAD || { echo "worktree failed" > $RES; exit 1; }
cd "$WT"
sed "s#/tmp/seed8/wt_$P#$WT#g" $OUT/demo_$K.py > /tmp/confirm/demo8_${P}_$K.py
timeout 900 /venv/bin/python /tmp/confirm/demo8_${P}_$K.py "$WT" > /tmp/confirm/S8_${P}_$K.before.log 2>&1; B=$?
if git apply --check $OUT/patch_$K.diff 2>/dev/null; then A=1; git apply $OUT/patch_$K.diff; elif patch -p1 -s --dry-run < $OUT/patch_$K.diff >/dev/null 2>&1; then A=1; patch -p1 -s < $OUT/patch_$K.diff; else A=0; fi
timeout 900 /venv/bin/python /tmp/confirm/demo8_${P}_$K.py "$WT" > /tmp/confirm/S8_${P}_$K.after.log 2>&1; C=$?
M=$(timeout 1500 /venv/bin/python /tmp/seed8/check_tests.py "$WT" 2>&1 | grep -o "missing=[0-9]*" | tail -1)
echo "prop=$P k=$K applies=$A demo_before=$B demo_after=$C tests_$M" > $RES
cd /; git -C /repo worktree remove --force "$WT"
cat $RES
