#!/usr/bin/env python3
"""Run every check against patched scratch copies of /repo's working tree (never touches /repo).

  tools/harness.py seeds     [--write] [DIR ...]   every patch must be DETECTED (exit 1 of some check)   default seeded/*/
  tools/harness.py refactors [-v] [DIR ...]        every patch must leave every check silent            default refactors/*/

A scratch copy of /repo/pipefunc is made under /tmp/sa_h/, the patch is applied with patch(1), all checks are run in one
process (sa.runall) with PIPEFUNC_REPO pointing at the copy, and the copy is removed.
"""
import os
import shutil
import subprocess
import sys
from concurrent.futures import ThreadPoolExecutor
from pathlib import Path

VERIF = Path(__file__).resolve().parent.parent
PY = "/venv/bin/python"
SCRATCH = Path("/tmp/sa_h")


import json
import re
import threading

_BASE_LOCK = threading.Lock()
_BASE_FAILS: dict[str, set] = {}


def _run_checks(root: Path):
    p = subprocess.run([PY, "-m", "sa.runall"], cwd=VERIF, capture_output=True, text=True, env={**os.environ, "PIPEFUNC_REPO": str(root)})
    res, cur = {}, None
    for l in p.stdout.splitlines():
        if l.startswith("== "):
            cur = l.split()[1]
            res[cur] = (int(l.split("rc=")[1]), [])
        elif cur:
            res[cur][1].append(l)
    return res, p.stderr


def _fail_key(line: str):
    """FAILED <rule> <file:line> [<instance>] <detail>  ->  (rule, instance, start of the detail): independent of line numbers."""
    m = re.match(r"(FAILED|ANALYSIS-ERROR)\s+(\S+)\s+\S*\s*\[([^\]]*)\]\s*(.*)", line)
    if not m:
        return ("?", re.sub(r"\d+", "#", line)[:90])
    # the refactoring may have renamed the construct: compare the rule and the wording, not the quoted code or the instance
    return (m[2], re.sub(r"\d+", "#", re.sub(r"`[^`]*`", "`..`", m[4]))[:60])


def _archive(base: str, root: Path) -> bool:
    a = subprocess.run(f"git -C /repo archive {base} pipefunc | tar -x -C {root}", shell=True, capture_output=True, text=True)
    return a.returncode == 0 and (root / "pipefunc").is_dir()


def _base_failures(base: str) -> set:
    """What the checks report on the UNPATCHED tree of commit `base` (the defects repaired since then): not the patch's doing."""
    with _BASE_LOCK:
        if base in _BASE_FAILS:
            return _BASE_FAILS[base]
        root = SCRATCH / f"base_{base}_{os.getpid()}"
        shutil.rmtree(root, ignore_errors=True)
        root.mkdir(parents=True)
        try:
            _archive(base, root)
            res, _err = _run_checks(root)
            _BASE_FAILS[base] = {_fail_key(l) for _p, (_rc, ls) in res.items() for l in ls if l.startswith(("FAILED", "ANALYSIS-ERROR"))}
        finally:
            shutil.rmtree(root, ignore_errors=True)
        return _BASE_FAILS[base]


def one(patch: Path):
    """Apply the patch to /repo's working tree; a patch written for an earlier commit whose context has since been changed by a
    repair is applied to the tree of THAT commit instead, and what the checks already report on that tree unpatched is subtracted."""
    name = f"{patch.parent.name}/{patch.name}"
    root = SCRATCH / f"{patch.parent.name}_{patch.stem}_{os.getpid()}"
    shutil.rmtree(root, ignore_errors=True)
    root.mkdir(parents=True)
    try:
        shutil.copytree("/repo/pipefunc", root / "pipefunc", ignore=shutil.ignore_patterns("__pycache__"))
        meta = patch.parent / "meta.json"
        m = json.loads(meta.read_text()) if meta.is_file() else {}
        a = subprocess.run(["patch", "-p1", "-s", "-d", str(root)], stdin=open(patch), capture_output=True, text=True)
        base = None
        if a.returncode != 0 or m.get("evaluate_on"):
            # "evaluate_on": the change still applies but is a violation only on the tree it was confirmed on (a later repair
            # removed what it relied on)
            cands = [m.get("evaluate_on"), m.get("rebased_on"), m.get("confirmed_on"), m.get("base"), "e2e50dc"]
            for b in [c for c in cands if c]:
                shutil.rmtree(root, ignore_errors=True)
                root.mkdir(parents=True)
                if _archive(b, root) and subprocess.run(["patch", "-p1", "-s", "-d", str(root)], stdin=open(patch), capture_output=True, text=True).returncode == 0:
                    base = b
                    break
            if base is None:
                return name, None, a.stdout[:200] + a.stderr[:200]
        res, err = _run_checks(root)
        if not res:
            return name, None, err[-300:]
        if base is not None:
            known = _base_failures(base)
            out = {}
            for p_, (rc, ls) in res.items():
                kept = [l for l in ls if not (l.startswith(("FAILED", "ANALYSIS-ERROR", "VIOLATION", "    path:")) and (l.startswith(("VIOLATION", "    path:")) or _fail_key(l) in known))]
                still = [l for l in kept if l.startswith(("FAILED", "ANALYSIS-ERROR"))]
                out[p_] = ((rc if still else 0), kept)
            res = out
        return name + (f" @{base}" if base else ""), res, ""
    finally:
        shutil.rmtree(root, ignore_errors=True)


def main():
    mode = sys.argv[1]
    flags = {a for a in sys.argv[2:] if a.startswith("-")}
    dirs = [Path(a) for a in sys.argv[2:] if not a.startswith("-")] or sorted((VERIF / ("seeded" if mode == "seeds" else "refactors")).glob("*/"))
    patches = [p for d in dirs for p in sorted(d.glob("patch*.diff"))]
    with ThreadPoolExecutor(14) as ex:
        results = list(ex.map(one, patches))
    if mode == "seeds":
        rows = []
        for name, res, err in results:
            if res is None:
                rows.append((name, "DOES-NOT-APPLY", err))
                continue
            hits = {p: [l for l in ls if l.startswith("FAILED")] for p, (rc, ls) in res.items() if rc == 1}
            errs = {p: ls for p, (rc, ls) in res.items() if rc == 2}
            rows.append((name, "DETECTED by " + ",".join(hits) if hits else ("analysis-error in " + ",".join(errs) if errs else "missed"),
                         "; ".join(f[0][:160] for f in hits.values() if f) if hits else (str(list(errs.values())[0])[:160] if errs else "")))
        for r in rows:
            print(f"{r[0]:28} {r[1]:34} {r[2]}")
        det = sum(r[1].startswith("DETECTED") for r in rows)
        print(f"{det}/{len(rows)} detected")
        if "--write" in flags:
            lines = ["# Seeded changes vs. the registered checks", "",
                     "Generated by `tools/harness.py seeds --write`: each patch is applied to a scratch copy of /repo's working tree and every check is run on it.", "",
                     "| seeded change | verdict | first report |", "|---|---|---|"]
            lines += [f"| {r[0].split('/')[0]} | {r[1]} | {r[2][:220].replace('|', '/')} |" for r in rows]
            lines += ["", f"{det}/{len(rows)} detected."]
            (VERIF / "seeded" / "RESULTS.md").write_text("\n".join(lines) + "\n")
        return
    alarms = errors = und = 0
    for name, res, err in results:
        if res is None:
            print(f"{name:30} DOES-NOT-APPLY {err}")
            continue
        bad = {p: (rc, ls) for p, (rc, ls) in res.items() if rc != 0}
        undecided = [l for p, (rc, ls) in res.items() for l in ls if l.startswith("UNDECIDED")]
        und += len(undecided)
        if not bad:
            print(f"{name:30} silent" + (f" ({len(undecided)} undecided)" if undecided else ""))
            if "-v" in flags:
                for l in undecided:
                    print(f"      {l[:230]}")
            continue
        alarms += any(rc == 1 for rc, _ in bad.values())
        errors += all(rc == 2 for rc, _ in bad.values())
        print(f"{name:30} " + ", ".join(f"{p}:{'ALARM' if rc == 1 else 'ERROR'}" for p, (rc, _) in bad.items()))
        for p, (rc, ls) in bad.items():
            for l in ls:
                if l.startswith(("FAILED", "ANALYSIS-ERROR")):
                    print(f"      {l[:280]}")
    print(f"{len(results)} refactorings: {alarms} with a false alarm, {errors} with an analysis error only, {und} undecided obligations in total")


main()
