#!/bin/bash
# onepatch.sh <patch> <prop> [grep-pattern]: run one check against a scratch copy of /repo/pipefunc with <patch> applied
set -u
PATCH=$1; PROP=$2; PAT=${3:-FAILED|ANALYSIS|UNDECIDED|obligations}
D=$(mktemp -d /tmp/sa_one.XXXXXX)
cp -r /repo/pipefunc $D/pipefunc
patch -p1 -s -d $D < $PATCH || { echo "patch failed"; rm -rf $D; exit 3; }
cd /verif && PIPEFUNC_REPO=$D /venv/bin/python -m sa.check $PROP --tier quick --no-write 2>&1 | grep -E "$PAT" | cut -c1-400
rm -rf $D
