"""Normalisation pass: private helpers that the rule tables do not know are inlined back into their callers.

Why: the rule modules read decision structures (guards, raises, stores, loops) of *anchor* functions.  The commonest
behaviour-preserving edit - "extract method / extract predicate / extract generator" - moves such a structure into a new
private helper, after which a function-local rule no longer sees it.  Instead of teaching every rule to chase helpers, the
loader undoes the extraction: a call to a private function or method of the same module / class whose qualified name is NOT
in `sa/tables/known_functions.txt` (the functions of the tree the rules were written against) is replaced by the helper's
body, with parameters substituted and locals renamed.  Known helpers are left alone (rules name them as anchors).

The table only steers this normalisation; no verdict is derived from it.  A helper that cannot be inlined faithfully (early
exits inside `try`/`with`, `*args`, recursion, ...) is left as a call, which the rules treat as before (usually: abstain).

Supported shapes
  statement call          `helper(a)` / `self._helper(a)` as an expression statement
  value call              `x = helper(a)`, `return helper(a)`, `if helper(a):`, ... (the helper's returns become assignments
                          to a fresh result variable; early returns are turned into nested if/else, `return` inside a `for`
                          into `break` + `for ... else`)
  generator in a loop     `for x in helper(a): body`  ->  the helper's body with every `yield v` replaced by `x = v; body`
                          (only when `body` has no `break`)
"""

from __future__ import annotations

import ast
import copy
import itertools
from pathlib import Path

TABLE = Path(__file__).resolve().parent / "tables" / "known_functions.txt"
MAX_BODY = 80
_counter = itertools.count(1)


def load_known() -> set[str] | None:
    if not TABLE.exists():
        return None
    return {l.strip() for l in TABLE.read_text().splitlines() if l.strip() and not l.startswith("#")}


def _is_private(name: str) -> bool:
    return name.startswith("_") and not (name.startswith("__") and name.endswith("__"))


def _docstring_free(body: list[ast.stmt]) -> list[ast.stmt]:
    if body and isinstance(body[0], ast.Expr) and isinstance(body[0].value, ast.Constant) and isinstance(body[0].value.value, str):
        return body[1:]
    return body


def _contains(node: ast.AST, kinds: tuple[type, ...], *, into_defs: bool = False) -> bool:
    stack = list(ast.iter_child_nodes(node))
    while stack:
        x = stack.pop()
        if isinstance(x, kinds):
            return True
        if not into_defs and isinstance(x, (ast.FunctionDef, ast.AsyncFunctionDef, ast.Lambda, ast.ClassDef)):
            continue
        stack.extend(ast.iter_child_nodes(x))
    return False


def _is_generator(fn: ast.AST) -> bool:
    return _contains(fn, (ast.Yield, ast.YieldFrom))


class _Subst(ast.NodeTransformer):
    """Rename locals and substitute parameters (not inside nested defs' own parameter names)."""

    def __init__(self, rename: dict[str, str], subst: dict[str, ast.AST]) -> None:
        self.rename, self.subst = rename, subst

    def visit_ExceptHandler(self, node: ast.ExceptHandler):  # noqa: N802
        if node.name and node.name in self.rename:
            node.name = self.rename[node.name]
        return self.generic_visit(node)

    def visit_FunctionDef(self, node: ast.FunctionDef):  # noqa: N802
        if node.name in self.rename:
            node.name = self.rename[node.name]
        return self.generic_visit(node)

    def visit_Name(self, node: ast.Name):  # noqa: N802
        if node.id in self.subst and isinstance(node.ctx, ast.Load):
            return ast.copy_location(copy.deepcopy(self.subst[node.id]), node)
        if node.id in self.rename:
            return ast.copy_location(ast.Name(id=self.rename[node.id], ctx=node.ctx), node)
        return node


def _simple(e: ast.AST) -> bool:
    if isinstance(e, (ast.Name, ast.Constant)):
        return True
    if isinstance(e, ast.Attribute):
        return _simple(e.value)
    return False


def _assigned_names(body: list[ast.stmt]) -> set[str]:
    out: set[str] = set()
    for st in body:
        for x in ast.walk(st):
            if isinstance(x, ast.Name) and isinstance(x.ctx, (ast.Store, ast.Del)):
                out.add(x.id)
            elif isinstance(x, (ast.FunctionDef, ast.AsyncFunctionDef, ast.ClassDef)):
                out.add(x.name)
            elif isinstance(x, ast.ExceptHandler) and x.name:
                out.add(x.name)
    return out


class _GiveUp(Exception):
    pass


def _eliminate_returns(body: list[ast.stmt], ret: str | None) -> list[ast.stmt]:
    """Rewrite `body` so that it contains no `return`: a value is stored in `ret`, statements after a conditional return move
    into the other branch, a return inside a `for` becomes `break` with the rest of the body in the loop's `else`."""

    def assign(value: ast.AST | None, at: ast.AST) -> list[ast.stmt]:
        if ret is None:
            return []
        v = value if value is not None else ast.Constant(value=None)
        return [ast.copy_location(ast.Assign(targets=[ast.Name(id=ret, ctx=ast.Store())], value=v, lineno=at.lineno), at)]

    def always_returns(stmts: list[ast.stmt]) -> bool:
        if not stmts:
            return False
        last = stmts[-1]
        if isinstance(last, (ast.Return, ast.Raise)):
            return True
        if isinstance(last, ast.If):
            return bool(last.orelse) and always_returns(last.body) and always_returns(last.orelse)
        return False

    def go(stmts: list[ast.stmt]) -> list[ast.stmt]:
        out: list[ast.stmt] = []
        for i, st in enumerate(stmts):
            rest = stmts[i + 1:]
            if isinstance(st, ast.Return):
                return out + assign(st.value, st)  # statements after an unconditional return are dead
            if not _contains(st, (ast.Return,)):
                out.append(st)
                continue
            if isinstance(st, ast.If):
                b_ret, o_ret = always_returns(st.body), always_returns(st.orelse)
                new = copy.copy(st)
                if b_ret and not _contains(ast.Module(body=st.orelse, type_ignores=[]), (ast.Return,)):
                    new.body = go(st.body) or [ast.copy_location(ast.Pass(), st)]
                    new.orelse = go(st.orelse + rest)
                    return out + [new]
                if o_ret and st.orelse and not _contains(ast.Module(body=st.body, type_ignores=[]), (ast.Return,)):
                    new.body = go(st.body + rest) or [ast.copy_location(ast.Pass(), st)]
                    new.orelse = go(st.orelse)
                    return out + [new]
                if b_ret and o_ret:
                    new.body = go(st.body) or [ast.copy_location(ast.Pass(), st)]
                    new.orelse = go(st.orelse)
                    return out + [new]
                # a return somewhere inside one arm but not at its end: duplicate the rest into both arms
                if len(rest) <= 6:
                    new.body = go(st.body + copy.deepcopy(rest)) or [ast.copy_location(ast.Pass(), st)]
                    new.orelse = go(st.orelse + copy.deepcopy(rest))
                    return out + [new]
                raise _GiveUp
            if isinstance(st, (ast.For, ast.AsyncFor)) and not st.orelse and not _contains(ast.Module(body=st.body, type_ignores=[]), (ast.Break,)):
                # returns directly in the loop body (possibly under ifs), no other break: return -> assign + break, rest -> else
                def in_loop(b: list[ast.stmt]) -> list[ast.stmt]:
                    res: list[ast.stmt] = []
                    for s2 in b:
                        if isinstance(s2, ast.Return):
                            res += assign(s2.value, s2) + [ast.copy_location(ast.Break(), s2)]
                            return res
                        if isinstance(s2, ast.If) and _contains(s2, (ast.Return,)):
                            n2 = copy.copy(s2)
                            n2.body = in_loop(s2.body) or [ast.copy_location(ast.Pass(), s2)]
                            n2.orelse = in_loop(s2.orelse)
                            res.append(n2)
                        elif _contains(s2, (ast.Return,)):
                            raise _GiveUp
                        else:
                            res.append(s2)
                    return res

                new = copy.copy(st)
                new.body = in_loop(st.body)
                new.orelse = go(rest) or []
                return out + [new]
            raise _GiveUp
        return out

    return go(body)


def _const_truth(e: ast.AST) -> bool | None:
    """Truth value of a test that is constant after parameter substitution (`None is None`, `not True`, ...)."""
    if isinstance(e, ast.Constant):
        return bool(e.value)
    if isinstance(e, ast.UnaryOp) and isinstance(e.op, ast.Not):
        v = _const_truth(e.operand)
        return None if v is None else not v
    if isinstance(e, ast.Compare) and len(e.ops) == 1 and isinstance(e.left, ast.Constant) and isinstance(e.comparators[0], ast.Constant):
        l_, r_ = e.left.value, e.comparators[0].value
        op = e.ops[0]
        if isinstance(op, ast.Is):
            return l_ is r_ if (l_ is None or r_ is None or isinstance(l_, bool) or isinstance(r_, bool)) else None
        if isinstance(op, ast.IsNot):
            return l_ is not r_ if (l_ is None or r_ is None or isinstance(l_, bool) or isinstance(r_, bool)) else None
        if isinstance(op, ast.Eq):
            return l_ == r_
        if isinstance(op, ast.NotEq):
            return l_ != r_
    if isinstance(e, ast.BoolOp):
        vals = [_const_truth(v) for v in e.values]
        if isinstance(e.op, ast.And):
            if any(v is False for v in vals):
                return False
            return True if all(v is True for v in vals) else None
        if any(v is True for v in vals):
            return True
        return False if all(v is False for v in vals) else None
    return None


class _FoldExpr(ast.NodeTransformer):
    """`a if <constant> else b` -> the live arm."""

    def visit_IfExp(self, node: ast.IfExp):  # noqa: N802
        self.generic_visit(node)
        v = _const_truth(node.test)
        if v is None:
            return node
        return node.body if v else node.orelse


def _fold(stmts: list[ast.stmt]) -> list[ast.stmt]:
    """Drop the dead arm of `if <constant>` (left behind when a constant argument was substituted for a parameter)."""
    out: list[ast.stmt] = []
    stmts = [_FoldExpr().visit(st) for st in stmts]
    for st in stmts:
        for field in ("body", "orelse", "finalbody"):
            sub = getattr(st, field, None)
            if isinstance(sub, list) and sub and isinstance(sub[0], ast.stmt) and not isinstance(st, (ast.FunctionDef, ast.AsyncFunctionDef, ast.ClassDef)):
                setattr(st, field, _fold(sub))
        if isinstance(st, ast.If):
            v = _const_truth(st.test)
            if v is not None:
                out += st.body if v else st.orelse
                continue
        out.append(st)
    return out


def _as_expression(block: list[ast.stmt], ret: str) -> ast.AST | None:
    """The single expression a returns-eliminated helper body computes, when it is a pure if/else tree of `ret = <expr>`
    leaves: `if A: ret = True else: ret = B` -> `A or B` (boolean shortcuts), otherwise a conditional expression."""
    stmts = [s_ for s_ in block if not isinstance(s_, ast.Pass)]
    if len(stmts) == 1 and isinstance(stmts[0], ast.Assign) and len(stmts[0].targets) == 1 and isinstance(stmts[0].targets[0], ast.Name) and stmts[0].targets[0].id == ret:
        return stmts[0].value
    if len(stmts) == 1 and isinstance(stmts[0], ast.If) and stmts[0].orelse:
        a, x, y = stmts[0].test, _as_expression(stmts[0].body, ret), _as_expression(stmts[0].orelse, ret)
        if x is None or y is None:
            return None

        def const(e: ast.AST, v: bool) -> bool:
            return isinstance(e, ast.Constant) and e.value is v

        neg = ast.UnaryOp(op=ast.Not(), operand=a)
        if const(x, True):
            out: ast.AST = ast.BoolOp(op=ast.Or(), values=[a, y])
        elif const(x, False):
            out = ast.BoolOp(op=ast.And(), values=[neg, y])
        elif const(y, True):
            out = ast.BoolOp(op=ast.Or(), values=[neg, x])
        elif const(y, False):
            out = ast.BoolOp(op=ast.And(), values=[a, x])
        else:
            out = ast.IfExp(test=a, body=x, orelse=y)
        return ast.copy_location(out, stmts[0])
    return None


class Inliner:
    def __init__(self, trees: dict[str, ast.Module], known: set[str]) -> None:
        self.trees = trees
        self.known = known
        self.mod_funcs: dict[str, dict[str, ast.AST]] = {}
        self.cls_methods: dict[tuple[str, str], dict[str, ast.AST]] = {}
        self.cls_bases: dict[tuple[str, str], list[str]] = {}
        for mn, tree in trees.items():
            self.mod_funcs[mn] = {st.name: st for st in tree.body if isinstance(st, (ast.FunctionDef, ast.AsyncFunctionDef))}
            for c in [st for st in tree.body if isinstance(st, ast.ClassDef)]:
                self.cls_methods[(mn, c.name)] = {st.name: st for st in c.body if isinstance(st, (ast.FunctionDef, ast.AsyncFunctionDef)) and not any("setter" in ast.unparse(d) for d in st.decorator_list)}
                self.cls_bases[(mn, c.name)] = [b.id for b in c.bases if isinstance(b, ast.Name)]
        self.stats = {"inlined": 0, "left": 0}
        self.log: list[str] = []
        self.dropped: list[str] = []

    # ------------------------------------------------------------------ resolution
    def _callee(self, mn: str, cname: str | None, call: ast.Call) -> tuple[str, ast.AST, bool] | None:
        """(qualified name, def node, is bound method call) of an inlinable helper, or None."""
        f = call.func
        if isinstance(f, ast.Name) and _is_private(f.id) and f.id in self.mod_funcs[mn]:
            return f"{mn}.{f.id}", self.mod_funcs[mn][f.id], False
        if isinstance(f, ast.Attribute) and isinstance(f.value, ast.Name) and f.value.id == "self" and cname is not None and _is_private(f.attr):
            # own class first, then bases in the same module
            todo, seen = [cname], set()
            while todo:
                c = todo.pop(0)
                if c in seen:
                    continue
                seen.add(c)
                m = self.cls_methods.get((mn, c), {}).get(f.attr)
                if m is not None:
                    return f"{mn}.{c}.{f.attr}", m, True
                todo += self.cls_bases.get((mn, c), [])
        return None

    def _eligible(self, q: str, d: ast.AST) -> bool:
        if q in self.known:
            return False
        decos = [ast.unparse(x) for x in d.decorator_list]  # type: ignore[attr-defined]
        if any(x not in ("staticmethod",) for x in decos):
            return False
        a = d.args  # type: ignore[attr-defined]
        if a.vararg or a.kwarg:
            return False
        body = _docstring_free(d.body)  # type: ignore[attr-defined]
        n_stmts = sum(1 for st in body for _ in ast.walk(st) if isinstance(_, ast.stmt))
        if n_stmts > MAX_BODY or _contains(d, (ast.Global, ast.Nonlocal)):
            return False
        # a default that is not a constant / name is evaluated ONCE at definition time (a mutable default is shared by all calls):
        # copying it to every call site would change what the program does
        for dv in [*a.defaults, *[x for x in a.kw_defaults if x is not None]]:
            if not isinstance(dv, (ast.Constant, ast.Name, ast.Attribute, ast.Lambda)) and not (isinstance(dv, ast.Tuple) and not dv.elts) and not (isinstance(dv, ast.UnaryOp) and isinstance(dv.operand, ast.Constant)):
                return False
        return True

    # ------------------------------------------------------------------ instantiation
    def _bind(self, d: ast.AST, call: ast.Call, bound: bool) -> tuple[dict[str, ast.AST], list[ast.stmt], dict[str, str]] | None:
        """(substitutions, prelude assignments, renames) for one call of the helper `d`."""
        a = d.args  # type: ignore[attr-defined]
        params = [*a.posonlyargs, *a.args]
        names = [p.arg for p in params]
        decos = [ast.unparse(x) for x in d.decorator_list]  # type: ignore[attr-defined]
        given: dict[str, ast.AST] = {}
        if bound and "staticmethod" not in decos:
            if not names:
                return None
            given[names[0]] = call.func.value  # type: ignore[union-attr]
            names = names[1:]
        if any(isinstance(x, ast.Starred) for x in call.args) or any(k.arg is None for k in call.keywords):
            return None
        if len(call.args) > len(names):
            return None
        for n_, v in zip(names, call.args):
            given[n_] = v
        kwonly = [p.arg for p in a.kwonlyargs]
        for k in call.keywords:
            if k.arg in given or (k.arg not in names and k.arg not in kwonly):
                return None
            given[k.arg] = k.value  # type: ignore[index]
        defaults = dict(zip([p.arg for p in params][len(params) - len(a.defaults):], a.defaults))
        defaults.update({p.arg: dv for p, dv in zip(a.kwonlyargs, a.kw_defaults) if dv is not None})
        for n_ in [p.arg for p in params] + kwonly:
            if n_ not in given:
                if n_ not in defaults:
                    return None
                given[n_] = defaults[n_]
        tag = f"_i{next(_counter)}_"
        body = _docstring_free(d.body)  # type: ignore[attr-defined]
        assigned = _assigned_names(body)
        subst: dict[str, ast.AST] = {}
        prelude: list[ast.stmt] = []
        rename = {n_: tag + n_ for n_ in assigned if n_ not in given}
        for n_, v in given.items():
            if _simple(v) and n_ not in assigned:
                subst[n_] = v
            else:
                rename[n_] = tag + n_
                prelude.append(ast.copy_location(ast.Assign(targets=[ast.Name(id=tag + n_, ctx=ast.Store())], value=copy.deepcopy(v), lineno=call.lineno), call))
        return subst, prelude, rename

    def _instantiate(self, q: str, d: ast.AST, call: ast.Call, bound: bool, stack: tuple[str, ...], mn: str, cname: str | None, *, ret: str | None, keep_returns: bool = False) -> list[ast.stmt] | None:
        b = self._bind(d, call, bound)
        if b is None:
            return None
        subst, prelude, rename = b
        body = copy.deepcopy(_docstring_free(d.body))  # type: ignore[attr-defined]
        # helpers of the helper first (same class context as the helper's definition)
        body = self._block(body, mn, self._owner(mn, d) or cname, stack + (q,))
        try:
            if not keep_returns:
                body = _eliminate_returns(body, ret)
        except _GiveUp:
            return None
        tr = _Subst(rename, subst)
        body = [tr.visit(st) for st in body]
        body = _fold(body) or [ast.copy_location(ast.Pass(), call)]
        for st in body:
            ast.fix_missing_locations(st)
        return prelude + body

    def _owner(self, mn: str, d: ast.AST) -> str | None:
        for (m, c), meths in self.cls_methods.items():
            if m == mn and any(v is d for v in meths.values()):
                return c
        return None

    # ------------------------------------------------------------------ statement rewriting
    def _first_helper_call(self, expr: ast.AST, mn: str, cname: str | None, stack: tuple[str, ...]) -> tuple[ast.Call, str, ast.AST, bool] | None:
        for x in ast.walk(expr):
            if isinstance(x, (ast.Lambda, ast.GeneratorExp, ast.ListComp, ast.SetComp, ast.DictComp)):
                continue
            if isinstance(x, ast.Call):
                r = self._callee(mn, cname, x)
                if r and r[0] not in stack and self._eligible(r[0], r[1]):
                    return x, r[0], r[1], r[2]
        return None

    def _in_comprehension(self, root: ast.AST, target: ast.AST) -> bool:
        for x in ast.walk(root):
            if isinstance(x, (ast.Lambda, ast.GeneratorExp, ast.ListComp, ast.SetComp, ast.DictComp, ast.IfExp, ast.BoolOp)) and any(y is target for y in ast.walk(x)) and x is not target:
                # inside a lazily / conditionally evaluated sub-expression: hoisting would change what is evaluated
                if isinstance(x, (ast.IfExp, ast.BoolOp)):
                    first = x.test if isinstance(x, ast.IfExp) else x.values[0]
                    if any(y is target for y in ast.walk(first)):
                        continue
                return True
        return False

    def _stmt(self, st: ast.stmt, mn: str, cname: str | None, stack: tuple[str, ...]) -> list[ast.stmt]:  # noqa: C901, PLR0911, PLR0912
        # recurse into compound statements first
        for field in ("body", "orelse", "finalbody"):
            sub = getattr(st, field, None)
            if isinstance(sub, list) and sub and isinstance(sub[0], ast.stmt) and not isinstance(st, (ast.FunctionDef, ast.AsyncFunctionDef, ast.ClassDef)):
                setattr(st, field, self._block(sub, mn, cname, stack))
        if isinstance(st, ast.Try):
            for h in st.handlers:
                h.body = self._block(h.body, mn, cname, stack)
        if isinstance(st, (ast.FunctionDef, ast.AsyncFunctionDef)):
            st.body = self._block(st.body, mn, cname, stack)
            return [st]
        if isinstance(st, ast.ClassDef):
            return [st]
        # generator helper driving a loop
        if isinstance(st, (ast.For, ast.AsyncFor)) and isinstance(st.iter, ast.Call):
            r = self._callee(mn, cname, st.iter)
            if r and r[0] not in stack and self._eligible(r[0], r[1]) and _is_generator(r[1]):
                fused = self._fuse(st, *r, stack, mn, cname)
                if fused is not None:
                    self.stats["inlined"] += 1
                    self.log.append(f"{r[0]} (generator) into a loop at line {st.lineno}")
                    return fused
                self.stats["left"] += 1
                return [st]
        # which expression of this statement may hold a helper call
        exprs: list[ast.AST] = []
        if isinstance(st, ast.Expr):
            exprs = [st.value]
        elif isinstance(st, (ast.Assign, ast.AugAssign, ast.AnnAssign, ast.Return)):
            exprs = [st.value] if st.value is not None else []
        elif isinstance(st, (ast.If, ast.While, ast.Assert)):
            exprs = [st.test] if not isinstance(st, ast.While) else []  # a loop test is re-evaluated: do not hoist
        elif isinstance(st, (ast.For, ast.AsyncFor)):
            exprs = [st.iter]
        elif isinstance(st, ast.Raise):
            exprs = [x for x in (st.exc,) if x is not None]
        out: list[ast.stmt] = []
        for _ in range(6):  # several helper calls in one statement
            hit = None
            for e in exprs:
                inner = e.value if isinstance(e, ast.Await) else e
                hit = self._first_helper_call(inner, mn, cname, stack)
                if hit and not self._in_comprehension(e, hit[0]):
                    break
                hit = None
            if hit is None:
                break
            call, q, d, bound = hit
            if _is_generator(d):
                self.stats["left"] += 1
                break
            is_async = isinstance(d, ast.AsyncFunctionDef)
            # tail call `return helper(...)`: splice the body and keep its returns
            if isinstance(st, ast.Return) and (st.value is call or (isinstance(st.value, ast.Await) and st.value.value is call)):
                block = self._instantiate(q, d, call, bound, stack, mn, cname, ret=None, keep_returns=True)
                if block is not None:
                    self.stats["inlined"] += 1
                    self.log.append(f"{q} (tail call) at line {st.lineno}")
                    tail = [] if block and isinstance(block[-1], (ast.Return, ast.Raise)) else [ast.copy_location(ast.Return(value=None), st)]
                    return out + block + tail
                self.stats["left"] += 1
                break
            if isinstance(st, ast.Expr) and (st.value is call or (isinstance(st.value, ast.Await) and st.value.value is call)):
                block = self._instantiate(q, d, call, bound, stack, mn, cname, ret=None)
                if block is not None:
                    self.stats["inlined"] += 1
                    self.log.append(f"{q} (statement) at line {st.lineno}")
                    return out + (block or [ast.copy_location(ast.Pass(), st)])
                self.stats["left"] += 1
                break
            ret = f"_i{next(_counter)}_ret"
            block = self._instantiate(q, d, call, bound, stack, mn, cname, ret=ret)
            if block is None:
                self.stats["left"] += 1
                break
            # an expression-like helper: a pure if/else tree of results, or assignments + one final `ret = expr`
            whole = _as_expression(block, ret)
            if whole is not None:
                block = [ast.copy_location(ast.Assign(targets=[ast.Name(id=ret, ctx=ast.Store())], value=whole, lineno=st.lineno), st)]
            final = block[-1] if block else None
            if (isinstance(final, ast.Assign) and isinstance(final.targets[0], ast.Name) and final.targets[0].id == ret
                    and not any(isinstance(x, ast.Name) and x.id == ret for b_ in block[:-1] for x in ast.walk(b_))):
                out += block[:-1]
                repl: ast.AST = final.value
            else:
                out += [ast.copy_location(ast.Assign(targets=[ast.Name(id=ret, ctx=ast.Store())], value=ast.Constant(value=None), lineno=st.lineno), st)] + block
                repl = ast.Name(id=ret, ctx=ast.Load())
            target_node = call
            _ = is_async

            class Repl(ast.NodeTransformer):
                def visit_Await(self, node: ast.Await):  # noqa: N802
                    if node.value is target_node:
                        return ast.copy_location(copy.deepcopy(repl), node)
                    return self.generic_visit(node)

                def visit_Call(self, node: ast.Call):  # noqa: N802
                    if node is target_node:
                        return ast.copy_location(copy.deepcopy(repl), node)
                    return self.generic_visit(node)

            st = Repl().visit(st)
            ast.fix_missing_locations(st)
            self.stats["inlined"] += 1
            self.log.append(f"{q} (value) at line {st.lineno}")
            # refresh the expression list for the next round
            if isinstance(st, ast.Expr):
                exprs = [st.value]
            elif isinstance(st, (ast.Assign, ast.AugAssign, ast.AnnAssign, ast.Return)):
                exprs = [st.value] if st.value is not None else []
            elif isinstance(st, (ast.If, ast.Assert)):
                exprs = [st.test]
            elif isinstance(st, (ast.For, ast.AsyncFor)):
                exprs = [st.iter]
            elif isinstance(st, ast.Raise):
                exprs = [x for x in (st.exc,) if x is not None]
        return out + [st]

    def _fuse(self, loop: ast.For, q: str, d: ast.AST, bound: bool, stack: tuple[str, ...], mn: str, cname: str | None) -> list[ast.stmt] | None:
        """`for t in gen(a): body`  ->  gen's body with `yield v` replaced by `t = v; body`."""
        if loop.orelse or _contains(ast.Module(body=loop.body, type_ignores=[]), (ast.Break,)) or _contains(d, (ast.YieldFrom, ast.Return)):
            return None
        has_continue = _contains(ast.Module(body=loop.body, type_ignores=[]), (ast.Continue,))
        b = self._bind(d, loop.iter, bound)  # type: ignore[arg-type]
        if b is None:
            return None
        subst, prelude, rename = b
        body = copy.deepcopy(_docstring_free(d.body))  # type: ignore[attr-defined]
        body = self._block(body, mn, self._owner(mn, d) or cname, stack + (q,))
        ok = True

        def rewrite(stmts: list[ast.stmt], in_loop: bool) -> list[ast.stmt]:
            nonlocal ok
            res: list[ast.stmt] = []
            for s2 in stmts:
                if isinstance(s2, ast.Expr) and isinstance(s2.value, ast.Yield):
                    if has_continue and not in_loop:
                        ok = False
                    v = s2.value.value if s2.value.value is not None else ast.Constant(value=None)
                    res.append(ast.copy_location(ast.Assign(targets=[copy.deepcopy(loop.target)], value=v, lineno=s2.lineno), s2))
                    res += copy.deepcopy(loop.body)
                    continue
                if _contains(s2, (ast.Yield,)):
                    if isinstance(s2, (ast.For, ast.AsyncFor, ast.While)):
                        s2.body = rewrite(s2.body, True)
                        s2.orelse = rewrite(s2.orelse, in_loop)
                    elif isinstance(s2, ast.If):
                        s2.body = rewrite(s2.body, in_loop)
                        s2.orelse = rewrite(s2.orelse, in_loop)
                    elif isinstance(s2, (ast.With, ast.AsyncWith)):
                        s2.body = rewrite(s2.body, in_loop)
                    else:
                        ok = False
                res.append(s2)
            return res

        # rename the helper's own names first; the caller's loop body is spliced in afterwards, untouched
        tr = _Subst(rename, subst)
        body = [tr.visit(s2) for s2 in body]
        body = rewrite(body, False)
        if not ok:
            return None
        body = _fold(body)
        for s2 in body:
            ast.fix_missing_locations(s2)
        return prelude + body

    def _block(self, body: list[ast.stmt], mn: str, cname: str | None, stack: tuple[str, ...]) -> list[ast.stmt]:
        out: list[ast.stmt] = []
        for st in body:
            out += self._stmt(st, mn, cname, stack)
        return out

    # ------------------------------------------------------------------ driver
    def run(self) -> None:
        for mn, tree in self.trees.items():
            for st in tree.body:
                if isinstance(st, (ast.FunctionDef, ast.AsyncFunctionDef)):
                    st.body = self._block(st.body, mn, None, (f"{mn}.{st.name}",))
                elif isinstance(st, ast.ClassDef):
                    for m in st.body:
                        if isinstance(m, (ast.FunctionDef, ast.AsyncFunctionDef)):
                            m.body = self._block(m.body, mn, st.name, (f"{mn}.{st.name}.{m.name}",))
            ast.fix_missing_locations(tree)
        self._drop_dead()

    def _drop_dead(self) -> None:
        """Remove helpers that were inlined at every call site (otherwise their body would be seen twice)."""
        inlined = {l.split(" ")[0] for l in self.log}
        if not inlined:
            return
        # references from other modules (imports of private names do occur)
        imported = {a.name for other in self.trees.values() for x in ast.walk(other) if isinstance(x, ast.ImportFrom) for a in x.names}
        for mn, tree in self.trees.items():
            if not any(q.startswith(mn + ".") for q in inlined):
                continue
            names_used = {x.id for x in ast.walk(tree) if isinstance(x, ast.Name) and isinstance(x.ctx, ast.Load)} | {x.attr for x in ast.walk(tree) if isinstance(x, ast.Attribute)} | imported
            def keep(st: ast.stmt, prefix: str) -> bool:
                if isinstance(st, (ast.FunctionDef, ast.AsyncFunctionDef)) and f"{prefix}.{st.name}" in inlined and st.name not in names_used:
                    self.dropped.append(f"{prefix}.{st.name}")
                    return False
                return True
            tree.body = [st for st in tree.body if keep(st, mn)]
            for c in [st for st in tree.body if isinstance(st, ast.ClassDef)]:
                c.body = [st for st in c.body if keep(st, f"{mn}.{c.name}")] or [ast.Pass()]


class _DesugarMatch(ast.NodeTransformer):
    """`match x: case C(): ... case A() | B(): ... case 1: ... case _ if g: ... case _: ...` -> the equivalent if / elif chain.

    Only patterns without sub-patterns and without captures are rewritten (class patterns without arguments, literal values,
    None/True/False, wildcards, alternatives of those, each optionally with a guard); a `match` using anything else is left alone.
    The engines (CFG, guard facts, rejections, branch tables) read `if isinstance(...)` chains; a `match` over classes is the same
    decision list in another spelling."""

    def __init__(self) -> None:
        self.count = 0

    def _test(self, subj: ast.expr, pat: ast.pattern) -> ast.expr | None | bool:
        if isinstance(pat, ast.MatchAs) and pat.pattern is None and pat.name is None:
            return True  # wildcard
        if isinstance(pat, ast.MatchClass) and not pat.patterns and not pat.kwd_patterns:
            return ast.Call(func=ast.Name(id="isinstance", ctx=ast.Load()), args=[copy.deepcopy(subj), pat.cls], keywords=[])
        if isinstance(pat, ast.MatchValue):
            return ast.Compare(left=copy.deepcopy(subj), ops=[ast.Eq()], comparators=[pat.value])
        if isinstance(pat, ast.MatchSingleton):
            return ast.Compare(left=copy.deepcopy(subj), ops=[ast.Is()], comparators=[ast.Constant(value=pat.value)])
        if isinstance(pat, ast.MatchOr):
            parts = [self._test(subj, p_) for p_ in pat.patterns]
            if any(p_ is None for p_ in parts):
                return None
            if any(p_ is True for p_ in parts):
                return True
            if all(isinstance(p_, ast.Call) and isinstance(p_.func, ast.Name) and p_.func.id == "isinstance" for p_ in parts):
                return ast.Call(func=ast.Name(id="isinstance", ctx=ast.Load()), args=[copy.deepcopy(subj), ast.Tuple(elts=[p_.args[1] for p_ in parts], ctx=ast.Load())], keywords=[])  # type: ignore[union-attr]
            return ast.BoolOp(op=ast.Or(), values=parts)  # type: ignore[arg-type]
        return None

    def visit_Match(self, node: ast.Match):  # noqa: N802
        self.generic_visit(node)
        if not isinstance(node.subject, (ast.Name, ast.Attribute)):
            return node
        arms: list[tuple[ast.expr | None, list[ast.stmt]]] = []
        for case in node.cases:
            t = self._test(node.subject, case.pattern)
            if t is None:
                return node
            if t is True:
                test = case.guard
            elif case.guard is not None:
                test = ast.BoolOp(op=ast.And(), values=[t, case.guard])
            else:
                test = t
            arms.append((test, case.body))
            if test is None:
                break  # an unguarded wildcard: nothing after it is reachable
        root: ast.If | None = None
        cur: ast.If | None = None
        tail: list[ast.stmt] = []
        for test, body in arms:
            if test is None:
                tail = body
                break
            new = ast.If(test=test, body=body, orelse=[])
            if cur is None:
                root = new
            else:
                cur.orelse = [new]
            cur = new
        if root is None:
            out: list[ast.stmt] = tail or [ast.Pass()]
        else:
            cur.orelse = tail  # type: ignore[union-attr]
            out = [root]
        for o in out:
            ast.copy_location(o, node)
            ast.fix_missing_locations(o)
        self.count += 1
        return out


_INIT_LIKE = {"__init__", "__post_init__", "__setstate__", "__new__"}


def _unalias_fields(tree: ast.Module) -> int:
    """`table = self._cache_dict` ... `table[key]` -> `self._cache_dict[key]`.

    A local name that is bound exactly once in a method, to an attribute of `self` that no method of the module rebinds after
    construction, is another spelling of that attribute for the whole method: the rules that ask which fields a method reads,
    writes or locks see the field.  Nothing else is touched (parameters, names bound twice, loop / with / except targets,
    attributes that some method rebinds, methods that rebind `self`)."""
    rebound: set[str] = set()
    for cls in [c for c in ast.walk(tree) if isinstance(c, ast.ClassDef)]:
        for m in [m for m in cls.body if isinstance(m, (ast.FunctionDef, ast.AsyncFunctionDef))]:
            for x in ast.walk(m):
                if isinstance(x, ast.Attribute) and isinstance(x.ctx, (ast.Store, ast.Del)) and isinstance(x.value, ast.Name) and x.value.id == "self" and m.name not in _INIT_LIKE:
                    rebound.add(x.attr)
                if isinstance(x, ast.Call) and isinstance(x.func, ast.Name) and x.func.id in ("setattr", "delattr"):
                    return 0  # attributes are written by computed name somewhere in this module: nothing is known to be stable
    n = 0
    for cls in [c for c in ast.walk(tree) if isinstance(c, ast.ClassDef)]:
        for m in [m for m in cls.body if isinstance(m, (ast.FunctionDef, ast.AsyncFunctionDef))]:
            if not m.args.args or m.args.args[0].arg != "self" or m.name in _INIT_LIKE:
                continue
            params = {a.arg for a in m.args.args + m.args.kwonlyargs + m.args.posonlyargs} | ({m.args.vararg.arg} if m.args.vararg else set()) | ({m.args.kwarg.arg} if m.args.kwarg else set())
            stores: dict[str, int] = {}
            for x in ast.walk(m):
                if isinstance(x, ast.Name) and isinstance(x.ctx, (ast.Store, ast.Del)):
                    stores[x.id] = stores.get(x.id, 0) + 1
                elif isinstance(x, (ast.Global, ast.Nonlocal)):
                    for nm in x.names:
                        stores[nm] = stores.get(nm, 0) + 2
                elif isinstance(x, (ast.FunctionDef, ast.AsyncFunctionDef, ast.ClassDef)) and x is not m:
                    stores[x.name] = stores.get(x.name, 0) + 2
                    for a in x.args.args + x.args.kwonlyargs + x.args.posonlyargs if not isinstance(x, ast.ClassDef) else []:
                        stores[a.arg] = stores.get(a.arg, 0) + 2  # shadowed in a nested function
                elif isinstance(x, ast.Lambda):
                    for a in x.args.args + x.args.kwonlyargs + x.args.posonlyargs:
                        stores[a.arg] = stores.get(a.arg, 0) + 2
                elif isinstance(x, ast.ExceptHandler) and x.name:
                    stores[x.name] = stores.get(x.name, 0) + 2
            if stores.get("self"):
                continue
            alias: dict[str, ast.Attribute] = {}
            for st in ast.walk(m):
                if not (isinstance(st, ast.Assign) and len(st.targets) == 1):
                    continue
                pairs: list[tuple[ast.AST, ast.AST]] = []
                t, v = st.targets[0], st.value
                if isinstance(t, ast.Name):
                    pairs = [(t, v)]
                elif isinstance(t, ast.Tuple) and isinstance(v, ast.Tuple) and len(t.elts) == len(v.elts) and all(isinstance(e, ast.Name) for e in t.elts):
                    pairs = list(zip(t.elts, v.elts))
                for tn, tv in pairs:
                    if (isinstance(tn, ast.Name) and stores.get(tn.id) == 1 and tn.id not in params and isinstance(tv, ast.Attribute) and isinstance(tv.value, ast.Name)
                            and tv.value.id == "self" and tv.attr not in rebound):
                        alias[tn.id] = tv
            if not alias:
                continue

            class _Sub(ast.NodeTransformer):
                def visit_Name(self, node: ast.Name):  # noqa: N802
                    if isinstance(node.ctx, ast.Load) and node.id in alias:
                        return ast.copy_location(ast.Attribute(value=ast.Name(id="self", ctx=ast.Load()), attr=alias[node.id].attr, ctx=ast.Load()), node)
                    return node

                def visit_Assign(self, node: ast.Assign):  # noqa: N802
                    # the binding itself touches nothing: drop it (or the aliased slots of a tuple assignment)
                    t = node.targets[0]
                    if len(node.targets) == 1 and isinstance(t, ast.Name) and t.id in alias and node.value is alias[t.id]:
                        return ast.copy_location(ast.Pass(), node)
                    if len(node.targets) == 1 and isinstance(t, ast.Tuple) and isinstance(node.value, ast.Tuple) and any(isinstance(e, ast.Name) and alias.get(e.id) is v_ for e, v_ in zip(t.elts, node.value.elts)):
                        keep = [(e, v_) for e, v_ in zip(t.elts, node.value.elts) if not (isinstance(e, ast.Name) and alias.get(e.id) is v_)]
                        if not keep:
                            return ast.copy_location(ast.Pass(), node)
                        if len(keep) == 1:
                            new = ast.Assign(targets=[keep[0][0]], value=self.visit(keep[0][1]))
                        else:
                            new = ast.Assign(targets=[ast.Tuple(elts=[k for k, _ in keep], ctx=ast.Store())], value=ast.Tuple(elts=[self.visit(v_) for _, v_ in keep], ctx=ast.Load()))
                        return ast.copy_location(new, node)
                    return self.generic_visit(node)

            m.body = [_Sub().visit(st) for st in m.body]
            ast.fix_missing_locations(m)
            n += len(alias)
    return n


class _SplitTupleAssign(ast.NodeTransformer):
    """`a, b = f(x), True` -> `a = f(x); b = True` when that is the same program: every value after the first is a constant or a
    plain local name that is not one of the targets (so it reads the same whether evaluated before or after the first store), and
    no value names a target.  Path rules then see which statement stores what, and that it happens after the call returned."""

    def __init__(self) -> None:
        self.count = 0

    def visit_Assign(self, node: ast.Assign):  # noqa: N802
        t = node.targets[0]
        if len(node.targets) != 1 or not isinstance(t, ast.Tuple) or not isinstance(node.value, ast.Tuple) or len(t.elts) != len(node.value.elts) or len(t.elts) < 2:
            return node
        if any(isinstance(e, ast.Starred) for e in t.elts + node.value.elts):
            return node
        # only worth it when a value is a call: `a, b = x, y` is read as it stands by Defs and the other engines
        if not any(isinstance(x, ast.Call) for x in ast.walk(node.value.elts[0])) or any(isinstance(x, (ast.Call, ast.Await, ast.Yield, ast.YieldFrom, ast.NamedExpr)) for v in node.value.elts[1:] for x in ast.walk(v)):
            return node
        target_txt = {ast.unparse(e) for e in t.elts}
        for v in node.value.elts[1:]:
            if not isinstance(v, (ast.Constant, ast.Name)):
                return node
            if isinstance(v, ast.Name) and v.id in target_txt:
                return node
        if any(ast.unparse(x) in target_txt for v in node.value.elts for x in ast.walk(v) if isinstance(x, (ast.Name, ast.Attribute, ast.Subscript))):
            return node
        self.count += 1
        return [ast.copy_location(ast.Assign(targets=[e], value=v), node) for e, v in zip(t.elts, node.value.elts)]


def normalise(trees: dict[str, ast.Module]) -> dict:
    """Inline unknown private helpers in place; returns statistics (empty when there is no table)."""
    n_match = 0
    n_alias = 0
    n_split = 0
    for name, tree in trees.items():
        dm = _DesugarMatch()
        trees[name] = dm.visit(tree)
        n_match += dm.count
        n_alias += _unalias_fields(trees[name])
        sp = _SplitTupleAssign()
        trees[name] = sp.visit(trees[name])
        ast.fix_missing_locations(trees[name])
        n_split += sp.count
    known = load_known()
    if known is None:
        return {"match_desugared": n_match, "field_aliases": n_alias, "tuple_assigns_split": n_split}
    inl = Inliner(trees, known)
    inl.run()
    return {**inl.stats, "match_desugared": n_match, "field_aliases": n_alias, "tuple_assigns_split": n_split, "dropped": inl.dropped, "log": inl.log[:200]}
