"""Obligations, known findings, evidence files and exit codes shared by all checks."""

from __future__ import annotations

import json
import os
import time
from dataclasses import asdict, dataclass, field
from pathlib import Path

from .loader import AnalysisError, FuncInfo, Program, norm

VERIF = Path(__file__).resolve().parent.parent
EVIDENCE = VERIF / "evidence"
KNOWN = VERIF / "known_findings.json"


@dataclass
class Ob:
    """One obligation: a rule applied to one construct of the source."""

    rule: str
    instance: str  # qualified function / class / call-site description
    loc: str  # file:line
    ok: bool | None  # True holds, False violated (a violating construct was positively identified), None undecided (abstained)
    detail: str
    key: str = ""  # normalised statement text (line-number free) used to match known findings
    path: list[str] = field(default_factory=list)

    def ident(self) -> tuple[str, str, str]:
        return (self.rule, self.instance, self.key)


class Ctx:
    """What a rule module gets: the program, lazily built engines and the obligation sink."""

    def __init__(self, prog: Program, prop: str, tier: str = "quick") -> None:
        self.prog = prog
        self.prop = prop
        self.tier = tier
        self.obs: list[Ob] = []
        self.floors: list[tuple[str, int, int]] = []
        self.notes: list[str] = []
        self._typer = None
        self._cg = None
        self._cfgs: dict[str, object] = {}
        self._effects = None

    @property
    def typer(self):
        if self._typer is None:
            from .types import Typer

            self._typer = Typer(self.prog)
        return self._typer

    @property
    def cg(self):
        if self._cg is None:
            from .callgraph import CallGraph

            self._cg = CallGraph(self.prog, self.typer)
        return self._cg

    @property
    def effects(self):
        if self._effects is None:
            from .effects import Effects

            self._effects = Effects(self.prog, self.cg)
        return self._effects

    def cfg(self, fn: FuncInfo):
        from .cfg import CFG

        if fn.qualname not in self._cfgs:
            self._cfgs[fn.qualname] = CFG(fn.node, NORETURN)
        return self._cfgs[fn.qualname]

    # ------------------------------------------------------------------
    def add(self, rule: str, fn_or_instance, node, ok: bool, detail: str, key_node=None, path=None, key: str | None = None) -> Ob:
        if isinstance(fn_or_instance, FuncInfo):
            instance = fn_or_instance.qualname
            rel = fn_or_instance.module.relpath
            line = getattr(node, "lineno", fn_or_instance.node.lineno) if node is not None else fn_or_instance.node.lineno
            loc = f"{rel}:{line}"
        else:
            instance = str(fn_or_instance)
            loc = node if isinstance(node, str) else ""
        if key is None:
            kn = key_node if key_node is not None else (node if node is not None and not isinstance(node, str) else None)
            key = _short_key(kn) if kn is not None else ""
        ob = Ob(f"{self.prop}.{rule}" if not rule.startswith(self.prop) else rule, instance, loc, None if ok is None else bool(ok), detail, key, list(path or []))
        self.obs.append(ob)
        return ob

    def tri(self, rule: str, fn_or_instance, node, good: bool, bad: bool, good_msg: str, bad_msg: str, undecided_msg: str = "", **kw) -> Ob:
        """Three-valued obligation: holds when the accepted shape is recognised, violated only when the violating
        construct is positively identified, otherwise the rule abstains (reported, never an alarm)."""
        if good:
            return self.add(rule, fn_or_instance, node, True, good_msg, **kw)
        if bad:
            return self.add(rule, fn_or_instance, node, False, bad_msg, **kw)
        return self.add(rule, fn_or_instance, node, None, "UNDECIDED: " + (undecided_msg or "the construct was rewritten into a shape this rule does not recognise; it abstains instead of guessing"), **kw)

    def floor(self, rule: str, matched: int, minimum: int) -> None:
        """A rule that matches fewer constructs than were confirmed by hand on the reference tree no longer sees all of
        its constructs: that is recorded as an UNDECIDED obligation (never a silent vacuous pass, never an alarm)."""
        self.floors.append((rule, matched, minimum))
        if matched < minimum:
            self.add(rule, f"{self.prop}.{rule}", "", None, f"UNDECIDED: matched {matched} instance(s) where the reference tree has {minimum}: the rule no longer sees all of its constructs", key="floor")

    def run(self, rule_fn, *args) -> None:
        """Run one rule; a non-fatal AnalysisError (private helper / internal construct not found) makes that rule abstain."""
        try:
            rule_fn(self, *args)
        except AnalysisError as e:
            if e.fatal:
                raise
            self.add(getattr(rule_fn, "__name__", "rule"), f"{self.prop}.{getattr(rule_fn, '__name__', 'rule')}", "", None, f"UNDECIDED: {e}", key="abstained")

    def note(self, text: str) -> None:
        self.notes.append(text)


def _short_key(node) -> str:
    import ast

    if isinstance(node, (ast.If, ast.While)):
        return "if " + norm(node.test) if isinstance(node, ast.If) else "while " + norm(node.test)
    if isinstance(node, (ast.For, ast.AsyncFor)):
        return f"for {norm(node.target)} in {norm(node.iter)}"
    if isinstance(node, (ast.With, ast.AsyncWith)):
        return "with " + ", ".join(norm(i.context_expr) for i in node.items)
    if isinstance(node, (ast.FunctionDef, ast.AsyncFunctionDef, ast.ClassDef)):
        return f"def {node.name}"
    if isinstance(node, ast.Try):
        return "try"
    return norm(node)[:300]


NORETURN = frozenset({"handle_error"})


# ---------------------------------------------------------------------- known findings
def load_known() -> list[dict]:
    if not KNOWN.is_file():
        return []
    return json.loads(KNOWN.read_text())["findings"]


def match_known(ob: Ob, known: list[dict]) -> dict | None:
    for k in known:
        if k.get("status") != "known":
            continue  # 'fixed' entries suppress nothing
        if k["rule"] != ob.rule or k["construct"] != ob.instance:
            continue
        if k.get("statement") and k["statement"] != ob.key:
            continue
        return k
    return None


# ---------------------------------------------------------------------- finishing a run
def finish(ctx: Ctx, *, t0: float, explanation: str, trusted: list[str], declined: list[str], extra: dict | None = None,
           selftest: dict | None = None, write: bool = True) -> int:
    prop = ctx.prop
    known = [k for k in load_known() if k["property"] == prop]
    failing = [o for o in ctx.obs if o.ok is False]
    undecided = [o for o in ctx.obs if o.ok is None]
    for o in undecided:
        print(f"UNDECIDED {o.rule} {o.loc} [{o.instance}] {o.detail[:200]}")
    listed: list[tuple[Ob, dict]] = []
    unlisted: list[Ob] = []
    for o in failing:
        k = match_known(o, known)
        if k is not None:
            listed.append((o, k))
        else:
            unlisted.append(o)
    for o, k in listed:
        print(f"KNOWN-FINDING: property={prop} {k['id']} {o.rule} at {o.loc} ({o.instance}): {k['what']}")
    replay_dir = EVIDENCE / "replay"
    rc = 0
    if unlisted:
        rc = 1
        if write:
            replay_dir.mkdir(parents=True, exist_ok=True)
        for i, o in enumerate(unlisted):
            rp = replay_dir / f"{prop}_{i}.json"
            if write:
                rp.write_text(json.dumps({**asdict(o), "rerun": f"cd /verif && /venv/bin/python -m sa.check {prop} --tier {ctx.tier}"}, indent=1))
            print(f"FAILED {o.rule} {o.loc} [{o.instance}] {o.detail}")
            for p in o.path[:12]:
                print(f"    path: {p}")
            print(f"VIOLATION property={prop} replay={rp}")
    rules = sorted({o.rule for o in ctx.obs})
    distinct = len({(o.rule, o.instance, o.key) for o in ctx.obs})
    samples = [
        {"rule": o.rule, "construct": o.instance, "at": o.loc, "verdict": "holds" if o.ok else ("FAILS" if o.ok is False else "undecided"), "what": o.detail[:240]}
        for o in (failing[:6] + undecided[:3] + [o for o in ctx.obs if o.ok][:: max(1, len(ctx.obs) // 14)])[:20]
    ]
    coverage = {
        "explanation": explanation,
        "obligations": len(ctx.obs),
        "discharged": sum(o.ok is True for o in ctx.obs),
        "undecided": len(undecided),
        "evaluations": len(ctx.obs),
        "distinct_nontrivial": distinct,
        "rule": "one obligation = one rule applied to one source construct (function, call site, branch, field) found by "
        "the analysis on this run; distinct = different (rule, construct, normalised statement) triples; every one is "
        "non-trivial in the sense that the rule's matcher found a real construct in /repo (floors guard against vacuous matches)",
        "samples": samples,
        "checker_cmd": f"cd /verif && /venv/bin/python -m sa.check {prop} --tier {ctx.tier}",
        "trusted_base": trusted,
        "rules_applied": rules,
        "instance_floors": [{"rule": r, "matched": m, "floor": f} for r, m, f in ctx.floors],
        "source_digest": ctx.prog.digest(),
        "modules_parsed": len(ctx.prog.modules),
        "functions_parsed": len(ctx.prog.functions),
        "modules_consulted": sorted(ctx.prog.consulted),
        "clauses_declined": declined,
        "known_findings_matched": [k["id"] for _, k in listed],
        "notes": ctx.notes,
        "exhaustive": False,
    }
    if ctx._cg is not None:
        coverage["call_sites_seen"] = ctx._cg.n_calls
        coverage["call_sites_resolved"] = sum(len(v) for v in ctx._cg.sites.values())
    if extra:
        coverage.update(extra)
    if selftest is not None:
        coverage["selftest"] = selftest
    ev = {
        "property_id": prop,
        "tier": ctx.tier,
        "seed": int(os.environ.get("VERIF_SEED", "0") or 0),
        "level": "other",
        "coverage": coverage,
        "assumptions": trusted,
        "wall_s": round(time.time() - t0, 3),
        "violations": len(unlisted),
    }
    if write:
        EVIDENCE.mkdir(parents=True, exist_ok=True)
        (EVIDENCE / f"{prop}.json").write_text(json.dumps(ev, indent=1, default=str))
    print(f"{prop} [{ctx.tier}]: {len(ctx.obs)} obligations, {sum(o.ok is True for o in ctx.obs)} hold, {len(undecided)} undecided, "
          f"{len(listed)} known finding(s), {len(unlisted)} violation(s); {len(rules)} rules; {ev['wall_s']}s")
    return rc
