"""E1 - resolved call graph over the package (networkx DiGraph of qualified function names)."""

from __future__ import annotations

import ast
from dataclasses import dataclass

import networkx as nx

from .loader import FuncInfo, Program, dotted, walk_no_nested
from .types import Typer

SUBMIT_ATTRS = {"submit"}  # executor.submit(f, *args) -> deferred call of f


@dataclass
class CallSite:
    caller: FuncInfo
    node: ast.Call
    callees: list[FuncInfo]
    kind: str = "call"  # call | partial | submit | ctor | property | callback

    @property
    def loc(self) -> str:
        return f"{self.caller.module.relpath}:{self.node.lineno}"


class CallGraph:
    def __init__(self, prog: Program, typer: Typer | None = None) -> None:
        self.prog = prog
        self.typer = typer or Typer(prog)
        self.g = nx.DiGraph()
        self.sites: dict[str, list[CallSite]] = {}
        self.unresolved: list[tuple[str, str]] = []
        self.n_calls = 0
        for fn in prog.functions.values():
            self.g.add_node(fn.qualname)
        for fn in prog.functions.values():
            self._scan(fn)

    # ------------------------------------------------------------------
    def resolve_callable(self, fn: FuncInfo, expr: ast.AST, _depth: int = 0) -> list[FuncInfo]:
        """Functions that `expr` (used as a callable value) may denote."""
        prog = self.prog
        if _depth > 6:
            return []
        if isinstance(expr, ast.Call) and dotted(expr.func) in ("functools.partial", "partial") and expr.args:
            return self.resolve_callable(fn, expr.args[0], _depth + 1)
        if isinstance(expr, ast.Name):
            q = prog.resolve_name(fn.module, expr.id, fn)
            if q in prog.functions:
                return [prog.functions[q]]
            if q in prog.classes:
                return self._ctor(q)
            # a variable holding an instance of a repo class (callable object) or a class object
            ty = self.typer.expr(fn, expr)
            if ty.kind == "type" and ty.args and ty.args[0].classes():
                out0: list[FuncInfo] = []
                for c in sorted(ty.args[0].classes()):
                    out0.extend(self._ctor(c))
                if out0:
                    return out0
            if ty.classes():
                out1: list[FuncInfo] = []
                for c in sorted(ty.classes()):
                    for m in prog.method_impls(c, "__call__"):
                        if m not in out1:
                            out1.append(m)
                if out1:
                    return out1
            # a local variable bound to a callable (partial / function name)
            for n in walk_no_nested(fn.node):
                if isinstance(n, ast.Assign) and any(isinstance(t, ast.Name) and t.id == expr.id for t in n.targets):
                    if isinstance(n.value, (ast.Name, ast.Call, ast.Attribute)) and n.value is not expr:
                        if isinstance(n.value, ast.Call) and dotted(n.value.func) not in ("functools.partial", "partial"):
                            continue
                        r = self.resolve_callable(fn, n.value, _depth + 1)
                        if r:
                            return r
            return []
        if isinstance(expr, ast.Attribute):
            name = dotted(expr)
            if name:
                q = prog.resolve_name(fn.module, name, fn)
                if q in prog.functions:
                    return [prog.functions[q]]
                if q in prog.classes:
                    return self._ctor(q)
            base = self.typer.expr(fn, expr.value)
            classes = set(base.classes())
            static = False
            if base.kind == "type" and base.args:
                classes |= base.args[0].classes()
                static = True
            out: list[FuncInfo] = []
            for c in sorted(classes):
                impls = [m for m in [prog.find_method(c, expr.attr)] if m] if static else prog.method_impls(c, expr.attr)
                for m in impls:
                    if m not in out:
                        out.append(m)
            if not out:
                # attribute holding a callable object of a repo class: obj.attr(...) -> attr_type.__call__
                ty = self.typer.expr(fn, expr)
                for c in sorted(ty.classes()):
                    for m in prog.method_impls(c, "__call__"):
                        if m not in out:
                            out.append(m)
            return out
        return []

    def _ctor(self, cls_q: str) -> list[FuncInfo]:
        out = []
        for name in ("__init__", "__post_init__"):
            m = self.prog.find_method(cls_q, name)
            if m:
                out.append(m)
        return out

    def _scan(self, fn: FuncInfo) -> None:
        sites: list[CallSite] = []
        for n in walk_no_nested(fn.node):
            if isinstance(n, ast.Call):
                self.n_calls += 1
                callees = self.resolve_callable(fn, n.func)
                kind = "call"
                name = dotted(n.func)
                if name in ("functools.partial", "partial") and n.args:
                    callees = self.resolve_callable(fn, n.args[0])
                    kind = "partial"
                elif isinstance(n.func, ast.Attribute) and n.func.attr in SUBMIT_ATTRS and n.args:
                    callees = self.resolve_callable(fn, n.args[0])
                    kind = "submit"
                elif callees and callees[0].name in ("__init__", "__post_init__") and not name.endswith("__init__"):
                    kind = "ctor"
                if callees:
                    sites.append(CallSite(fn, n, callees, kind))
                elif name:
                    self.unresolved.append((f"{fn.module.relpath}:{n.lineno}", name))
                # callables passed as arguments (callbacks): record as deferred edges
                for a in [*n.args, *[k.value for k in n.keywords]]:
                    if isinstance(a, (ast.Name, ast.Attribute)):
                        cb = self.resolve_callable(fn, a)
                        # only function values count as callbacks, not instances or classes passed along
                        cb = [c for c in cb if c.name not in ("__init__", "__post_init__", "__call__")]
                        if cb and kind == "call" and not (callees and a in n.args[:0]):
                            sites.append(CallSite(fn, n, cb, "callback"))
            elif isinstance(n, ast.Attribute) and isinstance(n.ctx, ast.Load):
                # property reads of repo classes
                base = self.typer.expr(fn, n.value)
                for c in sorted(base.classes()):
                    m = self.prog.find_method(c, n.attr)
                    if m is not None and m.is_property:
                        fake = ast.Call(func=n, args=[], keywords=[])
                        ast.copy_location(fake, n)
                        sites.append(CallSite(fn, fake, [m], "property"))
        # nested functions are (potentially) called by their parent
        for sub in fn.nested.values():
            self.g.add_edge(fn.qualname, sub.qualname, kind="nested")
        for s in sites:
            for c in s.callees:
                self.g.add_edge(fn.qualname, c.qualname, kind=s.kind)
        self.sites[fn.qualname] = sites

    # ------------------------------------------------------------------
    def callees(self, q: str) -> set[str]:
        return set(self.g.successors(q)) if q in self.g else set()

    def callers(self, q: str) -> set[str]:
        return set(self.g.predecessors(q)) if q in self.g else set()

    def reachable(self, q: str) -> set[str]:
        return nx.descendants(self.g, q) | {q} if q in self.g else set()

    def path(self, src: str, dst: str) -> list[str] | None:
        try:
            return nx.shortest_path(self.g, src, dst)
        except (nx.NetworkXNoPath, nx.NodeNotFound):
            return None

    def call_sites_of(self, callee_q: str) -> list[CallSite]:
        out = []
        for sites in self.sites.values():
            for s in sites:
                if any(c.qualname == callee_q for c in s.callees):
                    out.append(s)
        return out

    def sites_in(self, fn: FuncInfo, callee_q: str | None = None, kinds: tuple[str, ...] | None = None) -> list[CallSite]:
        out = []
        for s in self.sites.get(fn.qualname, []):
            if callee_q is not None and not any(c.qualname == callee_q for c in s.callees):
                continue
            if kinds is not None and s.kind not in kinds:
                continue
            out.append(s)
        return out
