"""Command line entry: ``python -m sa.check C14 --tier quick|thorough``.

Exit 0: every obligation discharged (known findings are printed as KNOWN-FINDING lines).
Exit 1: an obligation failed that known_findings.json does not list (VIOLATION line printed).
Exit 2: the analysis itself could not run (ANALYSIS-ERROR ...), never a silent pass.
"""

from __future__ import annotations

import argparse
import importlib
import os
import sys
import time
import traceback

from .loader import AnalysisError, Program
from .report import Ctx, finish

PROPS = ["C01", "C02", "C03", "C04", "C05", "C06", "C07", "C08", "C09", "C10", "C11", "C12", "C13", "C14", "C15",
         "C16", "C17", "C18", "C20"]


def main(argv: list[str] | None = None) -> int:
    ap = argparse.ArgumentParser()
    ap.add_argument("prop")
    ap.add_argument("--tier", default=os.environ.get("VERIF_TIER", "quick"), choices=["quick", "thorough"])
    ap.add_argument("--no-write", action="store_true")
    a = ap.parse_args(argv)
    prop = a.prop.upper()
    t0 = time.time()
    try:
        mod = importlib.import_module(f"sa.rules.{prop.lower()}")
        prog = Program()
        ctx = Ctx(prog, prop, a.tier)
        mod.check(ctx)
        if not ctx.obs:
            raise AnalysisError("no obligation was generated")
        selftest = None
        if a.tier == "thorough":
            from . import selftest as st

            selftest = st.run(prop)
            print(f"self-test: {selftest.get('killed', 0)}/{selftest['mutants']} mutants killed "
                  f"(+{selftest.get('killed_other_rule', 0)} by another rule), missed={selftest.get('missed', [])}, "
                  f"twins silent {selftest.get('twins_silent', 0)}/{selftest.get('twins', 0)}, stale={selftest.get('stale', [])}")
            c = selftest.get("corpus", {})
            print(f"corpus replay on the current tree: refactorings silent {c.get('refactorings_silent')}/{c.get('refactorings')} (alarms: {[r['name'] for r in c.get('refactoring_alarms', [])]}; "
                  f"{len(c.get('refactorings_for_an_earlier_tree', []))} written for an earlier tree, replayed there by tools/harness.py); "
                  f"seeded changes for {prop}: reported by this check {c.get('seeded_reported_by_this_check')}, not by this check {c.get('seeded_not_reported_by_this_check')}")
        return finish(ctx, t0=t0, explanation=mod.EXPLANATION, trusted=mod.TRUSTED, declined=mod.DECLINED,
                      extra={"technique": getattr(mod, "TECHNIQUE", "static analysis"), **getattr(mod, "extra_evidence", lambda c: {})(ctx)}, selftest=selftest, write=not a.no_write)
    except AnalysisError as e:
        print(f"ANALYSIS-ERROR property={prop} {e}")
        return 2
    except Exception:  # noqa: BLE001
        print(f"ANALYSIS-ERROR property={prop} internal error:\n{traceback.format_exc()}")
        return 2


if __name__ == "__main__":
    sys.exit(main())
