"""E3 - effect summaries: direct effects per function by syntactic pattern, closed over the call graph."""

from __future__ import annotations

import ast

import networkx as nx

from .callgraph import CallGraph
from .loader import FuncInfo, Program, dotted, walk_no_nested

FS_WRITE, FS_DELETE, FS_READ, USER_CALL = "FS_WRITE", "FS_DELETE", "FS_READ", "USER_CALL"

_WRITE_MODES = ("w", "a", "x", "+")


def _open_mode(call: ast.Call) -> str | None:
    """Mode of an open()/Path.open() call, or None when `call` is not an open."""
    name = dotted(call.func)
    is_builtin_open = name == "open"
    is_method_open = isinstance(call.func, ast.Attribute) and call.func.attr == "open"
    if not (is_builtin_open or is_method_open):
        return None
    args = call.args[1:] if is_builtin_open else call.args
    mode: ast.AST | None = args[0] if args else None
    for k in call.keywords:
        if k.arg == "mode":
            mode = k.value
    if mode is None:
        return "r"
    if isinstance(mode, ast.Constant) and isinstance(mode.value, str):
        return mode.value
    return "?"  # dynamic mode: may write


def direct_effects(fn: FuncInfo) -> list[tuple[str, ast.AST]]:
    out: list[tuple[str, ast.AST]] = []
    for n in walk_no_nested(fn.node):
        if not isinstance(n, ast.Call):
            continue
        name = dotted(n.func)
        attr = n.func.attr if isinstance(n.func, ast.Attribute) else ""
        mode = _open_mode(n)
        if mode is not None:
            if mode == "?" or any(c in mode for c in _WRITE_MODES):
                out.append((FS_WRITE, n))
            else:
                out.append((FS_READ, n))
            continue
        if name in ("json.dump", "cloudpickle.dump", "pickle.dump", "os.replace", "os.rename", "shutil.move", "shutil.copy", "shutil.copyfile"):
            out.append((FS_WRITE, n))
        elif attr in ("mkdir", "write_text", "write_bytes", "touch", "rename", "symlink_to") or name in ("os.makedirs", "os.mkdir"):
            out.append((FS_WRITE, n))
        elif attr == "replace" and len(n.args) == 1 and not n.keywords and _looks_like_path(n.func.value):  # type: ignore[union-attr]
            out.append((FS_WRITE, n))
        elif name in ("shutil.rmtree", "os.remove", "os.unlink", "os.rmdir") or attr in ("unlink", "rmdir"):
            if attr == "unlink" and isinstance(n.func.value, ast.Name) and _is_own_temp(fn, n.func.value.id):  # type: ignore[union-attr]
                continue  # removing the temporary sibling this very function created is not a deletion of stored data
            out.append((FS_DELETE, n))
        elif name in ("json.load", "cloudpickle.load", "pickle.load", "os.listdir") or attr in ("read_text", "read_bytes", "is_file", "exists", "is_dir", "glob", "rglob", "iterdir", "stat"):
            out.append((FS_READ, n))
        elif isinstance(n.func, ast.Attribute) and n.func.attr == "func" and fn.cls is not None and fn.name in ("__call__", "evaluate", "reproduce"):
            # self.func(*args, **kwargs): the wrapped user function
            out.append((USER_CALL, n))
        elif name == "self.function" and fn.name == "reproduce":
            out.append((USER_CALL, n))
    return out


def _is_own_temp(fn: FuncInfo, name: str) -> bool:
    """`name` is a local temporary file of `fn`: not a parameter, and either built as a sibling/temp name or the very
    file this function opens for writing and later renames onto its destination."""
    if name in fn.param_names():
        return False
    opened = replaced = False
    for n in walk_no_nested(fn.node):
        if isinstance(n, ast.Assign) and any(isinstance(t, ast.Name) and t.id == name for t in n.targets):
            src = ast.unparse(n.value)
            if ".with_name(" in src or "mkstemp" in src or "NamedTemporaryFile" in src or ".with_suffix(" in src or "temporary" in src.lower() or "tmp" in src.lower():
                return True
        if isinstance(n, ast.Call) and isinstance(n.func, ast.Attribute) and isinstance(n.func.value, ast.Name) and n.func.value.id == name:
            if n.func.attr == "open":
                opened = True
            if n.func.attr in ("replace", "rename"):
                replaced = True
        if isinstance(n, ast.Call) and dotted(n.func) in ("os.replace", "os.rename") and n.args and isinstance(n.args[0], ast.Name) and n.args[0].id == name:
            replaced = True
    return opened and replaced


def _looks_like_path(node: ast.AST) -> bool:
    text = dotted(node)
    return any(t in text.lower() for t in ("path", "tmp", "file", "folder"))


class Effects:
    def __init__(self, prog: Program, cg: CallGraph) -> None:
        self.prog = prog
        self.cg = cg
        self.direct: dict[str, list[tuple[str, ast.AST]]] = {}
        for q, fn in prog.functions.items():
            d = direct_effects(fn)
            if d:
                self.direct[q] = d

        self._callable_params()

    def _callable_params(self) -> None:
        """`compute_fn()` where `compute_fn` is a parameter: the call runs a user function when some call site of the enclosing
        function passes a nested function / lambda that (transitively) does."""
        from .flow import bind_args

        todo: list[tuple[FuncInfo, str, ast.Call]] = []
        for fn in self.prog.functions.values():
            params = set(fn.param_names()) - {"self", "cls"}
            for n in walk_no_nested(fn.node):
                if isinstance(n, ast.Call) and isinstance(n.func, ast.Name) and n.func.id in params:
                    todo.append((fn, n.func.id, n))
        if not todo:
            return
        callers: dict[str, list[tuple[FuncInfo, ast.Call]]] = {}
        for q, sites in self.cg.sites.items():
            for s_ in sites:
                if s_.kind != "call" or not isinstance(s_.node, ast.Call):
                    continue
                for c in s_.callees:
                    callers.setdefault(c.qualname, []).append((self.prog.functions[q], s_.node))
        for fn, prm, call in todo:
            hit = False
            for caller, site in callers.get(fn.qualname, []):
                a = bind_args(site, fn).get(prm)
                if a is None:
                    continue
                cands: list[FuncInfo] = []
                if isinstance(a, ast.Name):
                    scope = caller
                    while scope is not None:
                        if a.id in scope.nested:
                            cands.append(scope.nested[a.id])
                            break
                        scope = scope.parent
                for g in cands:
                    if self.has(g.qualname, USER_CALL):
                        hit = True
                if isinstance(a, ast.Lambda) or (isinstance(a, ast.Call) and dotted(a.func).rsplit(".", 1)[-1] == "partial"):
                    for x in ast.walk(a):
                        if isinstance(x, ast.Call) or (isinstance(x, (ast.Name, ast.Attribute)) and isinstance(a, ast.Call)):
                            for callee in self.cg.resolve_callable(caller, x.func if isinstance(x, ast.Call) else x):
                                if self.has(callee.qualname, USER_CALL):
                                    hit = True
            if hit:
                self.direct.setdefault(fn.qualname, []).append((USER_CALL, call))

    def direct_of(self, q: str, effect: str) -> list[ast.AST]:
        return [n for e, n in self.direct.get(q, []) if e == effect]

    def sources(self, effect: str) -> set[str]:
        return {q for q, d in self.direct.items() if any(e == effect for e, _ in d)}

    def has(self, q: str, effect: str, *, skip_kinds: tuple[str, ...] = (), modules: tuple[str, ...] | None = None) -> bool:
        return self.witness(q, effect, skip_kinds=skip_kinds, modules=modules) is not None

    def witness(self, q: str, effect: str, *, skip_kinds: tuple[str, ...] = (), modules: tuple[str, ...] | None = None) -> list[str] | None:
        """Shortest call path from q to a function with a direct `effect` (None if there is none).

        `modules` restricts the functions whose direct effects count (module-name prefixes), e.g. to
        tell writes into a run folder from the DiskCache creating its own directory.
        """
        g = self.cg.g
        if skip_kinds:
            g = nx.subgraph_view(g, filter_edge=lambda a, b: self.cg.g.edges[a, b].get("kind") not in skip_kinds)
        srcs = self.sources(effect)
        if modules is not None:
            srcs = {s for s in srcs if self.prog.functions[s].module.name.startswith(modules)}
        if q in srcs:
            return [q]
        if q not in g:
            return None
        best = None
        lengths = nx.single_source_shortest_path(g, q)
        for s in srcs:
            if s in lengths and (best is None or len(lengths[s]) < len(best)):
                best = lengths[s]
        return best

    def describe(self, path: list[str], effect: str) -> list[str]:
        out = [p.replace("pipefunc.", "") for p in path]
        last = path[-1]
        nodes = self.direct_of(last, effect)
        if nodes:
            fn = self.prog.functions[last]
            out.append(f"{fn.module.relpath}:{nodes[0].lineno} {ast.unparse(nodes[0])[:80]}")
        return out
