"""Annotation-driven light type inference (what DESIGN.md calls the annotation half of E1/E4).

pipefunc annotates every parameter and most attributes; this module reads those annotations from
the AST (``from __future__ import annotations`` keeps them as plain expressions) and propagates
them through simple assignments, loops and attribute reads.  It is deliberately small: rules use
it to find the repo class of a receiver or the declared type of an operand, and report
analysis-error when they need a type they did not get.
"""

from __future__ import annotations

import ast
from dataclasses import dataclass

from .loader import ClassInfo, FuncInfo, ModuleInfo, Program, dotted, walk_no_nested

BUILTIN_SCALARS = {"str", "int", "float", "bool", "bytes", "complex", "object"}
SEQ_NAMES = {"list", "List", "Sequence", "Iterable", "Iterator", "set", "Set", "frozenset", "Collection", "MutableSequence", "Generator", "deque"}
MAP_NAMES = {"dict", "Dict", "Mapping", "MutableMapping", "OrderedDict", "defaultdict", "UserDict"}


@dataclass(frozen=True)
class Ty:
    kind: str  # cls | builtin | seq | map | tuple | union | type | none | any
    name: str = ""
    args: tuple[Ty, ...] = ()

    def classes(self) -> set[str]:
        """Repo class qualnames this type may denote."""
        if self.kind == "cls":
            return {self.name}
        if self.kind == "union":
            out: set[str] = set()
            for a in self.args:
                out |= a.classes()
            return out
        return set()

    def scalars(self) -> set[str]:
        """Builtin scalar names (and 'tuple'/'none') this type may denote."""
        if self.kind == "builtin":
            return {self.name}
        if self.kind == "tuple":
            return {"tuple"}
        if self.kind == "none":
            return {"None"}
        if self.kind == "union":
            out: set[str] = set()
            for a in self.args:
                out |= a.scalars()
            return out
        return set()

    def elem(self) -> Ty:
        if self.kind == "seq" and self.args:
            return self.args[0]
        if self.kind == "tuple" and self.args:
            return union(list(self.args))
        if self.kind == "map" and self.args:
            return self.args[0]
        if self.kind == "union":
            return union([a.elem() for a in self.args])
        return ANY

    def value(self) -> Ty:
        if self.kind == "map" and len(self.args) == 2:
            return self.args[1]
        if self.kind in ("seq", "tuple"):
            return self.elem()
        if self.kind == "union":
            return union([a.value() for a in self.args])
        return ANY

    def __str__(self) -> str:
        if self.kind in ("cls", "builtin"):
            return self.name.rsplit(".", 1)[-1]
        if self.kind in ("seq", "map", "tuple", "type"):
            return f"{self.name or self.kind}[{', '.join(map(str, self.args))}]"
        if self.kind == "union":
            return " | ".join(map(str, self.args))
        return self.kind


ANY = Ty("any")
NONE = Ty("none")


def union(items: list[Ty]) -> Ty:
    flat: list[Ty] = []
    for t in items:
        for u in t.args if t.kind == "union" else (t,):
            if u not in flat:
                flat.append(u)
    known = [t for t in flat if t.kind != "any"]
    if not known:
        return ANY
    if len(flat) == 1:
        return flat[0]
    return Ty("union", "", tuple(flat))


class Typer:
    def __init__(self, prog: Program) -> None:
        self.prog = prog
        self._env_cache: dict[str, dict[str, Ty]] = {}
        self._attr_cache: dict[tuple[str, str], Ty] = {}

    # --------------------------------------------------------------- annotations
    def ann(self, mod: ModuleInfo, fn: FuncInfo | None, node: ast.AST | None, _depth: int = 0) -> Ty:
        if node is None or _depth > 8:
            return ANY
        if isinstance(node, ast.Constant):
            if node.value is None:
                return NONE
            if isinstance(node.value, str):
                try:
                    return self.ann(mod, fn, ast.parse(node.value, mode="eval").body, _depth + 1)
                except SyntaxError:
                    return ANY
            return ANY
        if isinstance(node, ast.BinOp) and isinstance(node.op, ast.BitOr):
            return union([self.ann(mod, fn, node.left, _depth + 1), self.ann(mod, fn, node.right, _depth + 1)])
        if isinstance(node, (ast.Name, ast.Attribute)):
            name = dotted(node)
            if name in BUILTIN_SCALARS:
                return Ty("builtin", name)
            if name in ("Any", "typing.Any"):
                return ANY
            if name == "tuple":
                return Ty("tuple", "tuple")
            if name in SEQ_NAMES:
                return Ty("seq", name, (ANY,))
            if name in MAP_NAMES:
                return Ty("map", name, (ANY, ANY))
            q = self.prog.resolve_name(mod, name, fn)
            if q in self.prog.classes:
                return Ty("cls", q)
            # type alias defined at module level (e.g. OUTPUT_TYPE: TypeAlias = str | tuple[str, ...])
            if "." in q:
                m, a = q.rsplit(".", 1)
                target = self.prog.modules.get(m)
                if target is not None and a in target.assigns:
                    return self.ann(target, None, target.assigns[a], _depth + 1)
            last = name.rsplit(".", 1)[-1]
            if last in SEQ_NAMES:
                return Ty("seq", last, (ANY,))
            if last in MAP_NAMES:
                return Ty("map", last, (ANY, ANY))
            return ANY
        if isinstance(node, ast.Subscript):
            base = dotted(node.value).rsplit(".", 1)[-1]
            sl = node.slice
            items = list(sl.elts) if isinstance(sl, ast.Tuple) else [sl]
            if base in ("Optional",):
                return union([self.ann(mod, fn, items[0], _depth + 1), NONE])
            if base == "Union":
                return union([self.ann(mod, fn, i, _depth + 1) for i in items])
            if base in ("Literal",):
                kinds = {type(i.value).__name__ for i in items if isinstance(i, ast.Constant)}
                return union([Ty("builtin", k) for k in sorted(kinds)]) if kinds else ANY
            if base in ("type", "Type"):
                return Ty("type", "type", (self.ann(mod, fn, items[0], _depth + 1),))
            if base == "tuple":
                args = [self.ann(mod, fn, i, _depth + 1) for i in items if not (isinstance(i, ast.Constant) and i.value is Ellipsis)]
                return Ty("tuple", "tuple", tuple(args))
            if base in SEQ_NAMES:
                return Ty("seq", base, (self.ann(mod, fn, items[0], _depth + 1),))
            if base in MAP_NAMES and len(items) == 2:
                return Ty("map", base, (self.ann(mod, fn, items[0], _depth + 1), self.ann(mod, fn, items[1], _depth + 1)))
            if base in ("Annotated", "Final", "ClassVar"):
                return self.ann(mod, fn, items[0], _depth + 1)
            return ANY
        return ANY

    # --------------------------------------------------------------- attributes
    def attr_type(self, cls_q: str, attr: str) -> Ty:
        key = (cls_q, attr)
        if key in self._attr_cache:
            return self._attr_cache[key]
        self._attr_cache[key] = ANY  # recursion guard
        res = ANY
        for c in self.prog.mro(cls_q):
            if attr in c.fields:
                res = self.ann(c.module, None, c.fields[attr].annotation)
                break
            m = c.methods.get(attr)
            if m is not None and m.is_property:
                res = self.ann(c.module, m, m.node.returns)
                break
            found = self._self_attr_annotation(c, attr)
            if found is not None:
                res = found
                break
        self._attr_cache[key] = res
        return res

    def _self_attr_annotation(self, c: ClassInfo, attr: str) -> Ty | None:
        plain: Ty | None = None
        for m in c.methods.values():
            for n in walk_no_nested(m.node):
                if isinstance(n, ast.AnnAssign) and isinstance(n.target, ast.Attribute):
                    if isinstance(n.target.value, ast.Name) and n.target.value.id == "self" and n.target.attr == attr:
                        return self.ann(c.module, m, n.annotation)
                elif isinstance(n, ast.Assign) and plain is None:
                    for t in n.targets:
                        if isinstance(t, ast.Attribute) and isinstance(t.value, ast.Name) and t.value.id == "self" and t.attr == attr:
                            ty = self.expr(m, n.value)
                            if ty.kind != "any":
                                plain = ty
        return plain

    # --------------------------------------------------------------- environments
    def env(self, fn: FuncInfo) -> dict[str, Ty]:
        if fn.qualname in self._env_cache:
            return self._env_cache[fn.qualname]
        env: dict[str, Ty] = {}
        self._env_cache[fn.qualname] = env
        if fn.parent is not None:
            env.update(self.env(fn.parent))
        mod = fn.module
        params = fn.params
        for i, p in enumerate(params):
            if p.annotation is not None:
                env[p.arg] = self.ann(mod, fn, p.annotation)
            elif i == 0 and fn.cls is not None and not fn.is_static and fn.parent is None:
                env[p.arg] = Ty("type", "type", (Ty("cls", fn.cls.qualname),)) if fn.is_classmethod else Ty("cls", fn.cls.qualname)
        # two passes so that later definitions can feed earlier uses in loops
        # a declared local (`x: T` / `x: T = v`) has its declared type everywhere in the function, whatever is assigned to it
        declared = {n.target.id: self.ann(mod, fn, n.annotation) for n in walk_no_nested(fn.node) if isinstance(n, ast.AnnAssign) and isinstance(n.target, ast.Name)}
        declared = {k: v for k, v in declared.items() if v.kind != "any"}
        for _ in range(2):
            for n in walk_no_nested(fn.node):
                if isinstance(n, ast.AnnAssign) and isinstance(n.target, ast.Name):
                    env[n.target.id] = self.ann(mod, fn, n.annotation)
                elif isinstance(n, ast.Assign):
                    ty = self.expr(fn, n.value, env)
                    for t in n.targets:
                        if isinstance(t, ast.Name) and t.id in declared:
                            env[t.id] = declared[t.id]
                            continue
                        self._bind(t, ty, env)
                elif isinstance(n, ast.NamedExpr) and isinstance(n.target, ast.Name):
                    self._bind(n.target, self.expr(fn, n.value, env), env)
                elif isinstance(n, (ast.For, ast.AsyncFor)):
                    self._bind(n.target, self._iter_elem(fn, n.iter, env), env)
                elif isinstance(n, ast.comprehension):
                    self._bind(n.target, self._iter_elem(fn, n.iter, env), env)
                elif isinstance(n, (ast.With, ast.AsyncWith)):
                    for item in n.items:
                        if item.optional_vars is not None:
                            self._bind(item.optional_vars, self.expr(fn, item.context_expr, env), env)
        return env

    def _iter_elem(self, fn: FuncInfo, it: ast.expr, env: dict[str, Ty]) -> Ty:
        if isinstance(it, ast.Call):
            name = dotted(it.func)
            if name == "enumerate" and it.args:
                return Ty("tuple", "tuple", (Ty("builtin", "int"), self._iter_elem(fn, it.args[0], env)))
            if name == "zip":
                return Ty("tuple", "tuple", tuple(self._iter_elem(fn, a, env) for a in it.args))
            if name in ("sorted", "reversed", "list", "tuple", "set") and it.args:
                return self._iter_elem(fn, it.args[0], env)
            if isinstance(it.func, ast.Attribute) and it.func.attr in ("values", "items", "keys"):
                base = self.expr(fn, it.func.value, env)
                if base.kind == "map" and len(base.args) == 2:
                    if it.func.attr == "values":
                        return base.args[1]
                    if it.func.attr == "keys":
                        return base.args[0]
                    return Ty("tuple", "tuple", base.args)
        t = self.expr(fn, it, env)
        if t.kind == "tuple" and len(t.args) > 1:
            return union(list(t.args))
        return t.elem()

    def _bind(self, target: ast.AST, ty: Ty, env: dict[str, Ty]) -> None:
        if isinstance(target, ast.Name):
            if ty.kind != "any" or target.id not in env:
                old = env.get(target.id)
                env[target.id] = ty if old is None or old.kind == "any" else (old if ty.kind == "any" else union([old, ty]) if old != ty else old)
        elif isinstance(target, (ast.Tuple, ast.List)):
            for i, el in enumerate(target.elts):
                sub = ANY
                if ty.kind == "tuple" and ty.args:
                    sub = ty.args[i] if i < len(ty.args) and len(ty.args) == len(target.elts) else union(list(ty.args))
                if isinstance(el, ast.Starred):
                    self._bind(el.value, Ty("seq", "list", (sub,)), env)
                else:
                    self._bind(el, sub, env)

    # --------------------------------------------------------------- expressions
    def expr(self, fn: FuncInfo, node: ast.AST, env: dict[str, Ty] | None = None, _depth: int = 0) -> Ty:
        if env is None:
            env = self.env(fn)
        if _depth > 6:
            return ANY
        mod = fn.module
        if isinstance(node, ast.Constant):
            if node.value is None:
                return NONE
            return Ty("builtin", type(node.value).__name__)
        if isinstance(node, ast.JoinedStr):
            return Ty("builtin", "str")
        if isinstance(node, ast.Name):
            if node.id in env:
                return env[node.id]
            q = self.prog.resolve_name(mod, node.id, fn)
            if q in self.prog.classes:
                return Ty("type", "type", (Ty("cls", q),))
            return ANY
        if isinstance(node, ast.Attribute):
            base = self.expr(fn, node.value, env, _depth + 1)
            outs = []
            for c in base.classes():
                outs.append(self.attr_type(c, node.attr))
            if base.kind == "type" and base.args and base.args[0].kind == "cls":
                outs.append(self.attr_type(base.args[0].name, node.attr))
            return union(outs) if outs else ANY
        if isinstance(node, ast.Await):
            return self.expr(fn, node.value, env, _depth + 1)
        if isinstance(node, ast.IfExp):
            # `a if isinstance(x, T) else b`: x is a T in the first arm and not a T in the second
            t_ = node.test
            neg = False
            while isinstance(t_, ast.UnaryOp) and isinstance(t_.op, ast.Not):
                t_, neg = t_.operand, not neg
            if isinstance(t_, ast.Call) and dotted(t_.func) == "isinstance" and len(t_.args) == 2 and isinstance(t_.args[0], ast.Name) and t_.args[0].id in env:
                nm, cur = t_.args[0].id, env[t_.args[0].id]
                names = {dotted(x).rsplit(".", 1)[-1] for x in ([t_.args[1]] if not isinstance(t_.args[1], ast.Tuple) else t_.args[1].elts)}
                alts = list(cur.args) if cur.kind == "union" else [cur]

                def is_a(a: Ty) -> bool:
                    return (a.kind == "builtin" and a.name in names) or (a.kind in ("tuple", "seq", "map", "set") and a.name in names) or (a.kind == "cls" and a.name.rsplit(".", 1)[-1] in names)

                yes, no = [a for a in alts if is_a(a)], [a for a in alts if not is_a(a)]
                if yes and no:
                    e_yes, e_no = {**env, nm: union(yes)}, {**env, nm: union(no)}
                    if neg:
                        e_yes, e_no = e_no, e_yes
                    return union([self.expr(fn, node.body, e_yes, _depth + 1), self.expr(fn, node.orelse, e_no, _depth + 1)])
            return union([self.expr(fn, node.body, env, _depth + 1), self.expr(fn, node.orelse, env, _depth + 1)])
        if isinstance(node, ast.BoolOp):
            return union([self.expr(fn, v, env, _depth + 1) for v in node.values])
        if isinstance(node, ast.Subscript):
            base = self.expr(fn, node.value, env, _depth + 1)
            if isinstance(node.slice, ast.Slice):
                return base
            if base.kind == "tuple" and isinstance(node.slice, ast.Constant) and isinstance(node.slice.value, int):
                i = node.slice.value
                if len(base.args) > i >= 0:
                    return base.args[i]
            return base.value()
        if isinstance(node, (ast.List, ast.ListComp, ast.Set, ast.SetComp, ast.GeneratorExp)):
            if isinstance(node, (ast.List, ast.Set)):
                # `{*xs, y}`: the elements of xs and y
                return Ty("seq", "list", (union([self._iter_elem(fn, e.value, env) if isinstance(e, ast.Starred) else self.expr(fn, e, env, _depth + 1) for e in node.elts]) if node.elts else ANY,))
            inner = dict(env)
            for g in node.generators:
                self._bind(g.target, self._iter_elem(fn, g.iter, inner), inner)
            return Ty("seq", "list", (self.expr(fn, node.elt, inner, _depth + 1),))
        if isinstance(node, (ast.Dict, ast.DictComp)):
            return Ty("map", "dict", (ANY, ANY))
        if isinstance(node, ast.Tuple):
            return Ty("tuple", "tuple", tuple(self.expr(fn, e, env, _depth + 1) for e in node.elts))
        if isinstance(node, ast.Call):
            return self._call_type(fn, node, env, _depth)
        return ANY

    def _call_type(self, fn: FuncInfo, node: ast.Call, env: dict[str, Ty], _depth: int) -> Ty:
        mod = fn.module
        f = node.func
        name = dotted(f)
        if name in ("str", "repr", "format"):
            return Ty("builtin", "str")
        if name in ("int", "len", "sum"):
            return Ty("builtin", "int")
        if name in ("bool", "isinstance", "any", "all", "callable", "hasattr"):
            return Ty("builtin", "bool")
        if name == "float":
            return Ty("builtin", "float")
        if name in ("list", "sorted", "set", "frozenset") and node.args:
            return Ty("seq", "list", (self._iter_elem(fn, node.args[0], env),))
        if name == "tuple" and node.args:
            return Ty("tuple", "tuple", (self._iter_elem(fn, node.args[0], env),))
        if name == "dict":
            return Ty("map", "dict", (ANY, ANY))
        if name in ("next",) and node.args:
            return self._iter_elem(fn, node.args[0], env)
        if name:
            q = self.prog.resolve_name(mod, name, fn)
            if q in self.prog.classes:
                return Ty("cls", q)
            if q in self.prog.functions:
                callee = self.prog.functions[q]
                return self.ann(callee.module, callee, callee.node.returns)
        if isinstance(f, ast.Name) and f.id in env:
            fty = env[f.id]
            if fty.kind == "type" and fty.args:
                return fty.args[0]
            outs0 = []
            for c in fty.classes():
                m = self.prog.find_method(c, "__call__")
                if m is not None:
                    outs0.append(self.ann(m.module, m, m.node.returns))
            if outs0:
                return union(outs0)
        if isinstance(f, ast.Attribute):
            base = self.expr(fn, f.value, env, _depth + 1)
            outs = []
            classes = set(base.classes())
            if base.kind == "type" and base.args:
                classes |= base.args[0].classes()
            for c in classes:
                m = self.prog.find_method(c, f.attr)
                if m is not None:
                    outs.append(self.ann(m.module, m, m.node.returns))
            if outs:
                return union(outs)
            if f.attr in ("copy",) and base.kind in ("map", "seq"):
                return base
            if f.attr == "get" and base.kind == "map":
                return union([base.value(), NONE])
            if f.attr in ("items", "values", "keys") and base.kind == "map":
                return Ty("seq", f.attr, (self._iter_elem(fn, node, env),))
            if f.attr in ("format", "join", "strip", "upper", "lower", "replace") and "str" in base.scalars():
                return Ty("builtin", "str")
        return ANY
