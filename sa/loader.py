"""E0 - program loader.

Parses every ``pipefunc/**/*.py`` of the working tree (optionally with in-memory overlays used
by the self-test) and builds module / class / function tables keyed by qualified name.
Fails closed: a file that does not parse or an anchor that is missing raises AnalysisError.
"""

from __future__ import annotations

import ast
import hashlib
import os
from dataclasses import dataclass, field
from pathlib import Path

REPO = Path(os.environ.get("PIPEFUNC_REPO", "/repo"))
PKG = "pipefunc"


class AnalysisError(Exception):
    """The analysis could not be carried out.

    `fatal` (a public anchor - part of the API the property is stated about - is gone): the check exits 2.
    Otherwise (a private helper or an internal construct was renamed or restructured) the rule that needed it abstains:
    `Ctx.run` turns the error into an UNDECIDED obligation, which is printed and counted but is not an alarm.
    """

    def __init__(self, msg: str, fatal: bool = False) -> None:
        super().__init__(msg)
        self.fatal = fatal


def _public(name: str) -> bool:
    last = name.rsplit(".", 1)[-1]
    return not last.startswith("_") or (last.startswith("__") and last.endswith("__"))


@dataclass
class FuncInfo:
    qualname: str
    name: str
    module: ModuleInfo
    node: ast.FunctionDef | ast.AsyncFunctionDef
    cls: ClassInfo | None = None
    parent: FuncInfo | None = None  # enclosing function for nested defs
    nested: dict[str, FuncInfo] = field(default_factory=dict)
    local_imports: dict[str, str] = field(default_factory=dict)  # from function-local imports

    @property
    def decorators(self) -> list[str]:
        return [_dotted(d.func if isinstance(d, ast.Call) else d) for d in self.node.decorator_list]

    @property
    def is_property(self) -> bool:
        return any(d in ("property", "functools.cached_property", "cached_property") for d in self.decorators)

    @property
    def is_cached_property(self) -> bool:
        return any(d.endswith("cached_property") for d in self.decorators)

    @property
    def is_async(self) -> bool:
        return isinstance(self.node, ast.AsyncFunctionDef)

    @property
    def is_static(self) -> bool:
        return "staticmethod" in self.decorators

    @property
    def is_classmethod(self) -> bool:
        return "classmethod" in self.decorators

    @property
    def params(self) -> list[ast.arg]:
        a = self.node.args
        return [*a.posonlyargs, *a.args, *([a.vararg] if a.vararg else []), *a.kwonlyargs, *([a.kwarg] if a.kwarg else [])]

    def param_names(self) -> list[str]:
        return [p.arg for p in self.params]

    @property
    def loc(self) -> str:
        return f"{self.module.relpath}:{self.node.lineno}"

    def __hash__(self) -> int:
        return hash(self.qualname)

    def __eq__(self, other: object) -> bool:
        return isinstance(other, FuncInfo) and other.qualname == self.qualname


class _Methods(dict):
    """Method table whose missing entries are analysis errors (a vanished anchor), not KeyErrors."""

    owner = "?"
    program = None

    def __missing__(self, key: str):
        # a method that was moved into a repo base class is still the class's method
        if self.program is not None:
            m = self.program.find_method(self.owner, key) if self.owner in self.program.classes and self.program.classes[self.owner].bases else None
            if m is not None:
                return m
        raise AnalysisError(f"anchor method `{self.owner}.{key}` not found", fatal=_public(key))


@dataclass
class ClassInfo:
    qualname: str
    name: str
    module: ModuleInfo
    node: ast.ClassDef
    base_exprs: list[str] = field(default_factory=list)
    bases: list[str] = field(default_factory=list)  # resolved qualnames of repo classes
    methods: dict[str, FuncInfo] = field(default_factory=dict)
    fields: dict[str, ast.AnnAssign] = field(default_factory=dict)  # annotated class-level names
    class_assigns: dict[str, ast.expr] = field(default_factory=dict)  # plain class-level assigns

    @property
    def dataclass_kwargs(self) -> dict[str, object] | None:
        for d in self.node.decorator_list:
            name = _dotted(d.func if isinstance(d, ast.Call) else d)
            if name in ("dataclass", "dataclasses.dataclass"):
                kw: dict[str, object] = {}
                if isinstance(d, ast.Call):
                    for k in d.keywords:
                        if isinstance(k.value, ast.Constant):
                            kw[k.arg or ""] = k.value.value
                return kw
        return None

    @property
    def loc(self) -> str:
        return f"{self.module.relpath}:{self.node.lineno}"


@dataclass
class ModuleInfo:
    name: str
    path: Path
    relpath: str
    source: str
    tree: ast.Module
    aliases: dict[str, str] = field(default_factory=dict)  # local name -> dotted target
    functions: dict[str, FuncInfo] = field(default_factory=dict)  # top-level functions
    classes: dict[str, ClassInfo] = field(default_factory=dict)
    assigns: dict[str, ast.expr] = field(default_factory=dict)  # module-level NAME = expr

    def segment(self, node: ast.AST) -> str:
        return ast.get_source_segment(self.source, node) or ""


def _dotted(node: ast.AST) -> str:
    if isinstance(node, ast.Name):
        return node.id
    if isinstance(node, ast.Attribute):
        base = _dotted(node.value)
        return f"{base}.{node.attr}" if base else node.attr
    return ""


dotted = _dotted


def _resolve_relative(modname: str, is_pkg: bool, level: int, target: str | None) -> str:
    parts = modname.split(".")
    if not is_pkg:
        parts = parts[:-1]
    if level > 1:
        parts = parts[: len(parts) - (level - 1)]
    base = ".".join(parts)
    if target:
        return f"{base}.{target}" if base else target
    return base


class Program:
    """All parsed modules of the package plus lookup helpers."""

    def __init__(self, root: Path | None = None, overlay: dict[str, str] | None = None) -> None:
        self.root = Path(root) if root is not None else REPO
        self.overlay = overlay or {}
        self.modules: dict[str, ModuleInfo] = {}
        self.functions: dict[str, FuncInfo] = {}
        self.classes: dict[str, ClassInfo] = {}
        self.consulted: set[str] = set()
        self._load()
        self._link_classes()

    # ------------------------------------------------------------------ loading
    def _load(self) -> None:
        pkg_dir = self.root / PKG
        if not pkg_dir.is_dir():
            raise AnalysisError(f"package directory {pkg_dir} not found")
        files = sorted(pkg_dir.rglob("*.py"))
        if len(files) < 30:
            raise AnalysisError(f"only {len(files)} python files under {pkg_dir}; expected the whole package")
        for path in files:
            rel = str(path.relative_to(self.root))
            src = self.overlay.get(rel)
            if src is None:
                src = path.read_text(encoding="utf-8")
            try:
                tree = ast.parse(src, filename=rel)
            except SyntaxError as e:
                raise AnalysisError(f"{rel} does not parse: {e}") from e
            parts = list(path.relative_to(self.root).with_suffix("").parts)
            is_pkg = parts[-1] == "__init__"
            if is_pkg:
                parts = parts[:-1]
            modname = ".".join(parts)
            mod = ModuleInfo(modname, path, rel, src, tree)
            mod.is_pkg = is_pkg  # type: ignore[attr-defined]
            self.modules[modname] = mod
        self.inline_stats: dict = {}
        if not os.environ.get("SA_NO_INLINE"):
            from .inline import normalise

            self.inline_stats = normalise({m.name: m.tree for m in self.modules.values()})
        for mod in self.modules.values():
            self._index_module(mod)

    def _collect_imports(self, mod: ModuleInfo, body: list[ast.stmt], into: dict[str, str], *, deep: bool) -> None:
        for st in body:
            if isinstance(st, ast.Import):
                for a in st.names:
                    into[a.asname or a.name.split(".")[0]] = a.name if a.asname else a.name.split(".")[0]
            elif isinstance(st, ast.ImportFrom):
                base = (
                    _resolve_relative(mod.name, mod.is_pkg, st.level, st.module)  # type: ignore[attr-defined]
                    if st.level
                    else (st.module or "")
                )
                for a in st.names:
                    into[a.asname or a.name] = f"{base}.{a.name}"
            elif deep and isinstance(st, (ast.If, ast.Try, ast.With)):
                for sub in _sub_bodies(st):
                    self._collect_imports(mod, sub, into, deep=True)

    def _index_module(self, mod: ModuleInfo) -> None:
        self._collect_imports(mod, mod.tree.body, mod.aliases, deep=True)
        for st in mod.tree.body:
            if isinstance(st, (ast.FunctionDef, ast.AsyncFunctionDef)):
                self._index_function(mod, st, f"{mod.name}.{st.name}", None, None, mod.functions)
            elif isinstance(st, ast.ClassDef):
                self._index_class(mod, st)
            elif isinstance(st, ast.Assign):
                for t in st.targets:
                    if isinstance(t, ast.Name):
                        mod.assigns[t.id] = st.value
            elif isinstance(st, ast.AnnAssign) and isinstance(st.target, ast.Name) and st.value is not None:
                mod.assigns[st.target.id] = st.value

    def _index_class(self, mod: ModuleInfo, node: ast.ClassDef) -> None:
        q = f"{mod.name}.{node.name}"
        ci = ClassInfo(q, node.name, mod, node, base_exprs=[_dotted(b) for b in node.bases])
        ci.methods = _Methods()
        ci.methods.owner = q
        ci.methods.program = self
        mod.classes[node.name] = ci
        self.classes[q] = ci
        for st in node.body:
            if isinstance(st, (ast.FunctionDef, ast.AsyncFunctionDef)):
                # property setters share the name: keep the getter, index setter under name.setter
                is_setter = any(_dotted(d).endswith(".setter") for d in st.decorator_list)
                key = f"{st.name}.setter" if is_setter else st.name
                self._index_function(mod, st, f"{q}.{key}", ci, None, ci.methods, key=key)
            elif isinstance(st, ast.AnnAssign) and isinstance(st.target, ast.Name):
                ci.fields[st.target.id] = st
            elif isinstance(st, ast.Assign):
                for t in st.targets:
                    if isinstance(t, ast.Name):
                        ci.class_assigns[t.id] = st.value

    def _index_function(
        self,
        mod: ModuleInfo,
        node: ast.FunctionDef | ast.AsyncFunctionDef,
        q: str,
        cls: ClassInfo | None,
        parent: FuncInfo | None,
        table: dict[str, FuncInfo],
        key: str | None = None,
    ) -> None:
        fi = FuncInfo(q, node.name, mod, node, cls, parent)
        table[key or node.name] = fi
        self.functions[q] = fi
        # nested defs and function-local imports (any depth of statements, not into nested defs)
        for st in _walk_stmts(node.body):
            if isinstance(st, (ast.FunctionDef, ast.AsyncFunctionDef)):
                self._index_function(mod, st, f"{q}.{st.name}", cls, fi, fi.nested)
            elif isinstance(st, (ast.Import, ast.ImportFrom)):
                self._collect_imports(mod, [st], fi.local_imports, deep=False)

    def _link_classes(self) -> None:
        for ci in self.classes.values():
            for b in ci.base_exprs:
                r = self.resolve_name(ci.module, b)
                if r in self.classes:
                    ci.bases.append(r)

    # ------------------------------------------------------------------ lookups
    def digest(self) -> str:
        h = hashlib.sha256()
        for name in sorted(self.modules):
            h.update(name.encode())
            h.update(self.modules[name].source.encode())
        return h.hexdigest()[:16]

    def module(self, name: str) -> ModuleInfo:
        if name not in self.modules:
            raise AnalysisError(f"anchor module `{name}` not found")
        self.consulted.add(name)
        return self.modules[name]

    def func(self, qualname: str) -> FuncInfo:
        if qualname not in self.functions:
            raise AnalysisError(f"anchor function `{qualname}` not found", fatal=_public(qualname))
        fi = self.functions[qualname]
        self.consulted.add(fi.module.name)
        return fi

    def maybe_func(self, qualname: str) -> FuncInfo | None:
        fi = self.functions.get(qualname)
        if fi:
            self.consulted.add(fi.module.name)
        return fi

    def cls(self, qualname: str) -> ClassInfo:
        if qualname not in self.classes:
            raise AnalysisError(f"anchor class `{qualname}` not found", fatal=_public(qualname))
        ci = self.classes[qualname]
        self.consulted.add(ci.module.name)
        return ci

    def resolve_dotted(self, target: str, _depth: int = 0) -> str:
        """Follow re-exports: 'pipefunc.PipeFunc' -> 'pipefunc._pipefunc.PipeFunc'."""
        if target in self.functions or target in self.classes or target in self.modules or _depth > 6:
            return target
        if "." in target:
            modname, attr = target.rsplit(".", 1)
            modname = self.resolve_dotted(modname, _depth + 1) if modname not in self.modules else modname
            mod = self.modules.get(modname)
            if mod is not None:
                if attr in mod.aliases:
                    return self.resolve_dotted(mod.aliases[attr], _depth + 1)
                return f"{modname}.{attr}"
            # attribute of a class (static method etc.)
            if modname in self.classes:
                return f"{modname}.{attr}"
        return target

    def resolve_name(self, mod: ModuleInfo, dotted_name: str, fn: FuncInfo | None = None) -> str:
        """Resolve a (possibly dotted) source name used in `mod` (inside `fn`) to a qualified name."""
        if not dotted_name:
            return ""
        head, _, rest = dotted_name.partition(".")
        target = None
        f = fn
        while f is not None and target is None:
            if head in f.nested:
                target = f.nested[head].qualname
            elif head in f.local_imports:
                target = f.local_imports[head]
            f = f.parent
        if target is None:
            if head in mod.functions:
                target = mod.functions[head].qualname
            elif head in mod.classes:
                target = mod.classes[head].qualname
            elif head in mod.aliases:
                target = mod.aliases[head]
            else:
                target = head
        full = f"{target}.{rest}" if rest else target
        return self.resolve_dotted(full)

    # ------------------------------------------------------------------ classes
    def mro(self, cls_q: str) -> list[ClassInfo]:
        out: list[ClassInfo] = []
        seen: set[str] = set()

        def rec(q: str) -> None:
            if q in seen or q not in self.classes:
                return
            seen.add(q)
            out.append(self.classes[q])
            for b in self.classes[q].bases:
                rec(b)

        rec(cls_q)
        return out

    def subclasses(self, cls_q: str) -> list[ClassInfo]:
        return [c for c in self.classes.values() if c.qualname != cls_q and any(m.qualname == cls_q for m in self.mro(c.qualname))]

    def find_method(self, cls_q: str, name: str) -> FuncInfo | None:
        for c in self.mro(cls_q):
            if name in c.methods:
                return c.methods[name]
        return None

    def method_impls(self, cls_q: str, name: str) -> list[FuncInfo]:
        """The method as seen from `cls_q` plus every override in repo subclasses."""
        out: list[FuncInfo] = []
        m = self.find_method(cls_q, name)
        if m:
            out.append(m)
        for sub in self.subclasses(cls_q):
            if name in sub.methods and sub.methods[name] not in out:
                out.append(sub.methods[name])
        return out

    def functions_in(self, modname: str) -> list[FuncInfo]:
        self.module(modname)
        return [f for f in self.functions.values() if f.module.name == modname]


def _sub_bodies(st: ast.stmt) -> list[list[ast.stmt]]:
    out: list[list[ast.stmt]] = []
    for name in ("body", "orelse", "finalbody"):
        b = getattr(st, name, None)
        if b:
            out.append(b)
    for h in getattr(st, "handlers", []) or []:
        out.append(h.body)
    return out


def _walk_stmts(body: list[ast.stmt]):
    """All statements nested in `body`, not descending into nested function/class definitions."""
    for st in body:
        yield st
        if isinstance(st, (ast.FunctionDef, ast.AsyncFunctionDef, ast.ClassDef)):
            continue
        for sub in _sub_bodies(st):
            yield from _walk_stmts(sub)


walk_stmts = _walk_stmts


def walk_no_nested(node: ast.AST):
    """Pre-order walk in source order that does not descend into nested function / class definitions."""
    yield node
    for child in ast.iter_child_nodes(node):
        if isinstance(child, (ast.FunctionDef, ast.AsyncFunctionDef, ast.ClassDef)):
            continue
        yield from walk_no_nested(child)


def norm(node: ast.AST) -> str:
    """Normalised text of a statement / expression (used as a line-number-free key)."""
    try:
        return " ".join(ast.unparse(node).split())
    except Exception:  # noqa: BLE001
        return ast.dump(node)
