"""E2 - statement-level control-flow graph with dominators and path queries.

Nodes are integers; each carries the ast statement (or a synthetic marker).  Synthetic nodes:
ENTRY, EXIT (normal return / fall off the end), RAISE (exceptional exit).
Compound statements contribute a *header* node (the `if`/`for`/`while`/`with`/`try` line);
their bodies are expanded.  Exceptional edges: every statement inside a `try` body has an edge
to every handler of that try (and to `finally`); `raise` goes to the innermost enclosing handler
set or to RAISE.  Calls to functions declared *noreturn* (e.g. ``handle_error``) end the path
like a raise.
"""

from __future__ import annotations

import ast
from dataclasses import dataclass, field

import networkx as nx

from .loader import dotted, norm

ENTRY, EXIT, RAISE = 0, 1, 2


@dataclass
class _Ctx:
    handlers: list[int] = field(default_factory=list)  # entry nodes of handlers that may catch
    loop_head: int | None = None
    loop_exit: list[int] | None = None  # collector of break sources
    finally_entry: int | None = None


class CFG:
    def __init__(self, fn_node: ast.FunctionDef | ast.AsyncFunctionDef, noreturn: frozenset[str] = frozenset()) -> None:
        self.fn = fn_node
        self.noreturn = noreturn
        self.g = nx.DiGraph()
        self.stmt: dict[int, ast.AST | None] = {ENTRY: None, EXIT: None, RAISE: None}
        self.kind: dict[int, str] = {ENTRY: "entry", EXIT: "exit", RAISE: "raise-exit"}
        for n in (ENTRY, EXIT, RAISE):
            self.g.add_node(n)
        self._next = 3
        self.node_of: dict[int, int] = {}  # id(ast stmt) -> node
        self.branch_entry: dict[tuple[int, bool], int] = {}
        outs = self._block(fn_node.body, [ENTRY], _Ctx())
        for o in outs:
            self.g.add_edge(o, EXIT)
        self._idom: dict[int, int] | None = None
        self._ipdom: dict[int, int] | None = None

    # ------------------------------------------------------------------ construction
    def _new(self, st: ast.AST | None, kind: str) -> int:
        n = self._next
        self._next += 1
        self.g.add_node(n)
        self.stmt[n] = st
        self.kind[n] = kind
        if st is not None:
            self.node_of.setdefault(id(st), n)
        return n

    def _link(self, preds: list[int], n: int) -> None:
        for p in preds:
            self.g.add_edge(p, n)

    def _exc_targets(self, ctx: _Ctx) -> list[int]:
        return ctx.handlers if ctx.handlers else [RAISE]

    def _is_noreturn_call(self, st: ast.stmt) -> bool:
        if isinstance(st, ast.Expr) and isinstance(st.value, ast.Call):
            name = dotted(st.value.func)
            return bool(name) and name.rsplit(".", 1)[-1] in self.noreturn
        return False

    def _block(self, body: list[ast.stmt], preds: list[int], ctx: _Ctx) -> list[int]:
        cur = preds
        for st in body:
            cur = self._stmt(st, cur, ctx)
        return cur

    def _stmt(self, st: ast.stmt, preds: list[int], ctx: _Ctx) -> list[int]:  # noqa: C901, PLR0911, PLR0912
        if isinstance(st, (ast.FunctionDef, ast.AsyncFunctionDef, ast.ClassDef)):
            n = self._new(st, "def")
            self._link(preds, n)
            return [n]
        if isinstance(st, ast.If):
            n = self._new(st, "if")
            self._link(preds, n)
            self._may_raise(n, ctx)
            # explicit (synthetic) branch entry nodes keep the true and the false edge apart even when an arm is empty
            tn = self._new(None, "then")
            en = self._new(None, "else")
            self.g.add_edge(n, tn, branch=True)
            self.g.add_edge(n, en, branch=False)
            self.branch_entry[(n, True)] = tn
            self.branch_entry[(n, False)] = en
            t = self._block(st.body, [tn], ctx)
            e = self._block(st.orelse, [en], ctx) if st.orelse else [en]
            return t + e
        if isinstance(st, (ast.For, ast.AsyncFor, ast.While)):
            n = self._new(st, "loop")
            self._link(preds, n)
            self._may_raise(n, ctx)
            breaks: list[int] = []
            inner = _Ctx(ctx.handlers, n, breaks, ctx.finally_entry)
            b = self._block(st.body, [n], inner)
            self._link(b, n)  # back edge
            after = self._block(st.orelse, [n], ctx) if st.orelse else [n]
            return after + breaks
        if isinstance(st, (ast.With, ast.AsyncWith)):
            n = self._new(st, "with")
            self._link(preds, n)
            self._may_raise(n, ctx)
            return self._block(st.body, [n], ctx)
        if isinstance(st, ast.Try) or st.__class__.__name__ == "TryStar":
            n = self._new(st, "try")
            self._link(preds, n)
            handler_entries = [self._new(h, "except") for h in st.handlers]
            fin_entry = None
            if st.finalbody:
                fin_entry = self._new(None, "finally")
            # where an exception that no handler of this try catches continues
            prop = [fin_entry] if fin_entry is not None else (ctx.handlers or [RAISE])
            body_handlers = list(handler_entries)
            if not handler_entries or not _catches_everything(st.handlers):
                body_handlers += prop
            body_ctx = _Ctx(body_handlers, ctx.loop_head, ctx.loop_exit,
                            fin_entry if fin_entry is not None else ctx.finally_entry)
            b = self._block(st.body, [n], body_ctx)
            b = self._block(st.orelse, b, _Ctx(ctx.handlers, ctx.loop_head, ctx.loop_exit, ctx.finally_entry)) if st.orelse else b
            outs = list(b)
            h_ctx = _Ctx(([fin_entry] if fin_entry is not None else ctx.handlers), ctx.loop_head, ctx.loop_exit, ctx.finally_entry)
            for h, he in zip(st.handlers, handler_entries):
                outs += self._block(h.body, [he], h_ctx)
            if fin_entry is not None:
                self._link(outs, fin_entry)
                f_out = self._block(st.finalbody, [fin_entry], ctx)
                # finally may also continue an exceptional exit
                for o in f_out:
                    for t in self._exc_targets(ctx):
                        self.g.add_edge(o, t, exceptional=True)
                return f_out
            return outs
        if isinstance(st, ast.Return):
            n = self._new(st, "return")
            self._link(preds, n)
            self._may_raise(n, ctx)
            if ctx.finally_entry is not None:
                self.g.add_edge(n, ctx.finally_entry)
            self.g.add_edge(n, EXIT)
            return []
        if isinstance(st, ast.Raise):
            n = self._new(st, "raise")
            self._link(preds, n)
            for t in self._exc_targets(ctx):
                self.g.add_edge(n, t, exceptional=True)
            return []
        if isinstance(st, ast.Break):
            n = self._new(st, "break")
            self._link(preds, n)
            if ctx.loop_exit is not None:
                ctx.loop_exit.append(n)
            return []
        if isinstance(st, ast.Continue):
            n = self._new(st, "continue")
            self._link(preds, n)
            if ctx.loop_head is not None:
                self.g.add_edge(n, ctx.loop_head)
            return []
        n = self._new(st, "stmt")
        self._link(preds, n)
        if self._is_noreturn_call(st):
            for t in self._exc_targets(ctx):
                self.g.add_edge(n, t, exceptional=True)
            return []
        self._may_raise(n, ctx)
        return [n]

    def _may_raise(self, n: int, ctx: _Ctx) -> None:
        # only model implicit exceptions where a handler could observe them
        if ctx.handlers:
            for t in ctx.handlers:
                self.g.add_edge(n, t, exceptional=True)

    # ------------------------------------------------------------------ queries
    def nodes(self, pred=None) -> list[int]:
        out = []
        for n, st in self.stmt.items():
            if st is None:
                continue
            if pred is None or pred(st):
                out.append(n)
        return sorted(out)

    def node(self, st: ast.AST) -> int:
        return self.node_of[id(st)]

    def node_containing(self, sub: ast.AST) -> int | None:
        """CFG node whose statement (header expression for compound statements) contains `sub`."""
        best = None
        for n, st in self.stmt.items():
            if st is None:
                continue
            for part in header_parts(st):
                for x in ast.walk(part):
                    if x is sub:
                        best = n
        return best

    def idom(self) -> dict[int, int]:
        if self._idom is None:
            self._idom = nx.immediate_dominators(self.g, ENTRY)
        return self._idom

    def dominates(self, a: int, b: int) -> bool:
        """Every path ENTRY -> b passes through a."""
        idom = self.idom()
        if b != ENTRY and b not in idom:
            return True  # unreachable
        x = b
        while True:
            if x == a:
                return True
            if x == ENTRY or idom.get(x, x) == x:
                return False
            x = idom[x]

    def reachable_from(self, a: int, *, without: set[int] | None = None, normal_only: bool = False) -> set[int]:
        g = self.g
        seen = {a}
        todo = [a]
        blocked = without or set()
        while todo:
            x = todo.pop()
            for y in g.successors(x):
                if y in seen or y in blocked:
                    continue
                if normal_only and g.edges[x, y].get("exceptional"):
                    continue
                seen.add(y)
                todo.append(y)
        return seen

    def controls(self, n: int) -> list[tuple[ast.AST, bool]]:
        """Branch decisions that every path ENTRY -> n takes: [(test expression, required truth value), ...]."""
        out: list[tuple[ast.AST, bool]] = []
        for d in sorted(self.nodes(lambda s: isinstance(s, ast.If))):
            if d == n or not self.dominates(d, n):
                continue
            t, f = self.branch_entry[(d, True)], self.branch_entry[(d, False)]
            via_t = n in self.reachable_from(t, without={d})
            via_f = n in self.reachable_from(f, without={d})
            if via_t and not via_f:
                out.append((self.stmt[d].test, True))
            elif via_f and not via_t:
                out.append((self.stmt[d].test, False))
        return out

    def must_pass(self, src: int, dst: int, through: set[int], *, normal_only: bool = False) -> bool:
        """Every path src -> dst crosses a node of `through` (src/dst themselves excluded)."""
        if src in through or dst in through:
            return True
        return dst not in self.reachable_from(src, without=through, normal_only=normal_only)

    def witness_path(self, src: int, dst: int, avoid: set[int]) -> list[int] | None:
        g = self.g.subgraph([n for n in self.g if n not in avoid or n in (src, dst)])
        try:
            return nx.shortest_path(g, src, dst)
        except (nx.NetworkXNoPath, nx.NodeNotFound):
            return None

    def describe(self, path: list[int], relpath: str) -> list[str]:
        out = []
        for n in path:
            st = self.stmt.get(n)
            if st is None:
                out.append(self.kind[n])
            else:
                head = norm(st) if not hasattr(st, "body") else norm(st).split(":")[0]
                out.append(f"{relpath}:{getattr(st, 'lineno', '?')} {head[:90]}")
        return out


def _catches_everything(handlers: list[ast.ExceptHandler]) -> bool:
    for h in handlers:
        if h.type is None:
            return True
        if dotted(h.type) in ("BaseException", "Exception"):
            return True  # KeyboardInterrupt & co. are not modelled
    return False


def header_parts(st: ast.AST) -> list[ast.AST]:
    """The expressions evaluated at the node of `st` itself (not its nested bodies)."""
    if isinstance(st, ast.If) or isinstance(st, ast.While):
        return [st.test]
    if isinstance(st, (ast.For, ast.AsyncFor)):
        return [st.target, st.iter]
    if isinstance(st, (ast.With, ast.AsyncWith)):
        return [i.context_expr for i in st.items] + [i.optional_vars for i in st.items if i.optional_vars is not None]
    if isinstance(st, ast.Try) or st.__class__.__name__ == "TryStar":
        return []
    if isinstance(st, ast.ExceptHandler):
        return [st.type] if st.type is not None else []
    if isinstance(st, (ast.FunctionDef, ast.AsyncFunctionDef, ast.ClassDef)):
        return list(st.decorator_list)
    return [st]


def calls_in(part: ast.AST):
    for x in ast.walk(part):
        if isinstance(x, ast.Call):
            yield x
