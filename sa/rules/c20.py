"""C20 - resource specifications combine monotonically and without side effects (structural clauses).

  1 pure       no method/helper of pipefunc.resources stores into `self`, a Resources parameter, or a container reachable
               from them (alias analysis: SELF / PARAM / FIELD / SHALLOW-copy / FRESH)
  2 magnitude  str-typed quantities (memory, time) are never ordered as text: every max/min/sorted/</> operand
               derived from such a field passes through a `_convert_*` function first
  3 covers     combine_max has a merge arm for cpus, gpus, memory, time that can only raise the accumulator
  4 slurm      to_slurm_options has an emitting arm for every quantity field
  5 validated  __post_init__ rejects every invalid combination and every combinator returns through the constructor
  6 roundtrip  dict() = asdict minus None values; from_dict passes the mapping unchanged to the constructor
  7 defaults   with_defaults builds dict(default, **self): the receiver wins
"""

from __future__ import annotations

import ast

from ..loader import AnalysisError, FuncInfo, dotted, norm, walk_no_nested
from ..report import Ctx
from ..selftest import Mutant

PROP = "C20"
MOD = "pipefunc.resources"
EXPLANATION = (
    "Static analysis of pipefunc/resources.py: an alias/purity abstract interpretation of every function (values SELF, "
    "PARAM, FIELD-of, SHALLOW-copy-of, FRESH; stores and mutating calls through anything that may alias the receiver or "
    "a parameter are effects), a typed def-use rule for ordering operations on str-typed quantity fields, and "
    "exhaustiveness/pattern rules for combine_max, to_slurm_options, __post_init__, dict/from_dict and with_defaults."
)
TRUSTED = ["CPython ast parser", "dataclasses.asdict returns a deep copy", "dataclass field annotations state the runtime type"]
DECLINED = ["numeric monotonicity of combine_max over all unit strings (value-level)", "exact SLURM option text"]

MUTATING = {"update", "setdefault", "append", "extend", "pop", "popitem", "clear", "insert", "remove", "__setitem__", "__delitem__", "sort", "reverse", "add", "discard"}
QUANTITIES = ["cpus", "gpus", "memory", "time"]


# ---------------------------------------------------------------------------- rule 1: alias analysis
class Alias:
    """Flow-insensitive may-alias classes for local names of one function."""

    def __init__(self, fn: FuncInfo, tracked_params: set[str]) -> None:
        self.fn = fn
        self.env: dict[str, set[str]] = {}
        for p in tracked_params:
            self.env[p] = {f"OBJ:{p}"}
        for _ in range(3):
            for n in walk_no_nested(fn.node):
                if isinstance(n, ast.Assign) and len(n.targets) == 1 and isinstance(n.targets[0], ast.Name):
                    self.env.setdefault(n.targets[0].id, set()).update(self.val(n.value))
                elif isinstance(n, ast.AnnAssign) and isinstance(n.target, ast.Name) and n.value is not None:
                    self.env.setdefault(n.target.id, set()).update(self.val(n.value))
                elif isinstance(n, (ast.For, ast.comprehension)):
                    src = self.val(n.iter)
                    elems = {f"FIELD:{v.split(':', 1)[1]}" for v in src if v.split(":")[0] in ("OBJ", "FIELD", "SHALLOW")}
                    for t in ast.walk(n.target):
                        if isinstance(t, ast.Name):
                            self.env.setdefault(t.id, set()).update(elems or {"FRESH"})

    def val(self, e: ast.AST) -> set[str]:  # noqa: C901, PLR0911
        if isinstance(e, ast.Name):
            return set(self.env.get(e.id, {"FRESH"}))
        if isinstance(e, ast.Attribute):
            base = self.val(e.value)
            out = set()
            for v in base:
                kind, _, who = v.partition(":")
                if kind in ("OBJ", "FIELD"):
                    out.add(f"FIELD:{who}")  # includes __dict__: the object's own dict
                elif kind == "SHALLOW":
                    out.add(f"FIELD:{who}")
            return out or {"FRESH"}
        if isinstance(e, ast.Subscript):
            base = self.val(e.value)
            out = set()
            for v in base:
                kind, _, who = v.partition(":")
                if kind in ("OBJ", "FIELD", "SHALLOW"):
                    out.add(f"FIELD:{who}")
            return out or {"FRESH"}
        if isinstance(e, ast.Call):
            name = dotted(e.func)
            if isinstance(e.func, ast.Attribute) and e.func.attr == "copy" and not e.args:
                return {f"SHALLOW:{v.split(':', 1)[1]}" if v.split(":")[0] in ("OBJ", "FIELD", "SHALLOW") else "FRESH" for v in self.val(e.func.value)}
            if name in ("dict", "list", "set", "tuple", "copy.copy", "vars") and e.args:
                inner = self.val(e.args[0])
                if name == "vars":
                    return {f"FIELD:{v.split(':', 1)[1]}" for v in inner if ":" in v} or {"FRESH"}
                return {f"SHALLOW:{v.split(':', 1)[1]}" if ":" in v else "FRESH" for v in inner}
            if isinstance(e.func, ast.Attribute) and e.func.attr in ("get", "setdefault", "pop", "items", "values") :
                base = self.val(e.func.value)
                return {f"FIELD:{v.split(':', 1)[1]}" for v in base if ":" in v} or {"FRESH"}
            return {"FRESH"}  # asdict, constructors, other calls
        if isinstance(e, ast.Dict):
            out = {"FRESH"}
            for k, v in zip(e.keys, e.values):
                # {**x} is a shallow copy of x; {"k": x.f} holds an alias of x.f as a value
                out |= {f"SHALLOW:{a.split(':', 1)[1]}" for a in self.val(v) if ":" in a}
            return out
        if isinstance(e, ast.IfExp):
            return self.val(e.body) | self.val(e.orelse)
        if isinstance(e, ast.BoolOp):
            out = set()
            for v in e.values:
                out |= self.val(v)
            return out
        return {"FRESH"}

    def mutated_owner(self, target: ast.AST) -> set[str]:
        """Owners (param names / 'self') that a store through `target` may mutate."""
        out = set()
        for v in self.val(target):
            kind, _, who = v.partition(":")
            if kind in ("OBJ", "FIELD"):
                out.add(who)
        return out


def rule_pure(ctx: Ctx) -> None:
    fns = [f for f in ctx.prog.functions_in(MOD)]
    n = 0
    for fn in fns:
        tracked = set()
        for i, p in enumerate(fn.params):
            ann = ast.unparse(p.annotation) if p.annotation is not None else ""
            if (i == 0 and fn.cls is not None and not fn.is_static and p.arg == "self") or "Resources" in ann or "dict" in ann or "list" in ann:
                tracked.add(p.arg)
        if not tracked:
            continue
        n += 1
        al = Alias(fn, tracked)
        bad: list[tuple[ast.AST, str]] = []
        for s in walk_no_nested(fn.node):
            targets: list[ast.AST] = []
            if isinstance(s, ast.Assign):
                targets = s.targets
            elif isinstance(s, (ast.AugAssign, ast.AnnAssign)):
                targets = [s.target]
            elif isinstance(s, ast.Delete):
                targets = s.targets
            for t in targets:
                if isinstance(t, (ast.Subscript, ast.Attribute)):
                    owners = al.mutated_owner(t.value)
                    if owners:
                        bad.append((s, f"`{norm(s)[:80]}` stores into an object reachable from `{sorted(owners)[0]}`"))
            if isinstance(s, ast.Expr) and isinstance(s.value, ast.Call) and isinstance(s.value.func, ast.Attribute) and s.value.func.attr in MUTATING:
                owners = al.mutated_owner(s.value.func.value)
                if owners:
                    bad.append((s, f"`{norm(s)[:80]}` mutates an object reachable from `{sorted(owners)[0]}`"))
        if bad:
            for node, msg in bad:
                ctx.add("1-pure", fn, node, False, msg + ": the operand is changed although the combinator must return a new object")
        else:
            ctx.add("1-pure", fn, fn.node, True, f"no store or mutating call reaches {sorted(tracked)}", key=f"def {fn.name}")
    ctx.floor("1-pure", n, 10)
    cls = ctx.prog.cls(f"{MOD}.Resources")
    kw = cls.dataclass_kwargs or {}
    ctx.add("1-pure", cls.qualname, cls.loc, kw.get("frozen") is True, "Resources is a frozen dataclass" if kw.get("frozen") is True else "Resources is no longer frozen", key="frozen")
    for m in ctx.prog.modules.values():
        if "object.__setattr__" in m.source and m.name.startswith("pipefunc.resources"):
            ctx.add("1-pure", m.name, m.relpath, False, "object.__setattr__ bypasses the frozen dataclass", key="setattr-bypass")


# ---------------------------------------------------------------------------- rule 2
def _str_fields(ctx: Ctx) -> set[str]:
    cls = ctx.prog.cls(f"{MOD}.Resources")
    out = set()
    for name, ann in cls.fields.items():
        t = ctx.typer.ann(cls.module, None, ann.annotation)
        if "str" in t.scalars() and not ({"int", "float"} & t.scalars()):
            out.add(name)
    return out


def rule_magnitude(ctx: Ctx) -> None:
    str_fields = _str_fields(ctx)
    if not {"memory", "time"} <= str_fields:
        raise AnalysisError(f"expected memory and time to be str-typed fields, got {sorted(str_fields)}")
    quantities = {"memory", "time"}
    n = 0
    targets = [*ctx.prog.functions_in(MOD), ctx.prog.func("pipefunc._pipefunc._maybe_max_resources")]
    for fn in targets:
        par = {id(c): p for p in ast.walk(fn.node) for c in ast.iter_child_nodes(p)}

        def raw_quantity(e: ast.AST) -> str | None:
            """e denotes a raw str quantity (attribute .memory/.time or mapping entry ['memory'/'time'])."""
            for x in ast.walk(e):
                q = None
                if isinstance(x, ast.Attribute) and x.attr in quantities:
                    q = x.attr
                elif isinstance(x, ast.Subscript) and isinstance(x.slice, ast.Constant) and x.slice.value in quantities:
                    q = x.slice.value
                if q is None:
                    continue
                # wrapped in a converter call somewhere between x and e?
                y: ast.AST = x
                conv = False
                while y is not e and id(y) in par:
                    y = par[id(y)]
                    if isinstance(y, ast.Call) and ("convert" in dotted(y.func).lower() or dotted(y.func).rsplit(".", 1)[-1] in ("len", "bool", "isinstance")):
                        conv = True
                if not conv:
                    return q
            return None

        for c in walk_no_nested(fn.node):
            operands: list[ast.AST] = []
            what = ""
            if isinstance(c, ast.Call) and dotted(c.func) in ("max", "min", "sorted"):
                operands, what = list(c.args), dotted(c.func) + "()"
            elif isinstance(c, ast.Compare) and any(isinstance(o, (ast.Lt, ast.Gt, ast.LtE, ast.GtE)) for o in c.ops):
                operands, what = [c.left, *c.comparators], "comparison"
            if not operands:
                continue
            qs = [raw_quantity(o) for o in operands]
            involved = [q for q in qs if q]
            touches = any(isinstance(x, (ast.Attribute, ast.Subscript)) and (getattr(x, "attr", None) in quantities or (isinstance(x, ast.Subscript) and isinstance(x.slice, ast.Constant) and x.slice.value in quantities)) for o in operands for x in ast.walk(o))
            if not touches and not any("_gb" in ast.unparse(o) or "second" in ast.unparse(o) for o in operands):
                continue
            n += 1
            ctx.add("2-magnitude", fn, c, not involved,
                    f"{what} on converted magnitudes" if not involved else f"{what} orders the str-typed quantity `{involved[0]}` as text ('2:00:00' > '10:00:00', '9GB' > '10GB')", key=norm(c)[:120])
    ctx.floor("2-magnitude", n, 1)
    for conv in ("_convert_to_gb", "_convert_to_seconds"):
        f = ctx.prog.maybe_func(f"{MOD}.Resources.{conv}")
        if f is None:
            continue
        lossy = [c for c in ast.walk(f.node) if (isinstance(c, ast.Call) and dotted(c.func) in ("round", "math.floor", "math.ceil", "math.trunc", "floor", "ceil")) or (isinstance(c, ast.BinOp) and isinstance(c.op, ast.FloorDiv))]
        ctx.add("2-magnitude", f, lossy[0] if lossy else f.node, not lossy, f"{conv} is lossless (no rounding)" if not lossy else
                f"`{norm(lossy[0])[:50]}` rounds inside {conv}: different quantities compare equal, so combine_max can return less than an operand", key=f"lossless {conv}")
    # converters exist and are numeric
    for conv, unit in (("_convert_to_gb", "memory"), ("_convert_to_seconds", "time")):
        f = ctx.prog.maybe_func(f"{MOD}.Resources.{conv}")
        ok = f is not None and any(isinstance(x, ast.Call) and dotted(x.func) in ("float", "int", "sum") for x in ast.walk(f.node))
        ctx.add("2-magnitude", f"{MOD}.Resources.{conv}", f.loc if f else "", ok, f"{unit} has a numeric converter" if ok else f"no numeric converter for {unit}", key=f"converter {unit}")


# ---------------------------------------------------------------------------- rule 3
def rule_covers(ctx: Ctx) -> None:
    fn = ctx.prog.func(f"{MOD}.Resources.combine_max")
    loops = [s for s in walk_no_nested(fn.node) if isinstance(s, ast.For)]
    main = next((lp for lp in loops if "resources_list" in norm(lp.iter)), None)
    if main is None:
        raise AnalysisError("combine_max: loop over resources_list not found")
    var = norm(main.target)
    ok = norm(main.iter) == "resources_list"
    ctx.add("3-covers", fn, main, ok, "merges over every operand" if ok else f"merge loop iterates `{norm(main.iter)}` instead of all operands", key="loop-iter")
    for q in QUANTITIES:
        arms = [s for s in main.body if isinstance(s, ast.If) and f"{var}.{q} is not None" in norm(s.test)]
        if not arms:
            ctx.add("3-covers", fn, main, False, f"combine_max has no merge arm for `{q}`", key=f"arm {q}")
            continue
        arm = arms[0]
        stores = [s for s in ast.walk(arm) if isinstance(s, ast.Assign) and any(isinstance(t, ast.Subscript) and isinstance(t.slice, ast.Constant) and t.slice.value == q for t in s.targets)]
        ok = bool(stores)
        ctx.add("3-covers", fn, arm, ok, f"`{q}` arm stores into the accumulator" if ok else f"`{q}` arm never updates the accumulator", key=f"arm {q}")
        # direction: only replace by a larger value
        direction_ok = True
        found = False
        for x in ast.walk(arm):
            if isinstance(x, ast.Call) and dotted(x.func) in ("max", "min"):
                found = True
                direction_ok &= dotted(x.func) == "max"
            if isinstance(x, ast.Compare) and len(x.ops) == 1 and isinstance(x.ops[0], (ast.Gt, ast.GtE, ast.Lt, ast.LtE)):
                lt, rt = ast.unparse(x.left), ast.unparse(x.comparators[0])
                operand_left = (f"{var}." in lt or "current" in lt) and ("max_" in rt)
                operand_right = (f"{var}." in rt or "current" in rt) and ("max_" in lt)
                if operand_left or operand_right:
                    found = True
                    greater = isinstance(x.ops[0], (ast.Gt, ast.GtE))
                    direction_ok &= greater if operand_left else not greater
        ctx.add("3-covers", fn, arm, found and direction_ok,
                f"`{q}` is only replaced by a larger value" if found and direction_ok else f"`{q}` arm does not keep the maximum (direction of the comparison / min instead of max)", key=f"direction {q}")
        init_none = any(f"max_data['{q}'] is None" in norm(x) or f'max_data["{q}"] is None' in ast.unparse(x) for x in ast.walk(arm)) or q == "memory"
        ctx.add("3-covers", fn, arm, init_none, f"`{q}`: first operand initialises the accumulator" if init_none else f"`{q}` arm does not handle the empty accumulator", key=f"init {q}")
    ret = [r for r in walk_no_nested(fn.node) if isinstance(r, ast.Return)][-1]
    ok = norm(ret.value) == "Resources(**max_data)"
    ctx.add("3-covers", fn, ret, ok, "result built from the accumulator through the constructor" if ok else "combine_max does not return Resources(**max_data)", key="return")


# ---------------------------------------------------------------------------- rules 4-7
def rule_rest(ctx: Ctx) -> None:
    cls = ctx.prog.cls(f"{MOD}.Resources")
    fields = list(cls.fields)
    slurm = ctx.prog.func(f"{MOD}.Resources.to_slurm_options")
    src = ast.unparse(slurm.node)
    n = 0
    for f in fields:
        if f == "parallelization_mode":
            continue
        n += 1
        if f == "extra_args":
            ok = "self.extra_args.items()" in src and "options.append" in src
        else:
            arms = [s for s in walk_no_nested(slurm.node) if isinstance(s, ast.If) and norm(s.test) in (f"self.{f}", f"self.{f} is not None")]
            ok = bool(arms) and f"{{self.{f}}}" in ast.unparse(arms[0]) and "options.append" in ast.unparse(arms[0])
        ctx.add("4-slurm", slurm, slurm.node, ok, f"`{f}` is emitted when set" if ok else f"to_slurm_options does not mention `{f}`", key=f"emit {f}")
    ctx.floor("4-slurm", n, 8)
    ok = "' '.join(options)" in src or '" ".join(options)' in src
    ctx.add("4-slurm", slurm, slurm.node, ok, "all options are returned" if ok else "to_slurm_options does not return all collected options", key="join")

    post = ctx.prog.func(f"{MOD}.Resources.__post_init__")
    wanted = {
        "cpus": "self.cpus is not None and self.cpus <= 0", "gpus": "self.gpus is not None and self.gpus < 0",
        "nodes": "self.nodes is not None and self.nodes <= 0", "cpus_per_node": "self.cpus_per_node is not None and self.cpus_per_node <= 0",
        "memory": "self.memory is not None and (not self._is_valid_memory(self.memory))", "time": "self.time is not None and (not self._is_valid_wall_time(self.time))",
        "nodes+cpus": "self.nodes and self.cpus", "cpus_per_node-without-nodes": "self.cpus_per_node and (not self.nodes)",
    }
    ifs = {norm(s.test): s for s in post.node.body if isinstance(s, ast.If)}
    for name, test in wanted.items():
        s = ifs.get(test)
        ok = s is not None and any(isinstance(x, ast.Raise) for x in s.body)
        ctx.add("5-validated", post, s if s is not None else post.node, ok, f"invalid `{name}` is rejected" if ok else f"__post_init__ no longer rejects invalid `{name}` (`{test}`)", key=f"reject {name}")
    wt = ctx.prog.func(f"{MOD}.Resources._is_valid_wall_time")
    pats = [c.value for c in ast.walk(wt.node) if isinstance(c, ast.Constant) and isinstance(c.value, str) and "\\d" in c.value]
    ok = bool(pats) and pats[0].startswith("^") and pats[0].endswith("$")
    ctx.add("5-validated", wt, wt.node, ok, "wall-time pattern is anchored at both ends" if ok else "wall-time pattern is not anchored: malformed strings pass", key="time-anchored")
    gb = ctx.prog.func(f"{MOD}.Resources._convert_to_gb")
    pats = [c.value for c in ast.walk(gb.node) if isinstance(c, ast.Constant) and isinstance(c.value, str) and "\\d" in c.value]
    ok = bool(pats) and pats[0].startswith("^") and pats[0].endswith("$") and any(isinstance(x, ast.Raise) for x in ast.walk(gb.node))
    ctx.add("5-validated", gb, gb.node, ok, "memory pattern is anchored and mismatches raise" if ok else "memory pattern not anchored or mismatch does not raise", key="memory-anchored")
    units = [d for d in ast.walk(gb.node) if isinstance(d, ast.Dict)]
    if units:
        vals = {k.value: v for k, v in zip(units[0].keys, units[0].values) if isinstance(k, ast.Constant)}
        order = ["B", "KB", "MB", "GB", "TB", "PB"]
        nums = []
        for u in order:
            v = vals.get(u)
            nums.append(float(ast.literal_eval(v)) if v is not None else None)
        ok = None not in nums and all(a < b for a, b in zip(nums, nums[1:]))  # type: ignore[operator]
        ctx.add("5-validated", gb, units[0], bool(ok), "unit factors increase B < KB < ... < PB" if ok else "memory unit table is not increasing: sizes compare wrongly", key="unit-table")
    # combinators return through the constructor
    for name in ("update", "combine_max", "with_defaults", "from_dict"):
        f = ctx.prog.func(f"{MOD}.Resources.{name}")
        for r in [r for r in walk_no_nested(f.node) if isinstance(r, ast.Return) and r.value is not None]:
            t = norm(r.value)
            ok = t.startswith(("Resources(", "Resources.from_dict(")) or t == "self"
            ctx.add("5-validated", f, r, ok, "returns through the (validating) constructor" if ok else f"`{t[:60]}` does not go through the Resources constructor", key=f"{name}: {t[:60]}")

    d = ctx.prog.func(f"{MOD}.Resources.dict")
    ret = [r for r in walk_no_nested(d.node) if isinstance(r, ast.Return)][-1]
    ok = norm(ret.value) == "{k: v for k, v in asdict(self).items() if v is not None}"
    ctx.add("6-roundtrip", d, ret, ok, "dict() = all fields of asdict(self) that are not None" if ok else "dict() is no longer asdict(self) minus the None values", key="dict")
    fd = ctx.prog.func(f"{MOD}.Resources.from_dict")
    rets = [r for r in walk_no_nested(fd.node) if isinstance(r, ast.Return)]
    ok = any(norm(r.value) == "Resources(**data)" for r in rets)
    ctx.add("6-roundtrip", fd, rets[0] if rets else fd.node, ok, "from_dict passes the mapping unchanged to the constructor" if ok else "from_dict alters the mapping before constructing", key="from_dict")
    eq = (cls.dataclass_kwargs or {}).get("eq", True)
    ctx.add("6-roundtrip", cls.qualname, cls.loc, eq is not False, "field-wise equality" if eq is not False else "Resources no longer compares field-wise", key="eq")

    wd = ctx.prog.func(f"{MOD}.Resources.with_defaults")
    calls = [c for c in ast.walk(wd.node) if isinstance(c, ast.Call) and dotted(c.func) == "dict" and c.args]
    ok = False
    if calls:
        c = calls[0]
        first = ast.unparse(c.args[0])
        star = [k.value for k in c.keywords if k.arg is None]
        ok = "default_resources" in first and "self" not in first and bool(star) and "self" in ast.unparse(star[0])
    ctx.add("7-defaults", wd, calls[0] if calls else wd.node, ok, "dict(default, **self): the receiver's quantities win" if ok else "with_defaults no longer lets the receiver override the defaults", key="order")
    none_case = [s for s in wd.node.body if isinstance(s, ast.If) and norm(s.test) == "default_resources is None"]
    ok = bool(none_case) and norm(none_case[0].body[-1]) == "return self"
    ctx.add("7-defaults", wd, none_case[0] if none_case else wd.node, ok, "no defaults -> receiver unchanged" if ok else "with_defaults(None) does not return the receiver", key="none")
    for q, recv, arg in ((f"{MOD}.Resources.maybe_with_defaults", "resources", "default_resources"), (f"{MOD}._delayed_resources_with_defaults", "resources", "_default_resources")):
        f = ctx.prog.func(q)
        cs = [c for c in ast.walk(f.node) if isinstance(c, ast.Call) and isinstance(c.func, ast.Attribute) and c.func.attr == "with_defaults"]
        ok = bool(cs) and all(norm(c.func.value) == recv and norm(c.args[0]) == arg for c in cs)
        ctx.add("7-defaults", f, cs[0] if cs else f.node, ok, "delegates as resources.with_defaults(defaults)" if ok else "receiver and defaults are swapped in the delegation", key="delegate")


def check(ctx: Ctx) -> None:
    rule_pure(ctx)
    rule_magnitude(ctx)
    rule_covers(ctx)
    rule_rest(ctx)


F = "pipefunc/resources.py"
MUTANTS = [
    Mutant("update-original-F31", F, '                data["extra_args"] = {**data["extra_args"], key: value}\n', '                data["extra_args"][key] = value\n', ("C20.1-pure",), why="original F31"),
    Mutant("update-extra-args-inplace", F, '                data["extra_args"] = {**data["extra_args"], **value}\n', '                data["extra_args"].update(value)\n', ("C20.1-pure",)),
    Mutant("combine-max-mutates-operand", F, "        max_data: dict[str, Any] = {\n", "        resources_list.sort(key=lambda r: r.cpus or 0)\n        max_data: dict[str, Any] = {\n", ("C20.1-pure",)),
    Mutant("combine-max-aliases-extra-args", F, '            "extra_args": {},\n        }', '            "extra_args": resources_list[0].extra_args,\n        }', ("C20.1-pure",)),
    Mutant("time-original-F30", F,
           '            if resources.time is not None and (\n                max_data["time"] is None\n                or Resources._convert_to_seconds(resources.time)\n                > Resources._convert_to_seconds(max_data["time"])\n            ):\n                max_data["time"] = resources.time\n',
           '            if resources.time is not None:\n                max_data["time"] = (\n                    resources.time\n                    if max_data["time"] is None\n                    else max(max_data["time"], resources.time)\n                )\n',
           ("C20.2-magnitude",), why="original F30"),
    Mutant("memory-as-text", F, "                if current_memory_gb > max_memory_gb:\n", '                if max_data["memory"] is None or resources.memory > max_data["memory"]:\n', ("C20.2-magnitude",)),
    Mutant("memory-rounded", F, "            return float(value) * units[unit]\n", "            return round(float(value) * units[unit], 3)\n", ("C20.2-magnitude",), why="seeded C20/2"),
    Mutant("gpus-min", F, 'else max(max_data["gpus"], resources.gpus)', 'else min(max_data["gpus"], resources.gpus)', ("C20.3-covers",)),
    Mutant("memory-smaller-wins", F, "                if current_memory_gb > max_memory_gb:\n", "                if current_memory_gb < max_memory_gb:\n", ("C20.3-covers",)),
    Mutant("time-arm-dropped", F,
           '            if resources.time is not None and (\n                max_data["time"] is None\n                or Resources._convert_to_seconds(resources.time)\n                > Resources._convert_to_seconds(max_data["time"])\n            ):\n                max_data["time"] = resources.time\n', "", ("C20.3-covers",)),
    Mutant("slurm-no-time", F, '        if self.time:\n            options.append(f"--time={self.time}")\n', "", ("C20.4-slurm",)),
    Mutant("slurm-no-extra", F, '        for key, value in self.extra_args.items():\n            options.append(f"--{key}={value}")\n', "", ("C20.4-slurm",)),
    Mutant("no-nodes-cpus-exclusion", F, "        if self.nodes and self.cpus:\n", "        if False and self.nodes and self.cpus:\n", ("C20.5-validated",)),
    Mutant("time-pattern-unanchored", F, 'r"^(\\d+:)?(\\d{2}:)?\\d{2}:\\d{2}$"', 'r"(\\d+:)?(\\d{2}:)?\\d{2}:\\d{2}"', ("C20.5-validated",)),
    Mutant("dict-keeps-none", F, "return {k: v for k, v in asdict(self).items() if v is not None}", "return {k: v for k, v in asdict(self).items() if v}", ("C20.6-roundtrip",)),
    Mutant("defaults-win", F, "return Resources(**dict(default_resources.dict(), **self.dict()))", "return Resources(**dict(self.dict(), **default_resources.dict()))", ("C20.7-defaults",)),
    Mutant("units-table-swapped", F, '"TB": 1e3, "PB": 1e6', '"TB": 1e6, "PB": 1e3', ("C20.5-validated",)),
    Mutant("twin-update-dict-union", F, '                data["extra_args"] = {**data["extra_args"], key: value}\n', '                data["extra_args"] = data["extra_args"] | {key: value}\n', twin=True),
    Mutant("twin-time-local", F, "                > Resources._convert_to_seconds(max_data[\"time\"])\n", "                > Resources._convert_to_seconds(max_data[\"time\"])  # longer\n", twin=True),
]
