"""C20 - resource specifications combine monotonically and without side effects (structural clauses).

Every rule is three-valued: it *holds* when an accepted shape is recognised, it is *violated* only when the violating
construct is positively identified, otherwise it abstains (UNDECIDED).  Rules look at a function together with the private
helpers and module constants it uses, follow local definitions, and do not depend on names of locals.

  1 pure       no function of pipefunc.resources stores into `self`, a Resources/dict parameter, or a container reachable
               from them (alias analysis: OBJ / FIELD / SHALLOW-copy / FRESH)
  2 magnitude  str-typed quantities (memory, time) are never ordered as text, neither directly nor through a helper whose
               parameter is ordered; the converters are lossless
  3 covers     combine_max merges cpus, gpus, memory and time from every operand and only ever keeps the larger value
  4 slurm      to_slurm_options reads every quantity field
  5 validated  __post_init__ examines every numeric/str quantity and both exclusion rules and can raise; patterns are anchored;
               the unit table is increasing; combinators return through the constructor
  6 roundtrip  dict() drops exactly the None values of asdict(self); from_dict hands the mapping to the constructor
  7 defaults   with_defaults merges so that the receiver wins
"""

from __future__ import annotations

import ast
import re

from ..cfg import header_parts
from ..flow import Defs, Scope, all_merges, guard_facts, iterations
from ..loader import AnalysisError, FuncInfo, dotted, norm, walk_no_nested
from ..report import Ctx
from ..selftest import Mutant

PROP = "C20"
MOD = "pipefunc.resources"
TECHNIQUE = "static analysis: alias/purity abstract interpretation + typed ordering rule + merge-direction and field-coverage analysis over the AST and call graph of pipefunc/resources.py + running-extremum discipline + regex-AST field-width rule + lossy-component rule (timedelta.seconds) + no-removal rule in with_defaults + extra-args-cannot-displace rule + per-field independent emission (guard facts) + nested maximum returned unmodified + numeric key= functions and converters known by type + day-factor rule + independent validation per quantity + winner-is-an-operand rule + hand-written field lists vs dataclass fields + verbose regexes + decision-chain relation tests (nested decisions, field names as strings)"
EXPLANATION = (
    "Static analysis of pipefunc/resources.py (functions analysed together with the private helpers and module constants "
    "they use; local definitions are followed, names of locals are irrelevant): an alias/purity abstract interpretation, "
    "a typed rule for ordering operations on str-typed quantity fields including flows through helper parameters, "
    "direction analysis of the merge in combine_max, field-coverage rules for to_slurm_options and __post_init__, regex "
    "anchoring, and merge-precedence analysis of with_defaults. Rules abstain when a construct is not recognised."
)
TRUSTED = ["CPython ast parser", "dataclasses.asdict returns a deep copy", "dataclass field annotations state the runtime type"]
DECLINED = ["numeric monotonicity of combine_max over all unit strings (value-level)", "exact SLURM option text", "exact bounds (<= 0 vs < 0) of the numeric checks"]

MUTATING = {"update", "setdefault", "append", "extend", "pop", "popitem", "clear", "insert", "remove", "__setitem__", "__delitem__", "sort", "reverse", "add", "discard"}
QUANTITIES = ["cpus", "gpus", "memory", "time"]
STR_QUANTITIES = {"memory", "time"}


def _mentions(text: str, q: str) -> bool:
    return re.search(rf"(\.|\['){q}\b", text) is not None


# ---------------------------------------------------------------------------- rule 1: alias analysis
class Alias:
    """Flow-insensitive may-alias classes for local names of one function."""

    def __init__(self, fn: FuncInfo, tracked_params: set[str]) -> None:
        self.fn = fn
        self.env: dict[str, set[str]] = {}
        self.holds: dict[tuple[str, object], set[str]] = {}  # (local container, constant key or None) -> aliases stored there
        for p in tracked_params:
            self.env[p] = {f"OBJ:{p}"}
        for _ in range(3):
            for n in walk_no_nested(fn.node):
                if isinstance(n, ast.Assign):
                    for t in n.targets:
                        if isinstance(t, ast.Subscript) and isinstance(t.value, ast.Name):
                            al = {v for v in self.val(n.value) if ":" in v}
                            if al:
                                key = t.slice.value if isinstance(t.slice, ast.Constant) else None
                                self.holds.setdefault((t.value.id, key), set()).update(al)
                if isinstance(n, ast.Assign) and len(n.targets) == 1 and isinstance(n.targets[0], ast.Name):
                    self.env.setdefault(n.targets[0].id, set()).update(self.val(n.value))
                elif isinstance(n, ast.AnnAssign) and isinstance(n.target, ast.Name) and n.value is not None:
                    self.env.setdefault(n.target.id, set()).update(self.val(n.value))
                elif isinstance(n, (ast.For, ast.comprehension)):
                    src = self.val(n.iter)
                    elems = {f"FIELD:{v.split(':', 1)[1]}" for v in src if v.split(":")[0] in ("OBJ", "FIELD", "SHALLOW")}
                    for t in ast.walk(n.target):
                        if isinstance(t, ast.Name):
                            self.env.setdefault(t.id, set()).update(elems or {"FRESH"})

    def val(self, e: ast.AST) -> set[str]:  # noqa: C901, PLR0911
        if isinstance(e, ast.Name):
            return set(self.env.get(e.id, {"FRESH"}))
        if isinstance(e, (ast.Attribute, ast.Subscript)):
            base = self.val(e.value)
            out = {f"FIELD:{v.partition(':')[2]}" for v in base if v.partition(":")[0] in ("OBJ", "FIELD", "SHALLOW")}
            if isinstance(e, ast.Subscript) and isinstance(e.value, ast.Name):  # what a local container holds under this key
                key = e.slice.value if isinstance(e.slice, ast.Constant) else None
                for (name, k), al in self.holds.items():
                    if name == e.value.id and (k == key or k is None or key is None):
                        out |= {f"FIELD:{v.partition(':')[2]}" for v in al if v.partition(":")[0] in ("OBJ", "FIELD")}
            return out or {"FRESH"}
        if isinstance(e, ast.Call):
            name = dotted(e.func)
            if isinstance(e.func, ast.Attribute) and e.func.attr == "copy" and not e.args:
                return {f"SHALLOW:{v.split(':', 1)[1]}" if ":" in v else "FRESH" for v in self.val(e.func.value)}
            if name in ("dict", "list", "set", "tuple", "copy.copy", "vars") and e.args:
                inner = self.val(e.args[0])
                if name == "vars":
                    return {f"FIELD:{v.split(':', 1)[1]}" for v in inner if ":" in v} or {"FRESH"}
                return {f"SHALLOW:{v.split(':', 1)[1]}" if ":" in v else "FRESH" for v in inner}
            if isinstance(e.func, ast.Attribute) and e.func.attr in ("get", "setdefault", "pop", "items", "values"):
                base = self.val(e.func.value)
                return {f"FIELD:{v.split(':', 1)[1]}" for v in base if ":" in v} or {"FRESH"}
            return {"FRESH"}  # asdict, .dict(), constructors, other calls
        if isinstance(e, ast.Dict):
            out = {"FRESH"}
            for v in e.values:
                out |= {f"SHALLOW:{a.split(':', 1)[1]}" for a in self.val(v) if ":" in a}
            return out
        if isinstance(e, ast.IfExp):
            return self.val(e.body) | self.val(e.orelse)
        if isinstance(e, ast.BoolOp):
            out = set()
            for v in e.values:
                out |= self.val(v)
            return out
        return {"FRESH"}

    def mutated_owner(self, target: ast.AST) -> set[str]:
        return {v.partition(":")[2] for v in self.val(target) if v.partition(":")[0] in ("OBJ", "FIELD")}


def rule_pure(ctx: Ctx) -> None:
    n = 0
    for fn in ctx.prog.functions_in(MOD):
        tracked = set()
        for i, p in enumerate(fn.params):
            ann = ast.unparse(p.annotation) if p.annotation is not None else ""
            # `self` is an operand in the methods of Resources; in a private helper class of the module (an accumulator the combinator
            # builds and throws away) `self` is that scratch object, and writing to it changes no operand
            own_self = i == 0 and fn.cls is not None and not fn.is_static and p.arg == "self" and not (fn.cls.name.startswith("_") and fn.cls.name != "Resources")
            if own_self or "Resources" in ann or "dict" in ann or "list" in ann:
                tracked.add(p.arg)
        if not tracked:
            continue
        n += 1
        al = Alias(fn, tracked)
        bad: list[tuple[ast.AST, str]] = []
        for s in walk_no_nested(fn.node):
            targets: list[ast.AST] = []
            if isinstance(s, ast.Assign):
                targets = s.targets
            elif isinstance(s, (ast.AugAssign, ast.AnnAssign)):
                targets = [s.target]
            elif isinstance(s, ast.Delete):
                targets = s.targets
            for t in targets:
                if isinstance(t, (ast.Subscript, ast.Attribute)):
                    owners = al.mutated_owner(t.value)
                    if owners:
                        bad.append((s, f"`{norm(s)[:80]}` stores into an object reachable from `{sorted(owners)[0]}`"))
            if isinstance(s, ast.Expr) and isinstance(s.value, ast.Call) and isinstance(s.value.func, ast.Attribute) and s.value.func.attr in MUTATING:
                owners = al.mutated_owner(s.value.func.value)
                if owners:
                    bad.append((s, f"`{norm(s)[:80]}` mutates an object reachable from `{sorted(owners)[0]}`"))
        if bad:
            for node, msg in bad:
                ctx.add("1-pure", fn, node, False, msg + ": the operand is changed although the combinator must return a new object")
        else:
            ctx.add("1-pure", fn, fn.node, True, f"no store or mutating call reaches {sorted(tracked)}", key=f"def {fn.name}")
    ctx.floor("1-pure", n, 8)
    cls = ctx.prog.cls(f"{MOD}.Resources")
    kw = cls.dataclass_kwargs or {}
    ctx.add("1-pure", cls.qualname, cls.loc, kw.get("frozen") is True, "Resources is a frozen dataclass" if kw.get("frozen") is True else "Resources is no longer frozen", key="frozen")
    m = ctx.prog.module(MOD)
    bypass = "object.__setattr__" in m.source
    ctx.add("1-pure", m.name, m.relpath, not bypass, "no object.__setattr__ bypass" if not bypass else "object.__setattr__ bypasses the frozen dataclass", key="setattr-bypass")


# ---------------------------------------------------------------------------- rule 2
CONVERTER_NAMES: set[str] = set()  # functions of the module that turn a str quantity into a number (filled by rule_magnitude from the annotations)


def _raw_quantity(e: ast.AST) -> str | None:
    """`e` contains a str-typed quantity (attribute .memory/.time or mapping entry ['memory'/'time']) that is not inside a converter call."""
    par = {id(c): p for p in ast.walk(e) for c in ast.iter_child_nodes(p)}
    for x in ast.walk(e):
        q = None
        if isinstance(x, ast.Attribute) and x.attr in STR_QUANTITIES:
            q = x.attr
        elif isinstance(x, ast.Subscript) and isinstance(x.slice, ast.Constant) and x.slice.value in STR_QUANTITIES:
            q = x.slice.value
        if q is None:
            continue
        y: ast.AST = x
        conv = False
        while y is not e and id(y) in par:
            child, y = y, par[id(y)]
            if isinstance(y, ast.Compare) and all(isinstance(o, (ast.Is, ast.IsNot, ast.Eq, ast.NotEq, ast.In, ast.NotIn)) for o in y.ops):
                conv = True  # identity / equality test: a bool flows on, not the text
            if isinstance(y, ast.IfExp) and child is y.test:
                conv = True
            if isinstance(y, ast.Call) and ("convert" in dotted(y.func).lower() or dotted(y.func).rsplit(".", 1)[-1] in {"len", "bool", "isinstance", "str"} | CONVERTER_NAMES):
                conv = True
            if isinstance(y, ast.comprehension) and child is y.iter and id(y) in par:
                # the quantity is what a comprehension iterates over: what flows on is its element expression - converted when the
                # loop variable only occurs there inside a converter call (`[convert(m) for m in <memories>]`)
                comp = par[id(y)]
                elts = [comp.key, comp.value] if isinstance(comp, ast.DictComp) else [getattr(comp, "elt", None)]
                tnames = {t.id for t in ast.walk(y.target) if isinstance(t, ast.Name)}
                raw_here = False
                for el in [e_ for e_ in elts if e_ is not None]:
                    ep = {id(c_): p_ for p_ in ast.walk(el) for c_ in ast.iter_child_nodes(p_)}
                    for nm in [n_ for n_ in ast.walk(el) if isinstance(n_, ast.Name) and n_.id in tnames]:
                        z: ast.AST = nm
                        wrapped = False
                        while id(z) in ep:
                            z = ep[id(z)]
                            if isinstance(z, ast.Call) and ("convert" in dotted(z.func).lower() or dotted(z.func).rsplit(".", 1)[-1] in {"len", "bool", "isinstance", "str"} | CONVERTER_NAMES):
                                wrapped = True
                        raw_here = raw_here or not wrapped
                if not raw_here:
                    conv = True
        if not conv:
            return q
    return None


def _touches_quantity(e: ast.AST) -> bool:
    return any((isinstance(x, ast.Attribute) and x.attr in STR_QUANTITIES) or (isinstance(x, ast.Subscript) and isinstance(x.slice, ast.Constant) and x.slice.value in STR_QUANTITIES) for x in ast.walk(e))


def _plain_pattern(pat: str, nodes: list[ast.AST]) -> str:
    """The pattern as the regex engine reads it: under re.VERBOSE / re.X white space and `# comments` are not part of it."""
    verbose = any(isinstance(x, ast.Attribute) and x.attr in ("VERBOSE", "X") for x in nodes) or pat.lstrip().startswith("(?x)")
    if not verbose:
        return pat
    return re.sub(r"(?<!\\)#[^\n]*", "", pat).replace(" ", "").replace("\n", "").replace("\t", "").replace("(?x)", "")


def _ordering_sites(fn: FuncInfo):
    """(node, operands, description) for max/min/sorted calls and </> comparisons of `fn`."""
    for c in walk_no_nested(fn.node):
        if isinstance(c, ast.Call) and dotted(c.func) in ("max", "min", "sorted"):
            yield c, list(c.args), dotted(c.func) + "()"
        elif isinstance(c, ast.Compare) and any(isinstance(o, (ast.Lt, ast.Gt, ast.LtE, ast.GtE)) for o in c.ops):
            yield c, [c.left, *c.comparators], "comparison"


def rule_magnitude(ctx: Ctx) -> None:
    cls = ctx.prog.cls(f"{MOD}.Resources")
    str_fields = set()
    for name, ann in cls.fields.items():
        t = ctx.typer.ann(cls.module, None, ann.annotation)
        if "str" in t.scalars() and not ({"int", "float"} & t.scalars()):
            str_fields.add(name)
    if not STR_QUANTITIES <= str_fields:
        raise AnalysisError(f"expected memory and time to be str-typed fields, got {sorted(str_fields)}")
    # a converter is known by its TYPE, not by its name: it takes a str and returns a number
    CONVERTER_NAMES.clear()
    for f_ in ctx.prog.functions_in(MOD):
        r_ = f_.node.returns
        if r_ is None:
            continue
        rt = ctx.typer.ann(f_.module, f_, r_).scalars()
        takes_str = any(a_.annotation is not None and "str" in ctx.typer.ann(f_.module, f_, a_.annotation).scalars() for a_ in f_.params)
        if takes_str and ({"int", "float"} & rt) and "str" not in rt and "bool" not in rt:
            CONVERTER_NAMES.add(f_.name)
    # everything that orders resources: the module itself, and the nested function's maximum (a helper, or spelled into the constructor)
    nested = [f for q in ("pipefunc._pipefunc._maybe_max_resources", "pipefunc._pipefunc.NestedPipeFunc.__init__") if (f := ctx.prog.functions.get(q)) is not None]
    targets = [*ctx.prog.functions_in(MOD), *nested]
    # parameters that a function orders directly (max/min/sorted/<>): passing a raw quantity to them is textual ordering too
    ordering_params: dict[str, set[str]] = {}
    for fn in targets:
        ps = set(fn.param_names())
        for _node, operands, _w in _ordering_sites(fn):
            for o in operands:
                if isinstance(o, ast.Name) and o.id in ps:
                    ordering_params.setdefault(fn.qualname, set()).add(o.id)
    n = 0
    for fn in targets:
        d = Defs(fn)
        for node, operands, what in _ordering_sites(fn):
            resolved = [d.resolve(o) for o in operands]
            if not any(_touches_quantity(o) for o in resolved):
                continue
            n += 1
            raw = [q for q in map(_raw_quantity, resolved) if q]
            key_kw = next((k.value for k in node.keywords if k.arg == "key"), None) if isinstance(node, ast.Call) else None
            if raw and key_kw is not None:
                # max(xs, key=f) orders by f(x): a key that converts to a number orders by magnitude
                body = key_kw.body if isinstance(key_kw, ast.Lambda) else None
                convs = [c_ for c_ in ast.walk(body) if isinstance(c_, ast.Call)] if body is not None else [ast.Call(func=key_kw, args=[], keywords=[])]
                numeric = False
                for c_ in convs:
                    for callee in ctx.cg.resolve_callable(fn, c_.func):
                        r_ = callee.node.returns
                        if r_ is not None and {"int", "float"} & ctx.typer.ann(callee.module, callee, r_).scalars() and "str" not in ctx.typer.ann(callee.module, callee, r_).scalars():
                            numeric = True
                ctx.add("2-magnitude", fn, node, True if numeric else None, f"{what} orders by the numeric key `{norm(key_kw)[:50]}`" if numeric else
                        f"UNDECIDED: {what} orders `{raw[0]}` through the key `{norm(key_kw)[:50]}`, which is not recognised as a conversion to a number", key=f"{what} {norm(node)[:90]}")
                continue
            ctx.add("2-magnitude", fn, node, not raw, f"{what} on converted magnitudes" if not raw else
                    f"{what} orders the str-typed quantity `{raw[0]}` as text ('2:00:00' > '10:00:00', '9GB' > '10GB')", key=f"{what} {norm(node)[:90]}")
        for c in [c for c in walk_no_nested(fn.node) if isinstance(c, ast.Call)]:
            for callee in ctx.cg.resolve_callable(fn, c.func):
                ops = ordering_params.get(callee.qualname)
                if not ops:
                    continue
                pnames = [p for p in callee.param_names() if p not in ("self", "cls")]
                given = list(zip(pnames, c.args)) + [(k.arg, k.value) for k in c.keywords if k.arg]
                for pn, a in given:
                    q = _raw_quantity(d.resolve(a)) if pn in ops else None
                    if q:
                        n += 1
                        ctx.add("2-magnitude", fn, c, False, f"the str-typed quantity `{q}` is passed to `{callee.name}`, which orders its parameter `{pn}`: textual comparison", key=f"via {callee.name} {q}")
    ctx.floor("2-magnitude", n, 1)
    for conv in ("_convert_to_gb", "_convert_to_seconds"):
        f = ctx.prog.maybe_func(f"{MOD}.Resources.{conv}")
        if f is None:
            ctx.add("2-magnitude", f"{MOD}.Resources.{conv}", "", None, f"UNDECIDED: no function named {conv}; the ordering rule still requires a converter call around every str quantity", key=f"converter {conv}")
            continue
        sc = Scope(ctx, f)
        lossy = [x for _f, x in sc.walk() if (isinstance(x, ast.Call) and dotted(x.func) in ("round", "math.floor", "math.ceil", "math.trunc", "floor", "ceil")) or (isinstance(x, ast.BinOp) and isinstance(x.op, ast.FloorDiv))]
        # timedelta(...).seconds is the seconds COMPONENT (0..86399) - the days are a separate field; the magnitude is total_seconds()
        lossy += [x for _f, x in sc.walk() if isinstance(x, ast.Attribute) and x.attr in ("seconds", "microseconds") and isinstance(x.ctx, ast.Load) and "timedelta" in sc.text()]
        ctx.add("2-magnitude", f, lossy[0] if lossy else f.node, not lossy, f"{conv} is lossless (no rounding)" if not lossy else
                f"`{norm(lossy[0])[:50]}` loses part of the magnitude inside {conv} (rounding / a component instead of the total): different quantities compare equal or a longer one compares smaller, so combine_max can return less than an operand", key=f"lossless {conv}")
        if conv == "_convert_to_seconds":
            # "D:HH:MM:SS": a day is 24 hours - a positional scheme that multiplies by 60 at every field counts it as 60
            ints = {x.value for _f, x in sc.walk() if isinstance(x, ast.Constant) and isinstance(x.value, int) and not isinstance(x.value, bool)}
            day = bool(ints & {24, 86400, 1440})
            only_sixties = bool(ints & {60, 3600}) and ints <= {0, 1, 2, 3, 4, 60, 3600, -1, -4}
            ctx.tri("2-magnitude", f, f.node, day, only_sixties and not day and "timedelta" not in sc.text(), "the days field is weighted with 24 hours",
                    f"{conv} only ever multiplies by 60 (constants {sorted(ints)}): the days field of 'D:HH:MM:SS' is counted as 60 hours - '1:00:00:00' (24 h) is taken for longer than '0:59:00:00' - durations with days are mis-ordered against each other and combine_max can return less than an operand",
                    f"weight of the days field not recognised (constants {sorted(ints)[:8]})", key="days-are-24h")
        numeric = any(isinstance(x, ast.Call) and dotted(x.func) in ("float", "int", "sum") for _f, x in sc.walk())
        ctx.tri("2-magnitude", f, f.node, numeric, False, f"{conv} produces a number", "", f"{conv} has no float()/int() conversion this rule recognises", key=f"numeric {conv}")


def rule_each_quantity_on_its_own(ctx: Ctx) -> None:
    """(a) memory and time are validated independently of each other: the guard of one quantity's check must not mention another
    field (an `if memory ... elif time ...` validates the time only when no memory is given);
    (b) what combine_max reports for a str quantity is one of the OPERANDS' strings, selected - not a re-spelt number (a formatter
    such as str(timedelta) has its own idea of the format: '1 day, 0:00:00' is refused by the constructor)."""
    P = ctx.prog
    post = P.func(f"{MOD}.Resources.__post_init__")
    cfg = ctx.cfg(post)
    d = Defs(post)
    checks = {"time": ("_is_valid_wall_time", "wall_time"), "memory": ("_is_valid_memory", "_convert_to_gb", "_memory")}
    for q, names in checks.items():
        nodes = [n for n in cfg.nodes() if any(isinstance(c, ast.Call) and any(w in dotted(c.func) for w in names) for part in header_parts(cfg.stmt[n]) if part is not None for c in ast.walk(part))]
        if not nodes:
            ctx.add("5-validated", post, post.node, None, f"UNDECIDED: the validation of `{q}` was not found in __post_init__", key=f"independent {q}")
            continue
        ifs_by_test = {id(i_.test): i_ for i_ in ast.walk(post.node) if isinstance(i_, ast.If)}

        def only_rejects(body: list[ast.stmt]) -> bool:
            return bool(body) and isinstance(body[-1], ast.Raise)

        other = []
        for n in nodes:
            for test, truth in cfg.controls(n):
                i_ = ifs_by_test.get(id(test))
                # "the earlier check did not reject" is not a restriction: it holds for every valid value
                if i_ is not None and ((not truth and only_rejects(i_.body)) or (truth and only_rejects(i_.orelse))):
                    continue
                t = norm(d.resolve(test))
                # a test that itself VALIDATES the other quantity (an if/elif ladder of checks that collects the first problem) is an
                # earlier check too, whichever way it leads to the rejection
                if any(w in t for o_ in (STR_QUANTITIES - {q}) for w in checks[o_]):
                    continue
                other += [t for o in (STR_QUANTITIES - {q}) if re.search(rf"\bself\.{o}\b", t)]
        ctx.add("5-validated", post, cfg.stmt[nodes[0]], not other, f"`{q}` is validated whatever the other quantities are" if not other else
                f"the validation of `{q}` only runs under `{other[0][:50]}`: with that other quantity set a malformed `{q}` string is accepted at construction", key=f"independent {q}")
    cm = P.func(f"{MOD}.Resources.combine_max")
    dcm = Defs(cm)
    for q in sorted(STR_QUANTITIES):
        stores = [a_ for a_ in ast.walk(cm.node) if isinstance(a_, ast.Assign) and any(isinstance(t, ast.Subscript) and isinstance(t.slice, ast.Constant) and t.slice.value == q for t in a_.targets)]
        stores += [a_ for a_ in ast.walk(cm.node) if isinstance(a_, ast.Assign) and any(isinstance(t, ast.Name) and t.id == q for t in a_.targets)]
        formatted = [a_ for a_ in stores if any((isinstance(x, ast.Call) and dotted(x.func) in ("str", "format", "repr")) or isinstance(x, ast.JoinedStr) or (isinstance(x, ast.Call) and isinstance(x.func, ast.Attribute) and x.func.attr in ("format", "strftime", "isoformat"))
                                                    for x in ast.walk(dcm.resolve(a_.value)))]
        ctx.add("2-magnitude", cm, formatted[0] if formatted else cm.node, not formatted, f"the `{q}` of the result is one of the operands' strings" if not formatted else
                f"`{norm(formatted[0])[:70]}` re-spells the winning `{q}` instead of handing back the operand's own string: the spelling of the formatter is not the one the constructor accepts for every value "
                "(str(timedelta) gives '1 day, 0:00:00' from 24 hours on) - combine_max raises for operands it should combine", key=f"winner-is-operand {q}")


def rule_nested_takes_the_maximum(ctx: Ctx) -> None:
    """What a NestedPipeFunc asks for is the maximum over its children: _maybe_max_resources hands back the single child's resources,
    None, or what combine_max returns - not a child's own Resources filled up from the maximum (`child.with_defaults(maximum)` lets
    the child's smaller memory / time / gpus win)."""
    P = ctx.prog
    mm = P.functions.get("pipefunc._pipefunc._maybe_max_resources")
    if mm is None:
        ctx.add("3-covers", "pipefunc._pipefunc", "", None, "UNDECIDED: _maybe_max_resources not found", key="nested-maximum")
        return
    d = Defs(mm)
    bad, n = [], 0
    for r in [r for r in walk_no_nested(mm.node) if isinstance(r, ast.Return) and r.value is not None]:
        v = d.resolve(r.value)
        n += 1
        for c in [c for c in ast.walk(v) if isinstance(c, ast.Call) and isinstance(c.func, ast.Attribute) and c.func.attr in ("with_defaults", "update")]:
            recv = norm(c.func.value)
            if "combine_max(" not in recv:
                bad.append((r, c))
    ctx.add("3-covers", mm, bad[0][0] if bad else mm.node, not bad, f"_maybe_max_resources returns the maximum as combine_max computed it ({n} returns)" if not bad else
            f"`{norm(bad[0][1])[:70]}`: the result is a child's own Resources completed from the maximum - with_defaults / update let the receiver's values win, so that child's smaller memory / time / gpus replace the maximum over all children",
            key="nested-maximum")


# ---------------------------------------------------------------------------- rule 3
def rule_covers(ctx: Ctx) -> None:  # noqa: C901
    fn = ctx.prog.func(f"{MOD}.Resources.combine_max")
    operand_param = [p for p in fn.param_names() if p not in ("self", "cls")][0]
    loops = [it for it in iterations(fn.node) if operand_param in ast.unparse(it["iter"]) and it["kind"] == "loop"]
    if not loops:
        ctx.add("3-covers", fn, fn.node, None, f"UNDECIDED: no statement loop over `{operand_param}` recognised", key="loop")
        return
    lp = loops[0]
    sliced = isinstance(lp["iter"], ast.Subscript)
    ctx.add("3-covers", fn, lp["node"], not sliced, "merges over every operand" if not sliced else f"the merge loop iterates `{norm(lp['iter'])}`, not all operands", key="loop-iter")
    var = norm(lp["target"])
    d = Defs(fn)
    loop_text = norm(lp["node"])
    loop_consts = {c.value for c in ast.walk(lp["node"]) if isinstance(c, ast.Constant) and isinstance(c.value, str)}
    for q in QUANTITIES:
        stores = [s for s in ast.walk(lp["node"]) if isinstance(s, ast.Assign) and any(isinstance(t, ast.Subscript) and isinstance(t.slice, ast.Constant) and t.slice.value == q for t in s.targets)]
        reads_operand = any(isinstance(a, ast.Attribute) and a.attr == q and norm(a.value) == var for a in ast.walk(lp["node"]))
        if not stores and not reads_operand and q not in loop_consts:
            # the loop may hand the operand to a helper / an accumulator object that does the merging
            delegates = any(isinstance(c, ast.Call) and any(isinstance(a, ast.Name) and a.id == var for a in [*c.args, *[k.value for k in c.keywords]]) for c in ast.walk(lp["node"]))
            ctx.add("3-covers", fn, lp["node"], None if delegates else False, f"UNDECIDED: the merge of `{q}` is delegated (the loop hands `{var}` to a call); the arm is not followed there" if delegates else
                    f"combine_max has no merge arm for `{q}`: the operands' `{q}` never reaches the result", key=f"arm {q}")
            continue
        ctx.tri("3-covers", fn, stores[0] if stores else lp["node"], bool(stores) and reads_operand, False,
                f"`{q}`: the operand's value can be stored into the accumulator", "", f"`{q}` is handled in a form this rule does not follow (table-driven?)", key=f"arm {q}")
        # direction: ordering decisions that involve this quantity, in the loop and in helpers called with this quantity
        verdicts: list[tuple[bool, ast.AST, str]] = []
        seen: set[int] = set()
        for region in [st for st in ast.walk(lp["node"]) if isinstance(st, (ast.Assign, ast.If)) and _mentions(norm(st), q)]:
            for x in ast.walk(region):
                if id(x) in seen:
                    continue
                seen.add(id(x))
                if isinstance(x, ast.Call) and dotted(x.func) in ("max", "min"):
                    if _mentions(norm(d.resolve(x)), q):
                        verdicts.append((dotted(x.func) == "max", x, f"{dotted(x.func)}(...)"))
                elif isinstance(x, ast.Call) and _mentions(norm(x), q):
                    for callee in ctx.cg.resolve_callable(fn, x.func):
                        if callee.module.name != fn.module.name or "convert" in callee.name:
                            continue
                        ps = set(callee.param_names())
                        for y in ast.walk(callee.node):
                            if isinstance(y, ast.Call) and dotted(y.func) in ("max", "min") and y.args and all(isinstance(a, ast.Name) and a.id in ps for a in y.args):
                                verdicts.append((dotted(y.func) == "max", x, f"{callee.name}: {dotted(y.func)}(...)"))
                elif isinstance(x, ast.Compare) and len(x.ops) == 1 and isinstance(x.ops[0], (ast.Gt, ast.GtE, ast.Lt, ast.LtE)):
                    lt, rt = norm(d.resolve(x.left)), norm(d.resolve(x.comparators[0]))
                    is_op = lambda t: re.search(rf"\b{re.escape(var)}\.{q}\b", t) is not None  # noqa: E731
                    is_acc = lambda t: f"['{q}']" in t  # noqa: E731
                    greater = isinstance(x.ops[0], (ast.Gt, ast.GtE))
                    if is_op(lt) and is_acc(rt) and not is_acc(lt) and not is_op(rt):
                        verdicts.append((greater, x, norm(x)[:60]))
                    elif is_op(rt) and is_acc(lt) and not is_acc(rt) and not is_op(lt):
                        verdicts.append((not greater, x, norm(x)[:60]))
        good = bool(verdicts) and all(v for v, _n, _t in verdicts)
        bad = [(n_, t) for v, n_, t in verdicts if not v]
        ctx.tri("3-covers", fn, bad[0][0] if bad else (verdicts[0][1] if verdicts else lp["node"]), good, bool(bad),
                f"`{q}` is only replaced by a larger value ({'; '.join(t for _v, _n, t in verdicts)[:80]})",
                f"`{q}`: `{bad[0][1] if bad else ''}` keeps the SMALLER value (min / reversed comparison): the result can be below an operand",
                f"no max()/comparison between the operand's `{q}` and the accumulator was recognised", key=f"direction {q}")
    # running-extremum discipline: a local that a loop compares the operand against (`cur > best`) is only overwritten where that
    # comparison succeeded (or recomputed from the kept value); otherwise it tracks the LAST operand, not the largest
    par_l = {id(c): p_ for p_ in ast.walk(lp["node"]) for c in ast.iter_child_nodes(p_)}
    for cmp_ in [x for x in ast.walk(lp["node"]) if isinstance(x, ast.Compare) and len(x.ops) == 1 and isinstance(x.ops[0], (ast.Gt, ast.GtE, ast.Lt, ast.LtE)) and isinstance(par_l.get(id(x)), ast.If)]:
        if_ = par_l[id(cmp_)]
        for side in (cmp_.left, cmp_.comparators[0]):
            if not isinstance(side, ast.Name):
                continue
            for a in [a for a in ast.walk(lp["node"]) if isinstance(a, ast.Assign) and any(isinstance(t, ast.Name) and t.id == side.id for t in a.targets)]:
                other = cmp_.comparators[0] if side is cmp_.left else cmp_.left
                copies_operand = isinstance(a.value, ast.Name) and isinstance(other, ast.Name) and a.value.id == other.id
                inside = any(x is a for st in if_.body for x in ast.walk(st))
                before = (a.lineno, a.col_offset) < (cmp_.lineno, cmp_.col_offset)
                if copies_operand and not inside and not before:
                    ctx.add("3-covers", fn, a, False, f"`{norm(a)}` overwrites the running extremum `{side.id}` for EVERY operand, outside `if {norm(cmp_)}`: the next operand is compared with the previous one, not with the largest so far, "
                            "so combine_max can return less than an operand (e.g. 32GB, 8GB, 16GB -> 16GB)", key=f"running-max {side.id}")
    rets = [r for r in walk_no_nested(fn.node) if isinstance(r, ast.Return) and r.value is not None]
    last = norm(d.resolve(rets[-1].value)) if rets else ""
    ctx.tri("3-covers", fn, rets[-1] if rets else fn.node, last.startswith("Resources(**"), False, "the result is built from the accumulator through the constructor", "",
            f"the final return `{last[:60]}` is not Resources(**accumulator)", key="return")
    _ = loop_text


# ---------------------------------------------------------------------------- rules 4-7
def _module_const(ctx: Ctx, name: str) -> ast.AST | None:
    return ctx.prog.module(MOD).assigns.get(name)


def _scope_nodes(ctx: Ctx, fn: FuncInfo) -> list[ast.AST]:
    """All nodes of fn's scope plus the module-level constants it names."""
    nodes = [n for _f, n in Scope(ctx, fn).walk()]
    for n in list(nodes):
        if isinstance(n, ast.Name):
            v = _module_const(ctx, n.id)
            if v is not None:
                nodes += list(ast.walk(v))
    return nodes


def rule_rest(ctx: Ctx) -> None:  # noqa: C901, PLR0915
    P = ctx.prog
    cls = P.cls(f"{MOD}.Resources")
    fields = list(cls.fields)
    # ---- 4 slurm
    slurm = P.func(f"{MOD}.Resources.to_slurm_options")
    ssc = Scope(ctx, slurm, wide=True)
    read = ssc.attrs_read("self")
    n = 0
    for f in fields:
        if f == "parallelization_mode":
            continue
        n += 1
        ok = f in read or ssc.mentions(f)  # read on self, on self under another name in a helper, or by name through a table of field names
        ctx.tri("4-slurm", slurm, slurm.node, ok, not ok and not ssc.dynamic(), f"`{f}` is read when building the options", f"to_slurm_options never reads `{f}`: a set `{f}` is not mentioned",
                f"fields are read by computed name and `{f}` is not named in the tables the function uses", key=f"emit {f}")
    ctx.floor("4-slurm", n, 8)
    # each quantity is emitted whenever IT is set: the statement that appends the option of field F is controlled by tests of F only
    # (an `elif` hung onto the test of another field emits F only when that other field is NOT set)
    from ..flow import guard_facts

    cfg_s = ctx.cfg(slurm)
    d_s = Defs(ast.Module(body=[], type_ignores=[]))
    for nd in cfg_s.nodes(lambda s_: isinstance(s_, ast.Expr) and isinstance(s_.value, ast.Call) and isinstance(s_.value.func, ast.Attribute) and s_.value.func.attr in ("append", "extend", "add")):
        emitted = sorted({x.attr for x in ast.walk(cfg_s.stmt[nd]) if isinstance(x, ast.Attribute) and isinstance(x.value, ast.Name) and x.value.id == "self" and x.attr in fields and x.attr != "extra_args"})
        if len(emitted) != 1:
            continue
        f_ = emitted[0]
        foreign = sorted({x.attr for t_, _pol in guard_facts(cfg_s, d_s, nd) for x in ast.walk(ast.parse(t_, mode="eval")) if isinstance(x, ast.Attribute) and isinstance(x.value, ast.Name) and x.value.id == "self" and x.attr in fields} - {f_})
        ctx.add("4-slurm", slurm, cfg_s.stmt[nd], not foreign, f"`{f_}` is emitted whenever it is set" if not foreign else
                f"the option of `{f_}` is only emitted depending on {['self.' + x for x in foreign]} (e.g. an `elif` chained to another field's test): with both set, `{f_}` is not mentioned", key=f"emit-independent {f_}")
    # a quantity, once collected, cannot be displaced by a user-supplied extra argument: when the options are gathered in a mapping
    # keyed by flag name, merging `extra_args` OVER it replaces the entry of a quantity whose flag the user also names
    quantity_maps = {t.id for a in ast.walk(slurm.node) if isinstance(a, (ast.Assign, ast.AnnAssign)) and isinstance(a.value, (ast.Dict, ast.DictComp))
                     and any(isinstance(x, ast.Attribute) and isinstance(x.value, ast.Name) and x.value.id == "self" and x.attr in fields and x.attr != "extra_args" for x in ast.walk(a.value))
                     for t in (a.targets if isinstance(a, ast.Assign) else [a.target]) if isinstance(t, ast.Name)}
    for _ in range(2):  # filtered copies of it
        quantity_maps |= {t.id for a in ast.walk(slurm.node) if isinstance(a, ast.Assign) and any(isinstance(x, ast.Name) and x.id in quantity_maps for x in ast.walk(a.value)) for t in a.targets if isinstance(t, ast.Name)}
    over = [c for c in ast.walk(slurm.node) if isinstance(c, ast.Call) and isinstance(c.func, ast.Attribute) and c.func.attr == "update" and isinstance(c.func.value, ast.Name) and c.func.value.id in quantity_maps
            and any("extra_args" in norm(a_) for a_ in c.args)]
    over += [b for b in ast.walk(slurm.node) if isinstance(b, ast.BinOp) and isinstance(b.op, ast.BitOr) and isinstance(b.left, ast.Name) and b.left.id in quantity_maps and "extra_args" in norm(b.right)]
    over += [d_ for d_ in ast.walk(slurm.node) if isinstance(d_, ast.Dict) and None in d_.keys and len(d_.values) >= 2 and isinstance(d_.values[0], ast.Name) and d_.values[0].id in quantity_maps and "extra_args" in norm(d_.values[-1])]
    ctx.add("4-slurm", slurm, over[0] if over else slurm.node, not over, "no user-supplied extra argument can displace the option of a set quantity" if not over else
            f"`{norm(over[0])[:60]}` merges extra_args over the options collected by flag name: an extra argument named like a built-in flag (e.g. gres=...) replaces the option of a quantity that is set - it is no longer mentioned", key="extra-args-do-not-displace")
    # ---- 5 validated
    post = P.func(f"{MOD}.Resources.__post_init__")
    sc = Scope(ctx, post, wide=True)
    reads, consts = sc.attrs_read("self"), sc.str_consts()
    raises = sc.raises()
    ctx.add("5-validated", post, post.node, bool(raises), f"__post_init__ can reject ({len(raises)} raise site(s))" if raises else "__post_init__ never raises", key="raises")
    for f in ("cpus", "gpus", "nodes", "cpus_per_node", "memory", "time"):
        ok = f in reads or f in consts or sc.mentions(f)
        ctx.tri("5-validated", post, post.node, ok, not ok and not sc.dynamic(), f"`{f}` is examined at construction", f"__post_init__ never looks at `{f}`: invalid values are accepted",
                f"fields are examined by computed name and `{f}` is not named in the tables used", key=f"examines {f}")
    # every test and, for nested ifs, the conjunction of enclosing tests
    tests: list[str] = []

    def collect(body: list[ast.stmt], outer: str, dd: Defs) -> None:
        for s in body:
            if isinstance(s, ast.If):
                t = outer + " && " + norm(dd.resolve(s.test))
                if any(isinstance(x, ast.Raise) for x in ast.walk(s)):
                    tests.append(t)
                collect(s.body, t, dd)
                collect(s.orelse, outer + " && not (" + norm(dd.resolve(s.test)) + ")", dd)
            elif isinstance(s, (ast.For, ast.With, ast.Try)):
                collect(s.body, outer, dd)

    for f_ in sc.funcs:
        collect(f_.node.body, "", Defs(f_))
    # every decision made anywhere in the closure together with the decisions it is nested in (an `if` whose body always leaves
    # puts the statements after it under its negation; conditional expressions count as decisions)
    chains: list[str] = []

    def leaves(body: list[ast.stmt]) -> bool:
        # an arm that SELECTS a result; the negation of a rejecting guard (`if bad: raise`) relates nothing to what follows
        return bool(body) and isinstance(body[-1], ast.Return) and body[-1].value is not None

    def collect_chains(body: list[ast.stmt], outer: str) -> None:
        for s in body:
            if isinstance(s, ast.If):
                t = norm(s.test)
                chains.append(outer + " && " + t)
                collect_chains(s.body, outer + " && " + t)
                collect_chains(s.orelse, outer + " && not " + t)
                if leaves(s.body):
                    outer = outer + " && not " + t
                continue
            if isinstance(s, (ast.For, ast.AsyncFor, ast.While, ast.With, ast.AsyncWith, ast.Try)):
                for part in ("body", "orelse", "finalbody"):
                    collect_chains(getattr(s, part, []) or [], outer)
                for h in getattr(s, "handlers", []):
                    collect_chains(h.body, outer)
                continue
            if isinstance(s, (ast.FunctionDef, ast.AsyncFunctionDef, ast.ClassDef)):
                continue
            conds = [norm(x.test) for x in ast.walk(s) if isinstance(x, ast.IfExp)] + [norm(i_) for x in ast.walk(s) if isinstance(x, ast.comprehension) for i_ in x.ifs]
            if conds:
                chains.append(outer + " && " + " && ".join(conds))

    for f_ in sc.funcs:
        collect_chains(f_.node.body, "")
    for a, b, why in (("nodes", "cpus", "`nodes` and `cpus` together"), ("cpus_per_node", "nodes", "`cpus_per_node` without `nodes`")):
        def names(q: str, t: str) -> bool:
            """The test reads the field - as an attribute, or by its name as a string (`"nodes" in in_use`, `given.get("cpus")`)."""
            return re.search(rf"\b\w+\.{q}\b(?!_)", t) is not None or re.search(rf"['\"]{q}['\"]", t) is not None

        hit = any(names(a, t) and names(b, t) for t in tests)
        # the same relation tested anywhere in the closure (e.g. in a generator of violation messages whose first item is raised)
        anywhere = any(re.search(rf"\b\w+\.{a}\b(?!_)", norm(t_.test)) and re.search(rf"\b\w+\.{b}\b(?!_)", norm(t_.test)) for _f, t_ in sc.walk() if isinstance(t_, ast.If)) \
            or any(names(a, t) and names(b, t) for t in chains)
        ctx.tri("5-validated", post, post.node, hit, not hit and not anywhere, f"{why} is tested and rejected", f"no condition relates self.{a} and self.{b}: {why} is accepted",
                f"{why} is tested, but not as the direct guard of a raise", key=f"exclusion {a}")
    for fname, what in (("_is_valid_wall_time", "wall-time"), ("_convert_to_gb", "memory")):
        f = P.maybe_func(f"{MOD}.Resources.{fname}")
        nodes = _scope_nodes(ctx, f) if f is not None else []
        pats = [_plain_pattern(x.value, nodes) for x in nodes if isinstance(x, ast.Constant) and isinstance(x.value, str) and "\\d" in x.value]
        good = bool(pats) and all(p.startswith("^") and p.endswith("$") for p in pats)
        fullmatch = any(isinstance(c, ast.Call) and isinstance(c.func, ast.Attribute) and c.func.attr == "fullmatch" for c in nodes)
        ctx.tri("5-validated", f if f is not None else f"{MOD}.Resources.{fname}", f.node if f is not None else "", good or (bool(pats) and fullmatch), bool(pats) and not good and not fullmatch,
                f"{what} pattern is anchored at both ends", f"{what} pattern `{pats[0] if pats else ''}` is not anchored: malformed strings pass", f"no {what} pattern found", key=f"{what}-anchored")
    # shape of the wall-time pattern (read from the regex AST, not matched against strings): at most ONE field of free width
    # (the leading days/hours count); every other field is a fixed two-digit field
    wt = P.maybe_func(f"{MOD}.Resources._is_valid_wall_time")
    if wt is not None:
        import re._parser as rp  # type: ignore[import-not-found]

        wt_nodes = _scope_nodes(ctx, wt)
        pats = [_plain_pattern(x.value, wt_nodes) for x in wt_nodes if isinstance(x, ast.Constant) and isinstance(x.value, str) and "\\d" in x.value]
        for pat in pats[:1]:
            try:
                tree = rp.parse(pat)
            except Exception:  # noqa: BLE001
                ctx.add("5-validated", wt, wt.node, None, f"UNDECIDED: wall-time pattern `{pat}` does not parse", key="wall-time-fields")
                break

            def free_fields(items, mult: int = 1) -> int:
                """Upper bound on the number of unbounded-width digit runs a match can contain."""
                total = 0
                for op, av in items:
                    name = str(op)
                    if name in ("MAX_REPEAT", "MIN_REPEAT"):
                        lo, hi, sub = av
                        digits_only = all(str(o) == "IN" or str(o) == "CATEGORY" for o, _a in sub)
                        if digits_only and int(hi) > 99:
                            total += mult
                        else:
                            total += free_fields(sub, mult * (int(hi) if int(hi) < 99 else 99))
                    elif name == "SUBPATTERN":
                        total += free_fields(av[3], mult)
                    elif name == "BRANCH":
                        total += max((free_fields(b, mult) for b in av[1]), default=0)
                return total

            k = free_fields(list(tree))
            ctx.tri("5-validated", wt, wt.node, k <= 1, k > 1, "the wall-time pattern has at most one field of free width (the leading one)",
                    f"the wall-time pattern `{pat}` lets up to {k} fields have any number of digits: strings like '1:5:00:00' (an hours field that is not two digits) are accepted", key="wall-time-fields")
    gb = P.maybe_func(f"{MOD}.Resources._convert_to_gb")
    if gb is not None:
        nodes = _scope_nodes(ctx, gb)
        table = next((t for t in nodes if isinstance(t, ast.Dict) and {"B", "KB", "GB"} <= {k.value for k in t.keys if isinstance(k, ast.Constant)}), None)
        if table is None:
            ctx.add("5-validated", gb, gb.node, None, "UNDECIDED: unit table not found", key="unit-table")
        else:
            vals = {k.value: v for k, v in zip(table.keys, table.values) if isinstance(k, ast.Constant)}
            try:
                nums = [float(ast.literal_eval(vals[u])) for u in ["B", "KB", "MB", "GB", "TB", "PB"] if u in vals]
                ok = all(a < b for a, b in zip(nums, nums[1:]))
                ctx.add("5-validated", gb, gb.node, ok, "unit factors increase B < KB < ... < PB" if ok else "memory unit table is not increasing: sizes compare wrongly", key="unit-table")
            except (ValueError, SyntaxError):
                ctx.add("5-validated", gb, gb.node, None, "UNDECIDED: unit factors are not literals", key="unit-table")
        ok = any(isinstance(x, ast.Raise) for x in nodes)
        ctx.add("5-validated", gb, gb.node, ok, "a malformed memory string raises" if ok else "_convert_to_gb no longer raises on malformed input", key="memory-raises")
    for name in ("update", "combine_max", "with_defaults", "from_dict"):
        f = P.func(f"{MOD}.Resources.{name}")
        dd = Defs(f)
        ps = set(f.param_names())
        for r in [r for r in walk_no_nested(f.node) if isinstance(r, ast.Return) and r.value is not None]:
            t = norm(dd.resolve(r.value))
            good = t.startswith(("Resources(", "Resources.from_dict(", "cls(")) or t in ps
            bad = any(b in t for b in ("object.__new__", "copy.copy(", "__new__(", "replace("))
            ctx.tri("5-validated", f, r, good, bad, "returns through the (validating) constructor", f"`{t[:60]}` bypasses the Resources constructor", f"return `{t[:60]}` not recognised", key=f"{name} returns")
    # ---- 6 roundtrip
    dfn = P.func(f"{MOD}.Resources.dict")
    ddef = Defs(dfn)
    its = [it for it in iterations(dfn.node) if "asdict(self)" in norm(ddef.resolve(it["iter"]))]
    if not its:
        # a hand-written field list: it has to name every field of the dataclass
        lists = [x for x in ast.walk(dfn.node) if isinstance(x, (ast.Tuple, ast.List, ast.Set)) and len(x.elts) >= 3 and all(isinstance(e_, ast.Constant) and isinstance(e_.value, str) for e_ in x.elts)]
        keys_ = {e_.value for x in lists for e_ in x.elts} | {t.slice.value for a_ in ast.walk(dfn.node) if isinstance(a_, ast.Assign) for t in a_.targets if isinstance(t, ast.Subscript) and isinstance(t.slice, ast.Constant)}
        flds = set(cls.fields)
        if lists and keys_ <= flds | {"extra_args"}:
            gone = sorted(flds - keys_)
            ctx.add("6-roundtrip", dfn, lists[0], not gone, "dict() names every field of Resources" if not gone else
                    f"dict() is built from a field list that leaves out {gone}: from_dict(r.dict()) != r for a Resources with that field set (and with_defaults, which goes through dict(), silently resets it)", key="dict")
        else:
            ctx.add("6-roundtrip", dfn, dfn.node, None, "UNDECIDED: no iteration over asdict(self) recognised", key="dict")
    else:
        it = its[0]
        tnames = [x.id for x in ast.walk(it["target"]) if isinstance(x, ast.Name)]
        val = tnames[-1] if tnames else "?"
        flt = it["filters"]
        good = flt == [(f"{val} is None", False)]
        truthy = any(t == val for t, _pol in flt)
        other = [f_ for f_ in flt if f_ != (f"{val} is None", False)]
        ctx.tri("6-roundtrip", dfn, it["node"], good, truthy, "dict() keeps every field of asdict(self) that is not None",
                f"dict() filters on the truth value of `{val}`: set-but-falsy values (gpus=0) are dropped, so from_dict(r.dict()) != r and defaults override them",
                f"filter(s) {other or 'none'} not recognised", key="dict")
    fd = P.func(f"{MOD}.Resources.from_dict")
    param = [p for p in fd.param_names() if p not in ("self", "cls")][0]
    ctor = [c for c in ast.walk(fd.node) if isinstance(c, ast.Call) and dotted(c.func) in ("Resources", "cls")]
    stars = [norm(Defs(fd).resolve(k.value)) for c in ctor for k in c.keywords if k.arg is None]
    ctx.tri("6-roundtrip", fd, ctor[0] if ctor else fd.node, stars == [param], False, "from_dict passes the mapping unchanged to the constructor", "", f"from_dict builds Resources from {stars or 'something else'}", key="from_dict")
    eq = (cls.dataclass_kwargs or {}).get("eq", True)
    ctx.add("6-roundtrip", cls.qualname, cls.loc, eq is not False, "field-wise equality" if eq is not False else "Resources no longer compares field-wise", key="eq")
    # ---- 7 defaults
    wd = P.func(f"{MOD}.Resources.with_defaults")
    dparam = [p for p in wd.param_names() if p != "self"][0]
    verdicts = []
    for node, ops in all_merges(wd.node):
        sides = []
        for o in ops:
            t = ast.unparse(o)
            sides.append("default" if dparam in t and "self" not in t else ("self" if "self" in t and dparam not in t else "?"))
        if "default" in sides and "self" in sides:
            verdicts.append((sides.index("default") < len(sides) - 1 - sides[::-1].index("self"), node))
    wrong = [n_ for ok_, n_ in verdicts if not ok_]
    ctx.tri("7-defaults", wd, wrong[0] if wrong else wd.node, bool(verdicts) and not wrong, bool(wrong), "in every merge of with_defaults the receiver's entries win over the defaults",
            f"`{norm(wrong[0])[:70] if wrong else ''}` lets the DEFAULTS override what the receiver has set", "merge form not recognised", key="order")
    # ... and nothing the receiver has set is taken out again on the way to the constructor
    drops = [c for c in ast.walk(wd.node) if (isinstance(c, ast.Call) and isinstance(c.func, ast.Attribute) and c.func.attr in ("pop", "popitem") and isinstance(c.func.value, ast.Name))
             or (isinstance(c, ast.Delete) and any(isinstance(t, ast.Subscript) for t in c.targets))]
    ctx.add("7-defaults", wd, drops[0] if drops else wd.node, not drops, "with_defaults removes nothing from the merged quantities" if not drops else
            f"`{norm(drops[0])[:50]}` removes a quantity from the merged mapping: a value set on the receiver is silently dropped (the documented behaviour for a conflicting combination is the constructor's ValueError)", key="keeps-all")
    for q in (f"{MOD}.Resources.maybe_with_defaults", f"{MOD}._delayed_resources_with_defaults"):
        f = P.func(q)
        cs = [c for c in ast.walk(f.node) if isinstance(c, ast.Call) and isinstance(c.func, ast.Attribute) and c.func.attr == "with_defaults" and c.args]
        if not cs:
            ctx.add("7-defaults", f, f.node, None, "UNDECIDED: no with_defaults call", key="delegate")
            continue
        swapped = any("default" in norm(c.func.value) and "default" not in norm(c.args[0]) for c in cs)
        good = all("default" in norm(c.args[0]) and "default" not in norm(c.func.value) for c in cs)
        ctx.tri("7-defaults", f, cs[0], good, swapped, "delegates as resources.with_defaults(defaults)", "receiver and defaults are swapped in the delegation", key="delegate")


def check(ctx: Ctx) -> None:
    for rule in (rule_pure, rule_magnitude, rule_covers, rule_each_quantity_on_its_own, rule_nested_takes_the_maximum, rule_rest):
        ctx.run(rule)


F = "pipefunc/resources.py"
_TIME_ARM = ('            if resources.time is not None and (\n                max_data["time"] is None\n                or Resources._convert_to_seconds(resources.time)\n'
             '                > Resources._convert_to_seconds(max_data["time"])\n            ):\n                max_data["time"] = resources.time\n')
MUTANTS = [
    Mutant("days-as-sixty-hours", "pipefunc/resources.py", "        units = (1, 60, 3600, 86400)\n        return sum(int(v) * unit for v, unit in zip(reversed(time.split(\":\")), units))\n", "        seconds = 0\n        for value in time.split(\":\"):\n            seconds = 60 * seconds + int(value)\n        return seconds\n", ("C20.2-magnitude",), why="round-6 seed C20/17"),
    Mutant("timedelta-seconds-component", "pipefunc/resources.py", "        units = (1, 60, 3600, 86400)\n        return sum(int(v) * unit for v, unit in zip(reversed(time.split(\":\")), units))\n",
           "        from datetime import timedelta\n        s_, m_, h_, d_ = ([int(v) for v in reversed(time.split(\":\"))] + [0, 0])[:4]\n        return timedelta(days=d_, hours=h_, minutes=m_, seconds=s_).seconds\n", ("C20.2-magnitude",), why="round-4 seed C20/11"),
    Mutant("with-defaults-drops-cpus", "pipefunc/resources.py", "        return Resources(**dict(default_resources.dict(), **self.dict()))\n",
           "        data = dict(default_resources.dict(), **self.dict())\n        if \"nodes\" in data:\n            data.pop(\"cpus\", None)\n        return Resources(**data)\n", ("C20.7-defaults",), why="round-4 seed C20/12"),
    Mutant("update-original-F31", F, '                data["extra_args"] = {**data["extra_args"], key: value}\n', '                data["extra_args"][key] = value\n', ("C20.1-pure",), why="original F31"),
    Mutant("update-extra-args-inplace", F, '                data["extra_args"] = {**data["extra_args"], **value}\n', '                data["extra_args"].update(value)\n', ("C20.1-pure",)),
    Mutant("combine-max-mutates-operand", F, "        max_data: dict[str, Any] = {\n", "        resources_list.sort(key=lambda r: r.cpus or 0)\n        max_data: dict[str, Any] = {\n", ("C20.1-pure",)),
    Mutant("combine-max-aliases-extra-args", F, '            "extra_args": {},\n        }', '            "extra_args": resources_list[0].extra_args,\n        }', ("C20.1-pure",)),
    Mutant("time-original-F30", F, _TIME_ARM,
           '            if resources.time is not None:\n                max_data["time"] = (\n                    resources.time\n                    if max_data["time"] is None\n                    else max(max_data["time"], resources.time)\n                )\n',
           ("C20.2-magnitude",), why="original F30"),
    Mutant("memory-as-text", F, "                if current_memory_gb > max_memory_gb:\n", '                if max_data["memory"] is None or resources.memory > max_data["memory"]:\n', ("C20.2-magnitude",)),
    Mutant("time-as-text-via-local", F, _TIME_ARM,
           '            if resources.time is not None:\n                longest = max_data["time"]\n                candidate = resources.time\n                if longest is None or candidate > longest:\n                    max_data["time"] = candidate\n',
           ("C20.2-magnitude",)),
    Mutant("time-through-helper", F, _TIME_ARM,
           '            def _larger(a, b):\n                return b if a is None else max(a, b)\n\n            if resources.time is not None:\n                max_data["time"] = _larger(max_data["time"], resources.time)\n', ("C20.2-magnitude",)),
    Mutant("memory-rounded", F, "            return float(value) * units[unit]\n", "            return round(float(value) * units[unit], 3)\n", ("C20.2-magnitude",), why="seeded C20/2"),
    Mutant("gpus-min", F, 'else max(max_data["gpus"], resources.gpus)', 'else min(max_data["gpus"], resources.gpus)', ("C20.3-covers",)),
    Mutant("memory-smaller-wins", F, "                if current_memory_gb > max_memory_gb:\n", "                if current_memory_gb < max_memory_gb:\n", ("C20.3-covers",)),
    Mutant("time-operands-swapped", F, '                or Resources._convert_to_seconds(resources.time)\n                > Resources._convert_to_seconds(max_data["time"])\n',
           '                or Resources._convert_to_seconds(max_data["time"])\n                > Resources._convert_to_seconds(resources.time)\n', ("C20.3-covers",)),
    Mutant("time-arm-dropped", F, _TIME_ARM, "", ("C20.3-covers",)),
    Mutant("slurm-no-time", F, '        if self.time:\n            options.append(f"--time={self.time}")\n', "", ("C20.4-slurm",)),
    Mutant("slurm-no-extra", F, '        for key, value in self.extra_args.items():\n            options.append(f"--{key}={value}")\n', "", ("C20.4-slurm",)),
    Mutant("no-nodes-cpus-exclusion", F, "        if self.nodes and self.cpus:\n", "        if False and self.nodes:\n", ("C20.5-validated",)),
    Mutant("gpus-not-validated", F, "        if self.gpus is not None and self.gpus < 0:\n", "        if False:\n", ("C20.5-validated",)),
    Mutant("time-pattern-unanchored", F, 'r"^(\\d+:)?(\\d{2}:)?\\d{2}:\\d{2}$"', 'r"(\\d+:)?(\\d{2}:)?\\d{2}:\\d{2}"', ("C20.5-validated",)),
    Mutant("dict-truthiness-filter", F, "return {k: v for k, v in asdict(self).items() if v is not None}", "return {k: v for k, v in asdict(self).items() if v}", ("C20.6-roundtrip",), why="seeded C20/3"),
    Mutant("defaults-win", F, "return Resources(**dict(default_resources.dict(), **self.dict()))", "return Resources(**dict(self.dict(), **default_resources.dict()))", ("C20.7-defaults",)),
    Mutant("defaults-win-update-form", F, "        return Resources(**dict(default_resources.dict(), **self.dict()))\n", "        merged = self.dict()\n        merged.update(default_resources.dict())\n        return Resources(**merged)\n", ("C20.7-defaults",)),
    Mutant("combine-max-adopts-operand-dict", F, '                if key not in max_data["extra_args"]:\n                    max_data["extra_args"][key] = value\n',
           '                if not max_data["extra_args"]:\n                    max_data["extra_args"] = resources.extra_args\n                max_data["extra_args"].setdefault(key, value)\n', ("C20.1-pure",), why="round-2 seed C20/4"),
    Mutant("defaults-win-extra-args", F, "        return Resources(**dict(default_resources.dict(), **self.dict()))\n",
           '        data = dict(default_resources.dict(), **self.dict())\n        data["extra_args"] = {**self.extra_args, **default_resources.extra_args}\n        return Resources(**data)\n', ("C20.7-defaults",), why="round-2 seed C20/6"),
    Mutant("units-table-swapped", F, '"TB": 1e3, "PB": 1e6', '"TB": 1e6, "PB": 1e3', ("C20.5-validated",)),
    Mutant("twin-update-dict-union", F, '                data["extra_args"] = {**data["extra_args"], key: value}\n', '                data["extra_args"] = data["extra_args"] | {key: value}\n', twin=True),
    Mutant("twin-defaults-update-form", F, "        return Resources(**dict(default_resources.dict(), **self.dict()))\n", "        merged = default_resources.dict()\n        merged.update(self.dict())\n        return Resources(**merged)\n", twin=True),
    Mutant("twin-dict-loop-form", F, "        return {k: v for k, v in asdict(self).items() if v is not None}\n",
           "        out = {}\n        for k, v in asdict(self).items():\n            if v is None:\n                continue\n            out[k] = v\n        return out\n", twin=True),
    Mutant("twin-memory-temps-inlined", F, "                if current_memory_gb > max_memory_gb:\n", "                if Resources._convert_to_gb(resources.memory) > max_memory_gb:\n", twin=True),
]
