"""C15 - cache keys identify argument values (structural clauses of `to_hashable` and its users).

  1 tagged     every converted key is `(marker, type, payload)`
  2 dispatch   no class is tested after one of its superclasses in the isinstance chain
  3 order      unordered containers are canonically ordered, order-significant ones are not
  4 recursive  element values are converted recursively unless hashable by construction
  5 total      sorting caller data cannot escape with a TypeError (must be inside the fallback discipline)
  6 identity   natively handled array types are keyed by all identity attributes (lossy projections do not count)
  7 stable     no hash()/id() result flows into a key; DiskCache file names come from pickle bytes + md5
  8 sole       memoize, the map cache and the pipeline cache build keys only through to_hashable/try_to_hashable
"""

from __future__ import annotations

import ast

from ..loader import AnalysisError, dotted, norm, walk_no_nested
from ..report import Ctx
from ..selftest import Mutant

PROP = "C15"
MOD = "pipefunc.cache"
EXPLANATION = (
    "Static analysis of pipefunc.cache.to_hashable: the isinstance dispatch is read into a branch table "
    "(tested types, returned expression) and checked for type tagging, subclass-before-superclass order, the "
    "sort policy per container kind, recursive conversion of children, TypeError-safe ordering, the identity "
    "attributes used for numpy/pandas values and the absence of process-dependent hashes; key construction sites "
    "elsewhere are checked to go through to_hashable."
)
TRUSTED = [
    "CPython ast parser",
    "frozen builtin class hierarchy table (OrderedDict/defaultdict/Counter < dict, bool < int)",
    "frozen identity-attribute table for ndarray / Series / DataFrame (sa/rules/c15.py IDENTITY)",
]
DECLINED = [
    "'equal key iff equal value' as a relation over all pairs of runtime values",
    "pickle determinism of arbitrary objects on the cloudpickle fallback branch",
]

SUBCLASS_OF = {  # sub -> super, builtins only (frozen table; typeshed says the same)
    "collections.OrderedDict": "dict", "collections.defaultdict": "dict", "collections.Counter": "dict",
    "OrderedDict": "dict", "defaultdict": "dict", "Counter": "dict", "bool": "int",
}
UNORDERED = {"dict", "set", "frozenset", "collections.defaultdict", "collections.Counter", "defaultdict", "Counter"}
ORDERED = {"list", "tuple", "collections.deque", "deque", "collections.OrderedDict", "OrderedDict"}
# element type hashable by construction: reason
FLAT_OK = {
    "bytearray": "elements are ints",
    "array.array": "typed array of numbers / unicode characters",
    "collections.Counter": "keys are hashable by the dict contract and counts are numbers",
    "Counter": "keys are hashable by the dict contract and counts are numbers",
}
IDENTITY = {  # natively handled third-party types: attributes that decide equality, with the reason
    "ndarray": {"shape": "same data, other shape", "dtype": "same data, other dtype", "flatten|tolist|tobytes|ravel": "the data"},
    "Series": {"name": "Series.name", "index": "labels, their order and duplicates (to_dict() collapses them)", "values|tolist|to_numpy|array|to_dict": "the data"},
    "DataFrame": {"columns|to_dict": "column labels", "index": "row labels (to_dict('list') drops them)", "values|to_numpy|to_dict": "the data"},
}
CONVERTERS = {"to_hashable", "_hashable_iterable", "_hashable_mapping"}
SORTERS = {"sorted", "_sorted"}


def _types_tested(test: ast.AST) -> list[str]:
    """Types of an `isinstance(obj, T)` test (T may be `A | B`, a tuple, or sys.modules['x'].Y)."""
    out: list[str] = []
    for c in ast.walk(test):
        if isinstance(c, ast.Call) and dotted(c.func) == "isinstance" and len(c.args) == 2:
            t = c.args[1]
            parts = []

            def split(x: ast.AST) -> None:
                if isinstance(x, ast.BinOp) and isinstance(x.op, ast.BitOr):
                    split(x.left)
                    split(x.right)
                elif isinstance(x, ast.Tuple):
                    for e in x.elts:
                        split(e)
                else:
                    parts.append(x)

            split(t)
            for p in parts:
                name = dotted(p)
                if not name and isinstance(p, ast.Attribute):
                    name = p.attr  # sys.modules["numpy"].ndarray
                out.append(name)
    return out


def _branches(fn_node: ast.FunctionDef) -> list[tuple[list[str], ast.Return, ast.If]]:
    out: list[tuple[list[str], ast.Return, ast.If]] = []

    def visit(body: list[ast.stmt]) -> None:
        for st in body:
            if isinstance(st, ast.If):
                types = _types_tested(st.test)
                if types:
                    rets = [r for r in ast.walk(st) if isinstance(r, ast.Return)]
                    for r in rets:
                        out.append((types, r, st))
                else:
                    visit(st.body)
                    visit(st.orelse)

    visit(fn_node.body)
    return out


def _calls(node: ast.AST, names: set[str]) -> list[ast.Call]:
    return [c for c in ast.walk(node) if isinstance(c, ast.Call) and dotted(c.func).rsplit(".", 1)[-1] in names]


def _branch_exprs(ret: ast.Return, if_node: ast.If) -> list[ast.AST]:
    """The returned expression plus the definitions of local names it uses inside the branch."""
    exprs: list[ast.AST] = [ret.value] if ret.value is not None else []
    names = {n.id for n in ast.walk(ret) if isinstance(n, ast.Name)}
    for st in ast.walk(if_node):
        if isinstance(st, ast.Assign) and any(isinstance(t, ast.Name) and t.id in names for t in st.targets):
            exprs.append(st.value)
    return exprs


def check(ctx: Ctx) -> None:  # noqa: C901, PLR0912, PLR0915
    fn = ctx.prog.func(f"{MOD}.to_hashable")
    branches = _branches(fn.node)
    ctx.floor("branches", len(branches), 11)
    marker_names = {"m", "_HASH_MARKER"}

    # ---- 1 tagged: every return after the hashable-as-is shortcut
    all_returns = [r for r in walk_no_nested(fn.node) if isinstance(r, ast.Return)]
    n_tag = 0
    for r in all_returns:
        if isinstance(r.value, ast.Name) and r.value.id == "obj":
            continue  # hashable as is
        n_tag += 1
        v = r.value
        ok = isinstance(v, ast.Tuple) and len(v.elts) == 3 and isinstance(v.elts[0], ast.Name) and v.elts[0].id in marker_names \
            and isinstance(v.elts[1], ast.Name) and v.elts[1].id == "tp"
        ctx.add("1-tagged", fn, r, ok, "key is (marker, type, payload)" if ok else "converted key is not tagged with the marker and the value's type: look-alike containers collide")
    ctx.floor("1-tagged", n_tag, 12)
    # tp must be the value's type
    tp_def = [s for s in walk_no_nested(fn.node) if isinstance(s, (ast.Assign, ast.AnnAssign)) and "tp" in {getattr(t, "id", None) for t in (s.targets if isinstance(s, ast.Assign) else [s.target])}]
    tp_def.sort(key=lambda s_: s_.lineno)
    ok = bool(tp_def) and norm(tp_def[0].value) == "type(obj)" and all("tp" in {n_.id for n_ in ast.walk(d.value) if isinstance(n_, ast.Name)} for d in tp_def[1:])
    ctx.add("1-tagged", fn, tp_def[0] if tp_def else fn.node, ok, "tp = type(obj)" if ok else "`tp` is no longer the exact type of the value", key="tp-def")

    # ---- 2 dispatch order
    order: list[str] = []
    for types, _r, _i in branches:
        for t in types:
            if t not in order:
                order.append(t)
    n2 = 0
    for sub, sup in SUBCLASS_OF.items():
        if sub in order and sup in order:
            n2 += 1
            ok = order.index(sub) < order.index(sup)
            node = next(i for ts, _r, i in branches if sub in ts)
            ctx.add("2-dispatch", fn, node, ok, f"`{sub}` is tested before its superclass `{sup}`" if ok else f"`{sup}` is tested before its subclass `{sub}`: {sub} values are keyed as plain {sup}", key=f"{sub}<{sup}")
    ctx.floor("2-dispatch", n2, 3)

    # ---- 3 order policy and 4 recursive conversion
    helpers = {n: ctx.prog.func(f"{MOD}.{n}") for n in ("_hashable_iterable", "_hashable_mapping")}
    n3 = n4 = 0
    for types, ret, if_node in branches:
        exprs = _branch_exprs(ret, if_node)
        text = " ".join(ast.unparse(e) for e in exprs)
        sorted_here = any(_calls(e, SORTERS) for e in exprs) or any(
            any(k.arg == "sort" and isinstance(k.value, ast.Constant) and k.value.value is True for k in c.keywords)
            for e in exprs for c in _calls(e, CONVERTERS))
        for t in types:
            if t in UNORDERED:
                n3 += 1
                ctx.add("3-order", fn, ret, sorted_here, f"unordered `{t}` is canonically ordered" if sorted_here else f"unordered `{t}` is keyed in iteration order: equal values get different keys", key=f"order {t}")
            elif t in ORDERED:
                n3 += 1
                ctx.add("3-order", fn, ret, not sorted_here, f"order-significant `{t}` keeps its order" if not sorted_here else f"order-significant `{t}` is sorted: values differing in order collide", key=f"order {t}")
        # 4: the payload embeds element values -> must go through a converter
        for t in types:
            if t in ("ndarray", "Series", "DataFrame"):
                continue  # handled by rule 6 / below
            n4 += 1
            converted = any(_calls(e, CONVERTERS) for e in exprs)
            if t in FLAT_OK:
                ctx.add("4-recursive", fn, ret, True, f"`{t}` payload embedded flat: {FLAT_OK[t]}", key=f"rec {t}")
            else:
                ctx.add("4-recursive", fn, ret, converted, f"`{t}` elements are converted recursively" if converted else f"`{t}` elements are embedded unconverted: nested unhashable values make the key unhashable", key=f"rec {t}")
        if "ndarray" in types:
            n4 += 1
            flat = [c for e in [if_node] for c in ast.walk(e) if isinstance(c, ast.Call) and dotted(c.func) == "tuple" and c.args and "flatten" in ast.unparse(c.args[0])]
            guarded = True
            for c in flat:
                g = False
                for inner in ast.walk(if_node):
                    if isinstance(inner, ast.If) and inner is not if_node and ("hasobject" in ast.unparse(inner.test) or "object" in ast.unparse(inner.test)):
                        if any(x is c for st in inner.orelse for x in ast.walk(st)) and "not" not in ast.unparse(inner.test):
                            g = True
                        if any(x is c for st in inner.body for x in ast.walk(st)) and "not" in ast.unparse(inner.test):
                            g = True
                    if isinstance(inner, ast.IfExp) and "hasobject" in ast.unparse(inner.test) and any(x is c for x in ast.walk(inner.orelse)):
                        g = True
                guarded = guarded and g
            converted = bool(_calls(if_node, CONVERTERS))
            ok = (not flat and converted) or (bool(flat) and guarded and converted)
            ctx.add("4-recursive", fn, ret, ok, "ndarray elements: flat only for non-object dtypes, converted otherwise" if ok else
                    "ndarray elements are embedded unconverted also for object arrays (lists/dicts inside make the key unhashable)", key="rec ndarray")
    # helpers really recurse
    for hname, h in helpers.items():
        n4 += 1
        ok = bool(_calls(h.node, {"to_hashable"}))
        ctx.add("4-recursive", h, h.node, ok, f"{hname} applies to_hashable to each element" if ok else f"{hname} no longer converts the elements", key=f"def {hname}")
    mp = helpers["_hashable_mapping"]
    ret = [r for r in walk_no_nested(mp.node) if isinstance(r, ast.Return)][-1]
    gen = next((g for g in ast.walk(ret) if isinstance(g, (ast.GeneratorExp, ast.ListComp))), None)
    ok = False
    if gen is not None and isinstance(gen.generators[0].target, ast.Tuple) and isinstance(gen.elt, ast.Tuple):
        kname = getattr(gen.generators[0].target.elts[0], "id", None)
        ok = any(isinstance(e, ast.Name) and e.id == kname for e in gen.elt.elts) and bool(_calls(gen.elt, {"to_hashable"}))
    ctx.add("4-recursive", mp, ret, ok, "mapping keys are kept next to their converted values" if ok else "mapping keys are dropped from the key", key="mapping keeps keys")
    ctx.floor("3-order", n3, 9)
    ctx.floor("4-recursive", n4, 10)

    # ---- 5 totality: sorted() over caller data only inside try/except TypeError
    n5 = 0
    for f in [fn, *helpers.values(), *[x for x in ctx.prog.functions_in(MOD) if x.name == "_sorted"]]:
        par = {id(c): p for p in ast.walk(f.node) for c in ast.iter_child_nodes(p)}
        for c in [c for c in walk_no_nested(f.node) if isinstance(c, ast.Call) and dotted(c.func) == "sorted"]:
            n5 += 1
            x: ast.AST = c
            safe = False
            in_handler = False
            while id(x) in par:
                child, x = x, par[id(x)]
                if isinstance(x, ast.ExceptHandler):
                    in_handler = True
                if isinstance(x, ast.Try) and child in x.body and any(h.type is None or "TypeError" in ast.unparse(h.type) or dotted(h.type) == "Exception" for h in x.handlers):
                    safe = True
            if in_handler and not safe:
                # the fallback itself: must sort by a key that is totally ordered (strings / tuples of strings)
                keyed = any(k.arg == "key" for k in c.keywords)
                ktxt = ast.unparse(c)
                safe = keyed and ("repr(" in ktxt or "str(" in ktxt)
            ctx.add("5-total", f, c, safe, "sorting is protected against incomparable items" if safe else
                    "sorted() over caller data can raise TypeError for mutually incomparable items (e.g. {1, 'a'}) instead of producing a key", key=norm(c))
    ctx.floor("5-total", n5, 1)
    # every sort in to_hashable's unordered branches goes through a helper that is covered above
    direct_sorted = [c for c in walk_no_nested(fn.node) if isinstance(c, ast.Call) and dotted(c.func) == "sorted"]
    for c in direct_sorted:
        pass  # already judged in the loop above (fn is included)

    # ---- 6 identity attributes
    n6 = 0
    for types, ret, if_node in branches:
        for t in types:
            if t not in IDENTITY:
                continue
            text = " ".join(ast.unparse(e) for e in _branch_exprs(ret, if_node)) + " " + ast.unparse(if_node)
            attrs_used = {a.attr for e in _branch_exprs(ret, if_node) for a in ast.walk(e)
                          if isinstance(a, ast.Attribute) and isinstance(a.value, ast.Name) and a.value.id == "obj"}
            for alts, why in IDENTITY[t].items():
                n6 += 1
                used = any(a in attrs_used for a in alts.split("|"))
                lossy = ""
                if t == "Series" and alts == "index" and not used:
                    lossy = " (to_dict() keys lose order and duplicate labels)"
                ctx.add("6-identity", fn, ret, used, f"{t}: key includes `{alts}`" if used else f"{t}: key does not include `{alts}` - {why}{lossy}", key=f"{t}.{alts}")
    ctx.floor("6-identity", n6, 9)

    for c in [c for c in ast.walk(fn.node) if isinstance(c, ast.Call) and isinstance(c.func, ast.Attribute) and c.func.attr in ("flatten", "ravel", "tobytes", "tolist", "reshape") and norm(c.func.value) == "obj"]:
        bad_order = [k for k in c.keywords if k.arg == "order" and not (isinstance(k.value, ast.Constant) and k.value.value == "C")]
        n6 += 1
        ctx.add("6-identity", fn, c, not bad_order, f"`{norm(c)}` flattens in logical (C) order" if not bad_order else
                f"`{norm(c)}` flattens in memory order: arrays with equal shape/dtype but different content (a transposed view) get the same key, equal C- and F-ordered arrays different ones", key=f"flatten-order {norm(c)[:40]}")
    # ---- 7 stable
    bad = [c for r in all_returns for c in ast.walk(r) if isinstance(c, ast.Call) and dotted(c.func) in ("hash", "id")]
    ctx.add("7-stable", fn, bad[0] if bad else fn.node, not bad, "no hash()/id() in any returned key" if not bad else "a returned key contains hash()/id(): differs between processes", key="no-hash-in-key")
    for hn in ("_pickle_key", "_cloudpickle_key"):
        h = ctx.prog.func(f"{MOD}.{hn}")
        src = ast.unparse(h.node)
        ok = "dumps(" in src and "md5" in src and "hash(" not in src.replace("hashlib", "")
        ctx.add("7-stable", h, h.node, ok, f"{hn}: pickle bytes -> md5" if ok else f"{hn} no longer derives the name from pickle bytes + md5", key=f"def {hn}")
    fp = ctx.prog.func(f"{MOD}.DiskCache._get_file_path")
    ok = "_pickle_key(key)" in ast.unparse(fp.node)
    ctx.add("7-stable", fp, fp.node, ok, "file name derives from _pickle_key(key)" if ok else "DiskCache file names no longer derive from _pickle_key(key)", key="def _get_file_path")

    # ---- 8 sole key builders
    sites = {
        f"{MOD}.memoize.decorator.wrapper": ("key", {"try_to_hashable", "key_func"}),
        "pipefunc.map._run._get_or_set_cache": ("cache_key", {"to_hashable"}),
        "pipefunc._pipeline._cache.compute_cache_key": ("key", {"to_hashable"}),
    }
    for q, (var, allowed) in sites.items():
        f = ctx.prog.func(q)
        assigns = [s for s in walk_no_nested(f.node) if isinstance(s, ast.Assign) and any(isinstance(t, ast.Name) and t.id == var for t in s.targets)]
        if not assigns:
            raise AnalysisError(f"{q}: assignment to `{var}` not found")
        for s in assigns:
            used = {dotted(c.func).rsplit(".", 1)[-1] for c in ast.walk(s.value) if isinstance(c, ast.Call)}
            ok = bool(used & allowed)
            ctx.add("8-sole", f, s, ok, f"`{var}` built through {sorted(used & allowed)}" if ok else f"`{var}` is built without to_hashable: {norm(s.value)[:80]}", key=f"{var}=")
    mw = ctx.prog.func(f"{MOD}.memoize.decorator.wrapper")
    th = [c for c in ast.walk(mw.node) if isinstance(c, ast.Call) and dotted(c.func) == "try_to_hashable"]
    ok = bool(th) and isinstance(th[0].args[0], ast.Tuple) and [norm(e) for e in th[0].args[0].elts] == ["args", "kwargs"]
    ctx.add("8-sole", mw, th[0] if th else mw.node, ok, "memoize keys the pair (args, kwargs) as one object" if ok else
            f"memoize hashes `{norm(th[0].args[0])[:50] if th else '?'}` instead of the pair (args, kwargs): different calls (positional vs keyword spellings) share a key", key="memoize-key-object")
    gk = ctx.prog.func("pipefunc.map._run._get_or_set_cache")
    s = next(s for s in walk_no_nested(gk.node) if isinstance(s, ast.Assign) and norm(s.targets[0]) == "cache_key")
    ok = "func.output_name" in norm(s.value)
    ctx.add("8-sole", gk, s, ok, "map cache key includes the function's output name" if ok else "map cache key lacks func.output_name: different functions with equal kwargs collide", key="cache_key has output_name")
    ck = ctx.prog.func("pipefunc._pipeline._cache.compute_cache_key")
    r = [r for r in walk_no_nested(ck.node) if isinstance(r, ast.Return) and r.value is not None and not (isinstance(r.value, ast.Constant) and r.value.value is None)]
    ok = bool(r) and "output_name" in norm(r[-1]) and "cache_key_items" in norm(r[-1])
    ctx.add("8-sole", ck, r[-1] if r else ck.node, ok, "pipeline cache key = (output_name, root items)" if ok else "pipeline cache key lost the output name or the root items", key="return key")


F = "pipefunc/cache.py"
MUTANTS = [
    Mutant("drop-tp-list", F, "        return (m, tp, _hashable_iterable(obj, fallback_to_pickle))\n    if isinstance(obj, collections.deque)",
           "        return (m, _hashable_iterable(obj, fallback_to_pickle))\n    if isinstance(obj, collections.deque)", ("C15.1-tagged",)),
    Mutant("tp-by-name", F, "tp: type | str = type(obj)", "tp: type | str = type(obj).__name__", ("C15.1-tagged",)),
    Mutant("dict-before-ordereddict", F,
           "    if isinstance(obj, collections.OrderedDict):\n        return (m, tp, _hashable_mapping(obj, fallback_to_pickle))\n",
           "    if isinstance(obj, dict) and not isinstance(obj, collections.defaultdict | collections.Counter):\n        return (m, tp, _hashable_mapping(obj, fallback_to_pickle, sort=True))\n    if isinstance(obj, collections.OrderedDict):\n        return (m, tp, _hashable_mapping(obj, fallback_to_pickle))\n",
           ("C15.2-dispatch",)),
    Mutant("list-sorted", F, "    if isinstance(obj, list | tuple):\n        return (m, tp, _hashable_iterable(obj, fallback_to_pickle))",
           "    if isinstance(obj, list | tuple):\n        return (m, tp, _hashable_iterable(obj, fallback_to_pickle, sort=True))", ("C15.3-order",)),
    Mutant("set-unsorted", F, "return (m, tp, _hashable_iterable(obj, fallback_to_pickle, sort=True))", "return (m, tp, _hashable_iterable(obj, fallback_to_pickle))", ("C15.3-order",)),
    Mutant("dict-unsorted", F, "        return (m, tp, _hashable_mapping(obj, fallback_to_pickle, sort=True))\n    if isinstance(obj, set",
           "        return (m, tp, _hashable_mapping(obj, fallback_to_pickle))\n    if isinstance(obj, set", ("C15.3-order",)),
    Mutant("deque-flat", F, "return (m, tp, (obj.maxlen, _hashable_iterable(obj, fallback_to_pickle)))", "return (m, tp, (obj.maxlen, tuple(obj)))", ("C15.4-recursive",)),
    Mutant("ndarray-original-F25", F,
           "        if obj.dtype.hasobject:  # the elements might be unhashable themselves\n            data = _hashable_iterable(obj.flatten(), fallback_to_pickle)\n        else:\n            data = tuple(obj.flatten())\n        return (m, tp, (obj.shape, obj.dtype.str, data))",
           "        return (m, tp, (obj.shape, obj.dtype.str, tuple(obj.flatten())))", ("C15.4-recursive",), why="original F25"),
    Mutant("iterable-no-recursion", F, "    return tuple(to_hashable(item, fallback_to_pickle) for item in items)", "    return tuple(items)", ("C15.4-recursive",)),
    Mutant("mapping-values-only", F, "return tuple((k, to_hashable(v, fallback_to_pickle)) for k, v in items)", "return tuple(to_hashable(v, fallback_to_pickle) for k, v in items)", ("C15.4-recursive",)),
    Mutant("sorted-original-F24", F, "    items = _sorted(iterable) if sort else iterable", "    items = sorted(iterable) if sort else iterable", ("C15.5-total",), why="original F24"),
    Mutant("ndarray-no-dtype", F, "return (m, tp, (obj.shape, obj.dtype.str, data))", "return (m, tp, (obj.shape, data))", ("C15.6-identity",)),
    Mutant("ndarray-no-shape", F, "return (m, tp, (obj.shape, obj.dtype.str, data))", "return (m, tp, (obj.dtype.str, data))", ("C15.6-identity",)),
    Mutant("series-no-name", F, "return (m, tp, (obj.name, to_hashable(obj.to_dict(), fallback_to_pickle)))", "return (m, tp, to_hashable(obj.to_dict(), fallback_to_pickle))", ("C15.6-identity",)),
    Mutant("key-with-id", F, "            return (m, tp, _cloudpickle_key(obj))", "            return (m, tp, id(obj))", ("C15.7-stable",)),
    Mutant("map-key-no-output-name", "pipefunc/map/_run.py", "cache_key = (func.output_name, to_hashable(kwargs))", "cache_key = to_hashable(kwargs)", ("C15.8-sole",)),
    Mutant("map-key-str", "pipefunc/map/_run.py", "cache_key = (func.output_name, to_hashable(kwargs))", "cache_key = (func.output_name, str(kwargs))", ("C15.8-sole",)),
    Mutant("pipeline-key-raw", "pipefunc/_pipeline/_cache.py", "        key = to_hashable(kwargs[k])\n", "        key = kwargs[k]\n", ("C15.8-sole",)),
    Mutant("ndarray-memory-order", F, "            data = tuple(obj.flatten())\n", "            data = tuple(obj.ravel(order=\"K\"))\n", ("C15.6-identity",), why="seeded C15/1"),
    Mutant("memoize-args-only-key", F, "                    (args, kwargs),\n", "                    (args, kwargs) if kwargs else args,\n", ("C15.8-sole",), why="seeded C15/3"),
    Mutant("twin-rename-marker", F, "    m = _HASH_MARKER\n", "    m = _HASH_MARKER  # marker\n", twin=True),
    Mutant("twin-set-tuple-test", F, "if isinstance(obj, set | frozenset):", "if isinstance(obj, (set, frozenset)):", twin=True),
    Mutant("twin-sorted-helper-inline", F, "    items = list(items)\n    try:\n        return sorted(items, key=key)",
           "    items = list(items)\n    try:\n        result = sorted(items, key=key)\n        return result", twin=True),
]
