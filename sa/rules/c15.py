"""C15 - cache keys identify argument values (structural clauses of `to_hashable` and its users).

  1 tagged     every converted key is `(marker, type, payload)`
  2 dispatch   no class is tested after one of its superclasses in the isinstance chain
  3 order      unordered containers are canonically ordered, order-significant ones are not
  4 recursive  element values are converted recursively unless hashable by construction
  5 total      sorting caller data cannot escape with a TypeError (must be inside the fallback discipline)
  6 identity   natively handled array types are keyed by all identity attributes (lossy projections do not count)
  7 stable     no hash()/id() result flows into a key; DiskCache file names come from pickle bytes + md5
  8 sole       memoize, the map cache and the pipeline cache build keys only through to_hashable/try_to_hashable
"""

from __future__ import annotations

import ast

from ..flow import Defs, Scope, cond, iterations
from ..loader import FuncInfo, dotted, norm, walk_no_nested
from ..report import Ctx
from ..selftest import Mutant

PROP = "C15"
TECHNIQUE = "static analysis: branch-table analysis of to_hashable (dispatch order, tagging, ordering policy, recursion, identity attributes) with helper inlining + key-construction flow rules at every cache use + hash()/id() stability scan + pre-flattening and identity-memo rules + process-independence of key builders and the module constants they use + no-value-projection rule + repr-digest rule + total-order rule for the natural sort (partial orders) + by-value fallback serialiser + one-shot-iterator re-walk rule (CFG reachability + call sites) + lossy numeric projections + sentinel-class-vs-isinstance rule + injective file naming of DiskCache (pickled key, not its text) + starred key-head expansion + reaching-definition sorter roles"
MOD = "pipefunc.cache"
EXPLANATION = (
    "Static analysis of pipefunc.cache.to_hashable: the isinstance dispatch is read into a branch table "
    "(tested types, returned expression) and checked for type tagging, subclass-before-superclass order, the "
    "sort policy per container kind, recursive conversion of children, TypeError-safe ordering, the identity "
    "attributes used for numpy/pandas values and the absence of process-dependent hashes; key construction sites "
    "elsewhere are checked to go through to_hashable."
)
TRUSTED = [
    "CPython ast parser",
    "frozen builtin class hierarchy table (OrderedDict/defaultdict/Counter < dict, bool < int)",
    "frozen identity-attribute table for ndarray / Series / DataFrame (sa/rules/c15.py IDENTITY)",
]
DECLINED = [
    "'equal key iff equal value' as a relation over all pairs of runtime values",
    "pickle determinism of arbitrary objects on the cloudpickle fallback branch",
]

SUBCLASS_OF = {"OrderedDict": "dict", "defaultdict": "dict", "Counter": "dict", "bool": "int"}  # sub -> super, builtins only (frozen table; typeshed says the same)
UNORDERED = {"dict", "set", "frozenset", "defaultdict", "Counter"}
ORDERED = {"list", "tuple", "deque", "OrderedDict"}
# element type hashable by construction: reason
FLAT_OK = {
    "bytearray": "elements are ints",
    "array": "typed array of numbers / unicode characters",
    "Counter": "keys are hashable by the dict contract and counts are numbers",
}
IDENTITY = {  # natively handled third-party types: attributes that decide equality, with the reason
    "ndarray": {"shape": "same data, other shape", "dtype": "same data, other dtype", "flatten|tolist|tobytes|ravel": "the data"},
    "Series": {"name": "Series.name", "index": "labels, their order and duplicates (to_dict() collapses them)", "values|tolist|to_numpy|array|to_dict": "the data"},
    "DataFrame": {"columns|to_dict": "column labels", "index": "row labels (to_dict('list') drops them)", "values|to_numpy|to_dict": "the data"},
}
CONVERTERS = {"to_hashable"}  # + the module functions that apply to_hashable to the elements of their argument (see _roles)
SORTERS = {"sorted"}  # + the module functions whose every return is a sorter's result (see _roles)


def _roles(ctx: Ctx) -> None:
    """Fill CONVERTERS / SORTERS from what the functions of pipefunc.cache do (names are not trusted)."""
    funcs = [f for f in ctx.prog.functions_in(MOD) if f.cls is None]
    conv, sort = {"to_hashable"}, {"sorted"}
    for _ in range(3):
        for f in funcs:
            if f.name in ("to_hashable", "try_to_hashable"):
                continue
            rets = [r.value for r in walk_no_nested(f.node) if isinstance(r, ast.Return) and r.value is not None]
            d_f = Defs(f)

            cfg_f = ctx.cfg(f)
            ret_nodes_f = cfg_f.nodes(lambda s_: isinstance(s_, ast.Return))

            def in_sorted_order(v: ast.AST, _depth: int = 0) -> bool:
                """The value is a sorter's result, or is built by walking ONE sorter's result (an argsort: `[items[i] for i in order]`).
                A local that is re-bound under a condition (`if sort: items = sorted(items)`) is sorted only if EVERY binding
                that reaches the return is."""
                if isinstance(v, ast.Name) and d_f.unique(v.id) is None and ret_nodes_f and _depth < 3:
                    from ..flow import reaching_values

                    rv = reaching_values(cfg_f, v.id, ret_nodes_f[-1])
                    if rv is not None and len(rv) >= 2:
                        return all(in_sorted_order(x_, _depth + 1) for _n, x_ in rv)
                r = d_f.resolve(v)
                if isinstance(r, ast.Call) and _last(dotted(r.func)) in sort:
                    return True
                if isinstance(r, ast.Call) and dotted(r.func) in ("list", "tuple") and len(r.args) == 1:
                    return in_sorted_order(r.args[0])
                if isinstance(r, (ast.ListComp, ast.GeneratorExp)) and len(r.generators) == 1 and not r.generators[0].ifs:
                    return in_sorted_order(r.generators[0].iter)
                return False

            if rets and all(in_sorted_order(v) for v in rets):
                sort.add(f.name)
            # a converter applies a converter inside a comprehension / loop over its argument
            # (a local alias counts: `convert = functools.partial(to_hashable, fallback_to_pickle=...)`)
            local_conv = {t_.id for a_ in walk_no_nested(f.node) if isinstance(a_, ast.Assign) for t_ in a_.targets if isinstance(t_, ast.Name)
                          and ((isinstance(a_.value, ast.Call) and _last(dotted(a_.value.func)) == "partial" and a_.value.args and _last(dotted(a_.value.args[0])) in conv)
                               or (isinstance(a_.value, (ast.Name, ast.Attribute)) and _last(dotted(a_.value)) in conv))}
            if any(isinstance(c, ast.Call) and _last(dotted(c.func)) in conv | local_conv for it in iterations(f.node) for c in ast.walk(it["node"])) and f.params and not f.name.startswith("__"):
                if any("Iterable" in norm(a.annotation) or "Mapping" in norm(a.annotation) or "dict" in norm(a.annotation) for a in f.params if a.annotation is not None):
                    conv.add(f.name)
    # ... or hands its argument to such a function (a helper generator that converts the elements)
    for _ in range(3):
        for f in funcs:
            if f.name in conv or f.name in ("to_hashable", "try_to_hashable"):
                continue
            ps = set(f.param_names())
            if any(isinstance(c, ast.Call) and _last(dotted(c.func)) in conv - {"to_hashable"} and any(isinstance(a, ast.Name) and a.id in ps for a in c.args) for c in ast.walk(f.node)):
                conv.add(f.name)
    CONVERTERS.clear()
    CONVERTERS.update(conv)
    SORTERS.clear()
    SORTERS.update(sort)


def _module_funcs(ctx: Ctx) -> set[str]:
    return {f.name for f in ctx.prog.functions_in(MOD) if f.cls is None}


def _last(name: str) -> str:
    return name.rsplit(".", 1)[-1]


def _types_tested(test: ast.AST) -> list[str]:
    """Class names (last component) of an `isinstance(obj, T)` test (T may be `A | B`, a tuple, or <module>.Y)."""
    out: list[str] = []
    for c in ast.walk(test):
        if isinstance(c, ast.Call) and dotted(c.func) == "isinstance" and len(c.args) == 2:
            parts: list[ast.AST] = []

            def split(x: ast.AST) -> None:
                if isinstance(x, ast.BinOp) and isinstance(x.op, ast.BitOr):
                    split(x.left)
                    split(x.right)
                elif isinstance(x, ast.Tuple):
                    for e in x.elts:
                        split(e)
                else:
                    parts.append(x)

            split(c.args[1])
            for p in parts:
                name = dotted(p)
                if not name and isinstance(p, ast.Attribute):
                    name = p.attr  # sys.modules["numpy"].ndarray
                out.append(_last(name))
    return out


def _flat_branches(fn_node: ast.FunctionDef, cap: int = 120) -> list[tuple[list[str], ast.Return, ast.If]] | None:
    """The dispatch of the function as a FLAT decision list, whatever its nesting: every path through the type tests that ends in a
    return becomes one synthetic `if isinstance(obj, <innermost type>): <assignments on the path>; return <value>`.

    Nested dispatch (`if isinstance(obj, dict): if isinstance(obj, OrderedDict): p = ...  elif ...: p = ...; return (m, tp, p)`) and merged
    arms whose behaviour is selected by a flag computed from the type (`unordered = isinstance(obj, (set, frozenset))`) are thereby
    read like the plain if-chain; merged arms are split per type with the flag evaluated for that type.  None: not enumerable."""
    import copy

    paths: list[tuple[list[tuple[ast.AST, bool]], list[ast.stmt], ast.Return]] = []

    def walk(stmts: list[ast.stmt], conds: list[tuple[ast.AST, bool]], assigns: list[ast.stmt]) -> bool:
        for i, st in enumerate(stmts):
            if len(paths) > cap:
                return False
            if isinstance(st, ast.Return):
                paths.append((conds, assigns, st))
                return True
            if isinstance(st, ast.Raise):
                return True
            if isinstance(st, ast.If) and _types_tested(st.test):
                rest = stmts[i + 1:]
                ok1 = walk([*st.body, *rest], [*conds, (st.test, True)], list(assigns))
                ok2 = walk([*st.orelse, *rest], [*conds, (st.test, False)], list(assigns))
                return ok1 and ok2
            if isinstance(st, ast.If) and not any(isinstance(x, (ast.Return, ast.Raise)) or (isinstance(x, ast.If) and _types_tested(x.test)) for x in ast.walk(st) if x is not st):
                assigns = [*assigns, st]  # a local decision that neither dispatches nor leaves (`if obj.dtype.hasobject: data = ... else: data = ...`): kept whole
                continue
            if isinstance(st, ast.If):
                # a non-type test (`if "numpy" in sys.modules`, `if fallback_to_pickle`): both arms, the test itself is not a dispatch step
                rest = stmts[i + 1:]
                ok1 = walk([*st.body, *rest], conds, list(assigns))
                ok2 = walk([*st.orelse, *rest], conds, list(assigns))
                return ok1 and ok2
            if isinstance(st, ast.Try) and not any(isinstance(x, ast.Return) or (isinstance(x, ast.If) and _types_tested(x.test)) for x in ast.walk(st)):
                assigns = [*assigns, st]  # computes a local (the type tag) - no dispatch, no exit
                continue
            if isinstance(st, ast.Try):
                rest = stmts[i + 1:]
                ok1 = walk([*st.body, *st.orelse, *rest], conds, list(assigns))
                ok2 = all(walk([*h.body, *rest], conds, list(assigns)) for h in st.handlers)
                return ok1 and ok2
            assigns = [*assigns, st]
        return True

    if not walk(fn_node.body, [], []) or not paths:
        return None
    out: list[tuple[list[str], ast.Return, ast.If]] = []
    seen_keys: set[str] = set()
    for conds, assigns, ret in paths:
        pos = [t for t, pol in conds if pol]
        if not pos or ret.value is None:
            continue
        types = _types_tested(pos[-1])
        excluded = {x for t, pol in conds if not pol for x in _types_tested(t)}
        types = [t for t in types if t not in excluded] or types
        # flags computed from the type on this path: name -> the isinstance test
        flags = {a.targets[0].id: a.value for a in assigns if isinstance(a, ast.Assign) and len(a.targets) == 1 and isinstance(a.targets[0], ast.Name) and isinstance(a.value, ast.Call)
                 and dotted(a.value.func) == "isinstance"}
        groups = [[t] for t in types] if flags and len(types) > 1 else [types]
        for g in groups:
            body = [copy.deepcopy(a) for a in assigns if not (isinstance(a, ast.Assign) and len(a.targets) == 1 and isinstance(a.targets[0], ast.Name) and a.targets[0].id in flags)]
            body = [ast.copy_location(ast.Assign(targets=[b.target], value=b.value), b) if isinstance(b, ast.AnnAssign) and b.value is not None else b for b in body]  # `p: Any = v` is `p = v`
            r2 = copy.deepcopy(ret)
            if flags and len(g) == 1:
                consts = {nm: (g[0] in _types_tested(v) or SUBCLASS_OF.get(g[0]) in _types_tested(v)) for nm, v in flags.items()}

                class Sub(ast.NodeTransformer):
                    def visit_Name(self, node: ast.Name):  # noqa: N802
                        if isinstance(node.ctx, ast.Load) and node.id in consts:
                            return ast.copy_location(ast.Constant(value=consts[node.id]), node)
                        return node

                r2 = Sub().visit(r2)
                body = [Sub().visit(b) for b in body]
            key = ",".join(g) + "|" + norm(r2) + "|" + ";".join(norm(b) for b in body if isinstance(b, ast.Assign))
            if key in seen_keys:
                continue
            seen_keys.add(key)
            test = ast.Call(func=ast.Name(id="isinstance", ctx=ast.Load()), args=[ast.Name(id="obj", ctx=ast.Load()), ast.Tuple(elts=[ast.Name(id=t, ctx=ast.Load()) for t in g], ctx=ast.Load())], keywords=[])
            syn = ast.If(test=test, body=[*body, r2], orelse=[])
            ast.copy_location(syn, ret)
            ast.fix_missing_locations(syn)
            for x in ast.walk(syn):
                if not hasattr(x, "lineno"):
                    x.lineno, x.col_offset = ret.lineno, ret.col_offset  # type: ignore[attr-defined]
            out.append((g, r2, syn))
    return out or None


def _branches(fn_node: ast.FunctionDef) -> list[tuple[list[str], ast.Return, ast.If]]:
    flat = _flat_branches(fn_node)
    if flat is not None:
        return flat
    out: list[tuple[list[str], ast.Return, ast.If]] = []

    def visit(body: list[ast.stmt]) -> None:
        for st in body:
            if isinstance(st, ast.If):
                types = _types_tested(st.test)
                if types:
                    for r in [r for r in ast.walk(st) if isinstance(r, ast.Return)]:
                        out.append((types, r, st))
                else:
                    visit(st.body)
                    visit(st.orelse)

    visit(fn_node.body)
    return out


def _calls(node: ast.AST, names: set[str]) -> list[ast.Call]:
    return [c for c in ast.walk(node) if isinstance(c, ast.Call) and _last(dotted(c.func)) in names]


class _Rename(ast.NodeTransformer):
    def __init__(self, mapping: dict[str, str]) -> None:
        self.mapping = mapping

    def visit_Name(self, node: ast.Name):  # noqa: N802
        return ast.copy_location(ast.Name(id=self.mapping.get(node.id, node.id), ctx=node.ctx), node)


def _payload(ctx: Ctx, fn: FuncInfo, ret: ast.Return, if_node: ast.If) -> tuple[list[ast.AST], list[ast.AST]]:
    """(expressions that make up the key of this branch, statement regions they live in).

    The returned expression, the definitions (inside the branch) of the local names it uses, and - when the payload is
    computed by a private helper of the module that receives `obj` - the helper's body with its parameter renamed to `obj`.
    """
    import copy

    exprs: list[ast.AST] = [ret.value] if ret.value is not None else []
    regions: list[ast.AST] = [if_node]
    names = {n.id for n in ast.walk(ret) if isinstance(n, ast.Name)}
    for _ in range(2):
        for st in ast.walk(if_node):
            if isinstance(st, ast.Assign) and any(isinstance(t, ast.Name) and t.id in names for t in st.targets) and st.value not in exprs:
                exprs.append(st.value)
                names |= {n.id for n in ast.walk(st.value) if isinstance(n, ast.Name)}
    for e in list(exprs):
        for c in [c for c in ast.walk(e) if isinstance(c, ast.Call)]:
            name = _last(dotted(c.func))
            if name in CONVERTERS or name in SORTERS or name.endswith("_key") or not any(isinstance(a, ast.Name) and a.id == "obj" for a in c.args):
                continue
            for callee in ctx.cg.resolve_callable(fn, c.func):
                if callee.module.name != fn.module.name:
                    continue
                ps = callee.param_names()
                mapping = {ps[i]: "obj" for i, a in enumerate(c.args) if isinstance(a, ast.Name) and a.id == "obj" and i < len(ps)}
                body = _Rename(mapping).visit(copy.deepcopy(callee.node))
                regions.append(body)
                for st in ast.walk(body):
                    if isinstance(st, ast.Return) and st.value is not None:
                        exprs.append(st.value)
                    elif isinstance(st, ast.Assign):
                        exprs.append(st.value)
    return exprs, regions


def _type_valued(ctx: Ctx, fn: FuncInfo, e: ast.AST, depth: int = 7) -> bool:
    """`e` can be exactly `type(obj)` (possibly through locals or a private helper that returns type(<its parameter>))."""
    if depth == 0:
        return False
    if isinstance(e, ast.Call) and dotted(e.func) == "type" and len(e.args) == 1:
        return True
    if isinstance(e, ast.IfExp):  # `type(obj) if <hashable> else type(obj).__name__`
        return _type_valued(ctx, fn, e.body, depth - 1) or _type_valued(ctx, fn, e.orelse, depth - 1)
    if isinstance(e, ast.Name):
        defs = [s.value for s in walk_no_nested(fn.node) if isinstance(s, (ast.Assign, ast.AnnAssign)) and s.value is not None
                and e.id in {getattr(t, "id", None) for t in (s.targets if isinstance(s, ast.Assign) else [s.target])}]
        return any(_type_valued(ctx, fn, d, depth - 1) for d in defs)
    if isinstance(e, ast.Call):
        for callee in ctx.cg.resolve_callable(fn, e.func):
            if callee.module.name == fn.module.name:
                return any(_type_valued(ctx, callee, r.value, depth - 1) for r in ast.walk(callee.node) if isinstance(r, ast.Return) and r.value is not None)
    return False


def _callable_text(ctx: Ctx, fn: FuncInfo, e: ast.AST) -> str:
    if isinstance(e, ast.Lambda):
        return norm(e)
    if isinstance(e, ast.Name):
        if e.id in fn.nested:
            return norm(fn.nested[e.id].node)
        for callee in ctx.cg.resolve_callable(fn, e):
            return norm(callee.node)
    return norm(e)


def _to_hashable_facts(ctx: Ctx):
    fn = ctx.prog.func(f"{MOD}.to_hashable")
    return fn, _branches(fn.node)


def rule_tagged(ctx: Ctx) -> None:
    fn, branches = _to_hashable_facts(ctx)
    ctx.floor("branches", len(branches), 11)
    d = Defs(fn)
    params = set(fn.param_names())
    n = 0
    for r in [r for r in walk_no_nested(fn.node) if isinstance(r, ast.Return) and r.value is not None]:
        if isinstance(r.value, ast.Name) and r.value.id in params:
            continue  # hashable as is
        n += 1
        v = r.value
        if not isinstance(v, ast.Tuple):
            ctx.add("1-tagged", fn, r, None, "UNDECIDED: the returned key is not a tuple literal", key="tag " + norm(v)[:60])
            continue
        # `(*head, payload)` with `head = (marker, type)` (possibly re-bound on another path): every alternative is examined
        alts: list[list[ast.AST]] | None = [[]]
        for e_ in v.elts:
            if not isinstance(e_, ast.Starred):
                alts = [a_ + [e_] for a_ in alts] if alts is not None else None
                continue
            defs_ = [a_.value for a_ in walk_no_nested(fn.node) if isinstance(a_, (ast.Assign, ast.AnnAssign)) and a_.value is not None and isinstance(e_.value, ast.Name)
                     and any(isinstance(t_, ast.Name) and t_.id == e_.value.id for t_ in (a_.targets if isinstance(a_, ast.Assign) else [a_.target]))]
            if not defs_ or not all(isinstance(x_, ast.Tuple) and not any(isinstance(y_, ast.Starred) for y_ in x_.elts) for x_ in defs_) or alts is None:
                alts = None
                continue
            alts = [a_ + list(x_.elts) for a_ in alts for x_ in defs_]
        if alts is None:
            ctx.add("1-tagged", fn, r, None, "UNDECIDED: the returned key splats something this rule cannot expand", key="tag " + norm(v)[:60])
            continue
        marker = all(len(a_) >= 1 and "_HASH_MARKER" in norm(d.resolve(a_[0])) for a_ in alts)
        # the second component is the type itself, or (where the type cannot be hashed) its name
        typed = all(len(a_) == 3 and (_type_valued(ctx, fn, a_[1]) or (isinstance(a_[1], ast.Attribute) and a_[1].attr in ("__name__", "__qualname__") and _type_valued(ctx, fn, a_[1].value))) for a_ in alts)
        ctx.tri("1-tagged", fn, r, marker and typed, any(len(a_) != 3 for a_ in alts) or not typed, "key is (marker, type(obj), payload)",
                "converted key is not tagged with the marker and the exact type of the value: look-alike values of different types collide", key="tag " + norm(v)[:60])
    ctx.floor("1-tagged", n, 12)


def rule_dispatch(ctx: Ctx) -> None:
    fn, branches = _to_hashable_facts(ctx)
    order: list[str] = []
    for types, _r, _i in branches:
        for t in types:
            if t not in order:
                order.append(t)
    n2 = 0
    for sub, sup in SUBCLASS_OF.items():
        if sub in order and sup in order:
            n2 += 1
            ok = order.index(sub) < order.index(sup)
            node = next(i for ts, _r, i in branches if sub in ts)
            ctx.add("2-dispatch", fn, node, ok, f"`{sub}` is tested before its superclass `{sup}`" if ok else f"`{sup}` is tested before its subclass `{sub}`: {sub} values are keyed as plain {sup}", key=f"{sub}<{sup}")
    ctx.floor("2-dispatch", n2, 3)
    for sub, sup in SUBCLASS_OF.items():
        if sub in ORDERED and sup in UNORDERED and sup in order:
            ctx.add("2-dispatch", fn, fn.node, sub in order, f"order-significant `{sub}` has its own branch (it is a subclass of the sorted `{sup}`)" if sub in order else
                    f"`{sub}` has no branch of its own and falls into the `{sup}` branch, whose entries are sorted: two {sub} values that differ only in order get the same key", key=f"own-branch {sub}")


def rule_total_order(ctx: Ctx) -> None:
    """The canonical order of an unordered container must be TOTAL.  `sorted()` by the elements' own `<` is canonical only for
    totally ordered types; `<` on sets is the subset relation - a partial order for which sorted() raises nothing and returns an
    order that depends on the order of its input.  A sorter that tries the natural order first therefore has to replace set-like
    keys by a totally ordered stand-in (their sorted elements) before it compares them."""
    n = 0
    for f in [x for x in ctx.prog.functions_in(MOD) if x.cls is None and x.name in SORTERS]:
        par = {id(c): p_ for p_ in ast.walk(f.node) for c in ast.iter_child_nodes(p_)}
        for c in [c for c in walk_no_nested(f.node) if isinstance(c, ast.Call) and dotted(c.func) == "sorted"]:
            # the natural attempt: inside a try whose handler catches TypeError
            x: ast.AST = c
            natural = False
            while id(x) in par:
                child, x = x, par[id(x)]
                if isinstance(x, ast.Try) and child in x.body and any(h.type is not None and "TypeError" in norm(h.type) for h in x.handlers):
                    natural = True
            if not natural:
                continue
            n += 1
            k = next((kw.value for kw in c.keywords if kw.arg == "key"), None)
            pkey = {p_ for p_ in f.param_names()}
            raw = k is None or (isinstance(k, ast.Name) and k.id in pkey)
            if isinstance(k, ast.Lambda):
                # lambda x: key(x)  /  lambda x: x   - still the element's own order
                body = k.body
                raw = isinstance(body, ast.Name) or (isinstance(body, ast.Call) and isinstance(body.func, ast.Name) and body.func.id in pkey and len(body.args) == 1 and isinstance(body.args[0], ast.Name))
            handles_sets = False
            if k is not None and not raw:
                for call in [y for y in ast.walk(k) if isinstance(y, ast.Call)]:
                    for callee in ctx.cg.resolve_callable(f, call.func):
                        if any(isinstance(t, ast.Call) and dotted(t.func) == "isinstance" and len(t.args) == 2 and any(w in norm(t.args[1]) for w in ("set", "Set")) for t in ast.walk(callee.node)):
                            handles_sets = True
            ctx.tri("3-order", f, c, handles_sets, raw, f"`{norm(c)[:50]}`: set-like keys are replaced by a totally ordered stand-in before the natural sort",
                    f"`{norm(c)[:60]}` orders the keys by their own `<` and only falls back when that RAISES: `<` on (frozen)sets is the subset relation, a partial order - no exception, and the result depends on the input order. "
                    "Equal dicts / sets whose keys are frozensets get different cache keys depending on the order they were built in", f"sort key `{norm(k)[:40] if k is not None else ''}` not recognised", key=f"total-order {f.name}")
    if not n:
        ctx.add("3-order", MOD, "", True, "no sorter tries the elements' natural order first", key="total-order-scan")


def rule_no_one_shot_reuse(ctx: Ctx) -> None:
    """A generator can be walked ONCE.  A helper that walks its argument a second time (the fallback sort after the first sort
    raised TypeError half-way) sees nothing the second time if a caller hands it a generator: every dict with keys that cannot be
    ordered gets the key of the empty dict."""
    from ..flow import bind_args

    CONSUME = {"sorted", "list", "tuple", "set", "frozenset", "min", "max", "sum", "dict", "enumerate", "zip", "map", "filter", "any", "all", "next", "iter"}
    funcs = [f for f in ctx.prog.functions_in(MOD) if f.cls is None]
    n = 0
    for f in funcs:
        cfg = None
        for p_ in f.param_names():
            uses = []
            for x in walk_no_nested(f.node):
                if isinstance(x, ast.Call) and dotted(x.func) in CONSUME and x.args and isinstance(x.args[0], ast.Name) and x.args[0].id == p_:
                    uses.append(x)
                elif isinstance(x, (ast.For, ast.comprehension)) and isinstance(x.iter, ast.Name) and x.iter.id == p_:
                    uses.append(x.iter)
            if len(uses) < 2:
                continue
            cfg = cfg or ctx.cfg(f)
            nodes = [cfg.node_containing(u) for u in uses]
            if any(nd is None for nd in nodes):
                continue
            # a rebinding to a materialised copy ahead of every use makes re-walking harmless
            copies = [nd for nd in cfg.nodes() if isinstance(cfg.stmt[nd], ast.Assign) and any(isinstance(t, ast.Name) and t.id == p_ for t in cfg.stmt[nd].targets)
                      and isinstance(cfg.stmt[nd].value, ast.Call) and dotted(cfg.stmt[nd].value.func) in ("list", "tuple", "sorted", "set", "frozenset", "dict") and cfg.stmt[nd].value.args
                      and isinstance(cfg.stmt[nd].value.args[0], ast.Name) and cfg.stmt[nd].value.args[0].id == p_]
            pairs = [(a, b) for i, a in enumerate(nodes) for j, b in enumerate(nodes) if i != j and a != b and b in cfg.reachable_from(a)]
            pairs = [(a, b) for a, b in pairs if not any(cfg.dominates(c_, a) and c_ != a for c_ in copies)]
            if not pairs:
                continue
            n += 1
            one_shot = []
            for site in ctx.cg.call_sites_of(f.qualname):
                a_ = bind_args(site.node, f).get(p_)
                r_ = Defs(site.caller).resolve(a_) if a_ is not None else None
                if isinstance(r_, ast.GeneratorExp) or (isinstance(r_, ast.Call) and dotted(r_.func) in ("map", "filter", "zip", "iter", "reversed", "enumerate")):
                    one_shot.append((site, r_))
                elif isinstance(r_, ast.Call):
                    for callee in ctx.cg.resolve_callable(site.caller, r_.func):
                        if any(isinstance(y, (ast.Yield, ast.YieldFrom)) for y in walk_no_nested(callee.node)):
                            one_shot.append((site, r_))
            ctx.add("3-order", one_shot[0][0].caller if one_shot else f, one_shot[0][0].node if one_shot else f.node, not one_shot, f"{f.name} walks `{p_}` more than once; every caller passes something that can be walked again" if not one_shot else
                    f"`{norm(one_shot[0][0].node)[:60]}` hands {f.name} a one-shot iterator (`{norm(one_shot[0][1])[:40]}`), and {f.name} walks `{p_}` again at line {cfg.stmt[pairs[0][1]].lineno} after line {cfg.stmt[pairs[0][0]].lineno} "
                    "(the fallback after a failed sort): the second walk finds it exhausted - all values whose elements cannot be ordered get the key of the EMPTY container", key=f"one-shot {f.name}.{p_}")
    ctx.add("3-order", MOD, "", True, f"{n} helper parameter(s) that are walked more than once examined", key="one-shot-scan")


def rule_order_and_recursion(ctx: Ctx) -> None:  # noqa: C901, PLR0912
    fn, branches = _to_hashable_facts(ctx)
    n3 = n4 = 0
    for types, ret, if_node in branches:
        exprs, regions = _payload(ctx, fn, ret, if_node)
        sorted_here = any(_calls(e, SORTERS) for e in exprs) or any(
            any(k.arg == "sort" and isinstance(k.value, ast.Constant) and k.value.value is True for k in c.keywords)
            for e in exprs for c in _calls(e, CONVERTERS))
        for t in types:
            if t in UNORDERED:
                n3 += 1
                # a violation needs complete visibility: every function of the module that the payload goes through is classified
                opaque = [c for e in exprs for c in ast.walk(e) if isinstance(c, ast.Call) and isinstance(c.func, ast.Name) and c.func.id in _module_funcs(ctx) and c.func.id not in CONVERTERS | SORTERS]
                ctx.tri("3-order", fn, ret, sorted_here, not sorted_here and not opaque, f"unordered `{t}` is canonically ordered", f"unordered `{t}` is keyed in iteration order: equal values get different keys",
                        f"`{t}` goes through `{opaque[0].func.id if opaque else ''}`, which is neither a recognised sorter nor converter", key=f"order {t}")
            elif t in ORDERED:
                n3 += 1
                ctx.add("3-order", fn, ret, not sorted_here, f"order-significant `{t}` keeps its order" if not sorted_here else f"order-significant `{t}` is sorted: values differing in order collide", key=f"order {t}")
        for t in types:
            if t in ("ndarray", "Series", "DataFrame"):
                continue
            n4 += 1
            converted = any(_calls(e, CONVERTERS) for e in exprs)
            if t in FLAT_OK:
                ctx.add("4-recursive", fn, ret, True, f"`{t}` payload embedded flat: {FLAT_OK[t]}", key=f"rec {t}")
            else:
                ctx.add("4-recursive", fn, ret, converted, f"`{t}` elements are converted recursively" if converted else f"`{t}` elements are embedded unconverted: nested unhashable values make the key unhashable", key=f"rec {t}")
        if "ndarray" in types:
            n4 += 1
            dfn = Defs(fn)
            def embeds_flat(a: ast.AST) -> bool:
                """tuple(<the flattened array itself>) - not tuple(<converter applied to each element of it>)."""
                r = dfn.resolve(a)
                if isinstance(r, (ast.GeneratorExp, ast.ListComp)):
                    return not _calls(r.elt, CONVERTERS) and any(w in norm(r) for w in ("flatten", "ravel", "flat", "tolist"))
                return any(w in norm(r) for w in ("flatten", "ravel", "flat", "tolist")) and not _calls(r, CONVERTERS)

            flat = [c for e in exprs for c in ast.walk(e) if isinstance(c, ast.Call) and dotted(c.func) in ("tuple", "list") and c.args and embeds_flat(c.args[0])]
            # the raw buffer of an object array holds pointers, not values
            flat += [c for e in exprs for c in ast.walk(e) if isinstance(c, ast.Call) and isinstance(c.func, ast.Attribute) and c.func.attr in ("tobytes", "tostring", "view") and norm(dfn.resolve(c.func.value)).split(".")[0] == "obj"]
            unguarded = []
            for c in flat:
                g = False
                for region in regions:
                    for inner in ast.walk(region):
                        if isinstance(inner, (ast.If, ast.IfExp)) and ("hasobject" in norm(dfn.resolve(inner.test)) or "dtype == object" in norm(dfn.resolve(inner.test))):
                            _t, pol = cond(dfn.resolve(inner.test))
                            body = inner.body if isinstance(inner.body, list) else [inner.body]
                            orelse = inner.orelse if isinstance(inner.orelse, list) else [inner.orelse]
                            safe_arm = orelse if pol else body
                            if any(x is c for st in safe_arm for x in ast.walk(st)):
                                g = True
                if not g:
                    unguarded.append(c)
            converted = any(_calls(e, CONVERTERS) for e in exprs)
            ctx.tri("4-recursive", fn, unguarded[0] if unguarded else ret, converted and not unguarded, bool(unguarded),
                    "ndarray elements: flat only for non-object dtypes, converted otherwise",
                    f"`{norm(unguarded[0]) if unguarded else ''}` embeds ndarray elements unconverted also for object arrays (lists/dicts inside make the key unhashable)",
                    "ndarray element handling not recognised", key="rec ndarray")
    helpers = [f for f in ctx.prog.functions_in(MOD) if f.cls is None and f.name in CONVERTERS and f.name != "to_hashable"]
    for h in helpers:
        n4 += 1
        ctx.add("4-recursive", h, h.node, True, f"{h.name} applies to_hashable to each element", key=f"def {h.name}")
    maps = [h for h in helpers if any(isinstance(it["target"], ast.Tuple) and len(it["target"].elts) == 2 for it in iterations(h.node))]
    if not maps:
        ctx.add("4-recursive", fn, fn.node, None, "UNDECIDED: no helper converting the values of a mapping was found", key="mapping keeps keys")
        ctx.floor("3-order", n3, 9)
        ctx.floor("4-recursive", n4, 10)
        return
    mp = maps[0]
    its = [it for it in iterations(mp.node) if isinstance(it["target"], ast.Tuple) and len(it["target"].elts) == 2]
    gens = [it for it in its if it["kind"] == "comp" and isinstance(getattr(it["node"], "elt", None), ast.Tuple)]
    if gens:
        it = gens[0]
        kname = getattr(it["target"].elts[0], "id", None)
        keeps = any(isinstance(e, ast.Name) and e.id == kname for e in it["node"].elt.elts)
        ctx.add("4-recursive", mp, it["node"], keeps, "mapping keys are kept next to their converted values" if keeps else "mapping keys are dropped from the key: mappings with equal values collide", key="mapping keeps keys")
    else:
        from ..flow import dependence_text

        def uses_key(it: dict) -> bool:
            return any(isinstance(x, ast.Name) and x.id == getattr(it["target"].elts[0], "id", None) for x in ast.walk(getattr(it["node"], "elt", it["node"])))

        comps = [it for it in its if it["kind"] == "comp"]
        drops = [it for it in comps if not uses_key(it)]
        # keys and converted values may be taken apart and zipped together again: the keys are kept when SOME comprehension over
        # the pairs yields them and the returned value is computed from it
        rets = [r.value for r in walk_no_nested(mp.node) if isinstance(r, ast.Return) and r.value is not None]
        dep = " ".join(dependence_text(mp.node, r) for r in rets)
        kept = [it for it in comps if uses_key(it) and norm(it["node"]) in dep]
        ctx.tri("4-recursive", mp, (drops[0]["node"] if drops else mp.node), bool(kept), bool(drops) and not [it for it in comps if uses_key(it)], "mapping keys are kept next to their converted values",
                "mapping keys are dropped from the key: mappings with equal values collide", "pairing of keys and converted values not recognised", key="mapping keeps keys")
    ctx.floor("3-order", n3, 9)
    ctx.floor("4-recursive", n4, 10)


FLATTENERS = {"asdict": "dataclasses.asdict turns NESTED dataclass instances into plain dicts", "astuple": "dataclasses.astuple turns NESTED dataclass instances into plain tuples",
              "dumps": "a JSON/str dump drops the types of the nested values", "vars": "vars() of the object drops its type"}


def rule_no_preflattening(ctx: Ctx) -> None:
    """Nested values reach to_hashable as they are: nothing flattens them first.

    Rule 1 tags every converted value with its exact type; that only covers nested values if the recursion sees them
    unconverted.  A recursive flattener (dataclasses.asdict / astuple, a JSON dump) applied to the object before to_hashable
    erases the classes of the nested values, so objects that differ only in a nested class get one key."""
    fn = ctx.prog.func(f"{MOD}.to_hashable")
    hits = []
    for c in [c for c in ast.walk(fn.node) if isinstance(c, ast.Call) and _last(dotted(c.func)) in CONVERTERS]:
        for a in c.args[:1]:
            for inner in [x for x in ast.walk(Defs(fn).resolve(a)) if isinstance(x, ast.Call) and _last(dotted(x.func)) in FLATTENERS and "cloudpickle" not in dotted(x.func) and "pickle" not in dotted(x.func)]:
                hits.append((c, inner))
    if hits:
        for c, inner in hits:
            ctx.add("4-recursive", fn, inner, False, f"`{norm(inner)[:50]}` flattens the object before to_hashable sees its parts ({FLATTENERS[_last(dotted(inner.func))]}): values that differ only in the class of a nested part get the same key", key=f"preflatten {_last(dotted(inner.func))}")
    else:
        ctx.add("4-recursive", fn, fn.node, True, "no recursive flattener (asdict / astuple / dumps / vars) feeds to_hashable", key="preflatten")


def rule_total(ctx: Ctx) -> None:
    fn, _b = _to_hashable_facts(ctx)
    n5 = 0
    funcs = [fn, *[x for x in ctx.prog.functions_in(MOD) if x.cls is None and x.name in (CONVERTERS | SORTERS) - {"to_hashable"}]]
    for f in funcs:
        par = {id(c): p for p in ast.walk(f.node) for c in ast.iter_child_nodes(p)}
        for c in [c for c in walk_no_nested(f.node) if isinstance(c, ast.Call) and dotted(c.func) == "sorted"]:
            n5 += 1
            x: ast.AST = c
            safe = in_handler = False
            while id(x) in par:
                child, x = x, par[id(x)]
                if isinstance(x, ast.ExceptHandler):
                    in_handler = True
                if isinstance(x, ast.Try) and child in x.body and any(h.type is None or "TypeError" in ast.unparse(h.type) or dotted(h.type) == "Exception" for h in x.handlers):
                    safe = True
            undecided = False
            if in_handler and not safe:
                # the fallback itself: must sort by a key that is totally ordered (strings / tuples of strings)
                keyk = [k.value for k in c.keywords if k.arg == "key"]
                ktxt = _callable_text(ctx, f, keyk[0]) if keyk else ""
                safe = "repr(" in ktxt or "str(" in ktxt
                undecided = bool(keyk) and not safe
            ctx.tri("5-total", f, c, safe, not safe and not undecided, "sorting is protected against incomparable items",
                    "sorted() over caller data can raise TypeError for mutually incomparable items (e.g. {1, 'a'}) instead of producing a key", "fallback sort key not recognised", key=f"sorted in {f.name}{' (fallback)' if in_handler else ''}")
    ctx.floor("5-total", n5, 1)


def rule_identity(ctx: Ctx) -> None:
    fn, branches = _to_hashable_facts(ctx)
    n6 = 0
    for types, ret, if_node in branches:
        for t in types:
            if t not in IDENTITY:
                continue
            exprs, _regions = _payload(ctx, fn, ret, if_node)
            attrs_used = {a.attr for e in exprs for a in ast.walk(e) if isinstance(a, ast.Attribute) and isinstance(a.value, ast.Name) and a.value.id == "obj"}
            for alts, why in IDENTITY[t].items():
                n6 += 1
                used = any(a in attrs_used for a in alts.split("|"))
                lossy = " (to_dict() keys lose order and duplicate labels)" if t == "Series" and alts == "index" and not used else ""
                # how the labels are (half) represented is part of the finding's identity: dropping them altogether is a different defect
                how = " (to_dict)" if not used and "to_dict" in attrs_used else ""
                ctx.add("6-identity", fn, ret, used, f"{t}: key includes `{alts}`" if used else f"{t}: key does not include `{alts}` - {why}{lossy}", key=f"{t}.{alts}{how}")
            for e in exprs:
                for c in [c for c in ast.walk(e) if isinstance(c, ast.Call) and isinstance(c.func, ast.Attribute) and c.func.attr in ("flatten", "ravel", "tobytes", "tolist", "reshape") and norm(c.func.value) == "obj"]:
                    bad_order = [k for k in c.keywords if k.arg == "order" and not (isinstance(k.value, ast.Constant) and k.value.value == "C")]
                    n6 += 1
                    ctx.add("6-identity", fn, c, not bad_order, f"`{norm(c)}` flattens in logical (C) order" if not bad_order else
                            f"`{norm(c)}` flattens in memory order: arrays with equal shape/dtype but different content (a transposed view) get the same key, equal C- and F-ordered arrays different ones", key=f"flatten-order {norm(c)[:40]}")
    ctx.floor("6-identity", n6, 9)


LOSSY_NUMERIC = {"nan_to_num", "clip", "round", "around", "round_", "rint", "floor", "ceil", "trunc", "fix", "fabs", "absolute", "sign", "unique", "nanmax", "nanmin"}


def rule_sentinel_is_compared_by_identity(ctx: Ctx) -> None:
    """try_to_hashable reports "no key" by returning the CLASS UnhashableError itself.  `isinstance(key, UnhashableError)` is False
    for the class object: the test never fires and the class becomes part of the key - every value that cannot be keyed gets the
    SAME key.  The sentinel has to be compared with `is`."""
    P = ctx.prog
    tth = P.functions.get(f"{MOD}.try_to_hashable")
    if tth is None:
        ctx.add("6-identity", MOD, "", None, "UNDECIDED: try_to_hashable not found", key="sentinel-by-identity")
        return
    sentinels = {r.value.id for r in walk_no_nested(tth.node) if isinstance(r, ast.Return) and isinstance(r.value, ast.Name) and P.resolve_name(tth.module, r.value.id, tth) in P.classes}
    bad = []
    n = 0
    for f in P.functions.values():
        if not f.module.name.startswith("pipefunc"):
            continue
        results = {t.id for a_ in walk_no_nested(f.node) if isinstance(a_, ast.Assign) and isinstance(a_.value, ast.Call) and dotted(a_.value.func).rsplit(".", 1)[-1] == "try_to_hashable" for t in a_.targets if isinstance(t, ast.Name)}
        for c in walk_no_nested(f.node):
            if isinstance(c, ast.Call) and dotted(c.func) == "isinstance" and len(c.args) == 2 and isinstance(c.args[0], ast.Name) and c.args[0].id in results:
                n += 1
                if any(isinstance(x, ast.Name) and x.id in sentinels for x in ast.walk(c.args[1])):
                    bad.append((f, c))
    ctx.add("6-identity", bad[0][0] if bad else tth, bad[0][1] if bad else tth.node, not bad, f"the 'cannot be keyed' sentinel ({sorted(sentinels)}) is never tested with isinstance" if not bad else
            f"`{norm(bad[0][1])}`: try_to_hashable returns the class `{sorted(sentinels)[0]}` ITSELF as its sentinel, and isinstance(<class>, <class>) is False - the test never fires, the sentinel is used as the key, "
            "and all values that cannot be keyed share one cache entry (the result stored for Job(1) is returned for Job(2))", key="sentinel-by-identity")


def rule_no_value_projection(ctx: Ctx) -> None:
    """The payload of a key is built from the value ITSELF.  An arithmetic projection of it first (`+counter` drops zero AND negative
    counts, `abs(x)`, `-x`, `x % n`, `round(x)`) maps unequal values to one key."""
    fn, _b = _to_hashable_facts(ctx)
    proj = []
    for f_ in Scope(ctx, fn, wide=True).funcs:
        p0 = (f_.param_names() or ["obj"])[0]
        for n_ in ast.walk(f_.node):
            if isinstance(n_, ast.UnaryOp) and isinstance(n_.op, (ast.UAdd, ast.USub, ast.Invert)) and isinstance(n_.operand, ast.Name) and n_.operand.id == p0:
                proj.append((f_, n_))
            if isinstance(n_, ast.Call) and dotted(n_.func) in ("abs", "round", "int", "float", "bool") and n_.args and isinstance(n_.args[0], ast.Name) and n_.args[0].id == p0 and f_ is fn:
                proj.append((f_, n_))
        # numeric normalisers are many-to-one as well: nan_to_num maps NaN to 0.0 and inf to the largest float, clip / round / ...
        d_ = Defs(f_)
        for n_ in ast.walk(f_.node):
            if isinstance(n_, ast.Call) and (dotted(n_.func) or getattr(n_.func, "attr", "")).rsplit(".", 1)[-1] in LOSSY_NUMERIC:
                operands = list(n_.args[:1]) + ([n_.func.value] if isinstance(n_.func, ast.Attribute) and not dotted(n_.func).startswith(("np.", "numpy.", "math.")) else [])
                if isinstance(n_.func, ast.Attribute) and not n_.args:
                    operands = [n_.func.value]
                def from_value(o: ast.AST) -> bool:
                    if any(isinstance(x, ast.Name) and x.id == p0 for x in ast.walk(d_.resolve(o))):
                        return True
                    # a local with several definitions (`flat = obj.flatten()` ... `flat = f(flat)`): any of them derived from the value
                    return isinstance(o, ast.Name) and any(isinstance(a_, ast.Assign) and any(isinstance(t, ast.Name) and t.id == o.id for t in a_.targets) and any(isinstance(x, ast.Name) and x.id == p0 for x in ast.walk(a_.value))
                                                           for a_ in ast.walk(f_.node))

                if any(from_value(o) for o in operands):
                    proj.append((f_, n_))
    ctx.add("6-identity", proj[0][0] if proj else fn, proj[0][1] if proj else fn.node, not proj, "no key is built from an arithmetic projection of the value" if not proj else
            f"`{norm(proj[0][1])[:60]}` projects the value before it is keyed (for a Counter, unary plus removes zero and NEGATIVE counts; nan_to_num maps NaN to 0.0 and inf to the largest float): values that differ only in what the projection drops get the same key, "
            "memoize returns one's result for the other", key="no-value-projection")


def rule_stable(ctx: Ctx) -> None:
    fn, _b = _to_hashable_facts(ctx)
    all_returns = [r for r in walk_no_nested(fn.node) if isinstance(r, ast.Return)]
    d = Defs(fn)
    bad = [c for r in all_returns if r.value is not None for c in ast.walk(d.resolve(r.value)) if isinstance(c, ast.Call) and dotted(c.func) in ("hash", "id")]
    ctx.add("7-stable", fn, fn.node, not bad, "no hash()/id() in any returned key" if not bad else f"a returned key contains `{norm(bad[0])}`: differs between processes", key="no-hash-in-key")
    # a key is a function of the VALUE: nothing on the way to it is looked up by object identity (an `id(obj)`-keyed memo keeps
    # returning the key computed before the object was modified in place)
    ids = [c for f_ in Scope(ctx, fn, wide=True).funcs for c in ast.walk(f_.node) if isinstance(c, ast.Call) and dotted(c.func) == "id"]
    ctx.add("7-stable", fn, ids[0] if ids else fn.node, not ids, "no object identity (id()) is consulted while building a key" if not ids else
            f"`{norm(ids[0])}` is consulted while building the key: a key remembered per object identity is returned unchanged after the object was modified in place (equal keys for unequal values)", key="no-identity-memo")
    # "the same key in every process": nothing that differs from one interpreter to the next takes part - neither in the functions
    # that build a key nor in the module-level constants they use (a marker made of uuid4() keys a DiskCache directory per process)
    import re as _re

    NONDET = _re.compile(r"^(uuid\.uuid[14]|uuid[14]|random\.|secrets\.|os\.getpid|getpid|os\.urandom|urandom|time\.|datetime\.|id|hash|threading\.get_ident|get_ident)$|^(random|secrets)\.")
    funcs = Scope(ctx, fn, wide=True).funcs
    used = {x.id for f_ in funcs for x in ast.walk(f_.node) if isinstance(x, ast.Name)}
    consts = {nm: v for f_ in funcs for nm, v in f_.module.assigns.items() if nm in used}
    for _ in range(2):  # constants defined from other constants
        for f_ in funcs:
            for nm, v in f_.module.assigns.items():
                if nm not in consts and any(isinstance(x, ast.Name) and x.id == nm for c_ in consts.values() for x in ast.walk(c_)):
                    consts[nm] = v
    def source(c: ast.Call, mod) -> str:
        """The called name with import aliases resolved (`import uuid as _u; _u.uuid4()` -> uuid.uuid4)."""
        nm = dotted(c.func) or ""
        return ctx.prog.resolve_name(mod, nm, None) if nm else ""

    nd = [(nm, c) for nm, v in consts.items() for c in ast.walk(v) if isinstance(c, ast.Call) and NONDET.search(source(c, fn.module))]
    nd += [(f_.name, c) for f_ in funcs for c in ast.walk(f_.node) if isinstance(c, ast.Call) and NONDET.search(source(c, f_.module)) and dotted(c.func) not in ("id", "hash")]
    ctx.add("7-stable", fn, nd[0][1] if nd else fn.node, not nd, f"nothing process-dependent (uuid / random / pid / time) in the key builders or the {len(consts)} module constant(s) they use" if not nd else
            f"`{nd[0][0]}` takes part in every converted key and is computed from `{norm(nd[0][1])[:50]}`: it differs from one interpreter to the next, so the same value gets a different key in every process "
            "(a DiskCache directory or a shared cache never hits across processes)", key="process-independent")
    for hn in ("_pickle_key", "_cloudpickle_key"):
        h = ctx.prog.func(f"{MOD}.{hn}")
        src = Scope(ctx, h).text()
        unstable = [w for w in ("hash(", "id(") if w in src.replace("hashlib", "").replace("md5(", "")]
        good = "dumps(" in src and any(w in src for w in ("md5", "sha1", "sha256", "blake2"))
        lossy_text = [c for f_ in Scope(ctx, h).funcs for c in ast.walk(f_.node) if isinstance(c, ast.Call) and dotted(c.func) in ("repr", "str", "format", "ascii")]
        if lossy_text and "dumps(" not in src:
            ctx.add("7-stable", h, lossy_text[0], False, f"{hn} digests `{norm(lossy_text[0])[:30]}` instead of the pickled key: a repr is not injective (dataclass fields with repr=False, the default `<C object at 0x...>` "
                    "whose address is reused) - unequal keys share a file and a DiskCache returns the stored result of another call", key=f"def {hn}")
            continue
        ctx.tri("7-stable", h, h.node, good and not unstable, bool(unstable), f"{hn}: pickle bytes -> digest", f"{hn} uses {unstable}: the name differs between processes", f"{hn}: derivation not recognised", key=f"def {hn}")
    # the fallback for arbitrary objects keys them BY VALUE: the stdlib pickler stores functions and classes by reference (module
    # + qualified name), so two objects that differ only in such content (a function of the user's script that was redefined) collide
    ck = ctx.prog.func(f"{MOD}._cloudpickle_key")
    dumpers = [c for f_ in Scope(ctx, ck).funcs for c in ast.walk(f_.node) if isinstance(c, ast.Call) and isinstance(c.func, ast.Attribute) and c.func.attr in ("dumps", "dump") and isinstance(c.func.value, ast.Name)]
    mods_ = {ck.module.aliases.get(c.func.value.id, c.func.value.id) for c in dumpers}  # type: ignore[union-attr]
    by_ref = sorted(m_ for m_ in mods_ if m_ in ("pickle", "_pickle", "marshal", "dill", "json"))
    first_ref = next((c for c in dumpers if ck.module.aliases.get(c.func.value.id, c.func.value.id) in by_ref), None)  # type: ignore[union-attr]
    ctx.tri("7-stable", ck, first_ref if first_ref is not None else ck.node, mods_ == {"cloudpickle"}, bool(by_ref), "the fallback key is the digest of cloudpickle bytes (content of functions / classes included)",
            f"the fallback key is computed with `{by_ref[0] if by_ref else ''}.dumps` (where it succeeds): functions and classes of the user's script are pickled BY NAME, so objects that hold different functions under the same name "
            "get the same key - memoize returns the result of the earlier object", "serialiser of the fallback key not recognised", key="fallback-by-value")
    # the canonical order of unordered containers must not depend on hash()/id() either
    for f in [x for x in ctx.prog.functions_in(MOD) if x.cls is None and x.name in CONVERTERS | SORTERS]:
        for c in [c for c in walk_no_nested(f.node) if isinstance(c, ast.Call) and dotted(c.func) in SORTERS | {"min", "max"}]:
            for k in [k.value for k in c.keywords if k.arg == "key"]:
                ktxt = _callable_text(ctx, f, k)
                dep = [w for w in ("hash(", "id(") if w in ktxt]
                ctx.add("7-stable", f, c, not dep, "the sort key is process-independent" if not dep else
                        f"the canonical order is decided by {dep[0]}...): str hashes are randomised per process (PYTHONHASHSEED), so equal sets get different keys in different processes", key=f"sort-key {f.name} {norm(k)[:40]}")
    fp = ctx.prog.func(f"{MOD}.DiskCache._get_file_path")
    src = Scope(ctx, fp).text()
    unstable = [w for w in ("hash(", "id(") if w in src.replace("hashlib", "").replace("md5(", "")]
    kp = [p_ for p_ in fp.param_names() if p_ != "self"][:1]
    lossy_fp = [c for f_ in Scope(ctx, fp).funcs for c in ast.walk(f_.node) if isinstance(c, ast.Call) and dotted(c.func) in ("repr", "str", "format", "ascii") and c.args and kp and norm(c.args[0]) == kp[0]]
    if lossy_fp and "dumps(" not in src:
        ctx.add("7-stable", fp, lossy_fp[0], False, f"DiskCache names the file after `{norm(lossy_fp[0])[:30]}` instead of the pickled key: the text of a key is not injective (1 and '1', 1 and 1.0 and True inside containers, "
                "objects whose repr hides fields) - unequal keys share a file and the cache returns the stored result of another call", key="def _get_file_path")
    else:
        ctx.tri("7-stable", fp, fp.node, "_pickle_key(" in src and not unstable, bool(unstable), "file name derives from _pickle_key(key)", f"DiskCache file names use {unstable}: they differ between processes", "file name derivation not recognised", key="def _get_file_path")


BUILDERS = {"to_hashable", "try_to_hashable", "key_func"}


def _cache_keys(f: FuncInfo, cache_names: set[str]) -> list[ast.AST]:
    """Expressions used as keys of a cache object in `f`: cache.get(K) / cache.put(K, ..) / K in cache."""
    out: list[ast.AST] = []
    for n in ast.walk(f.node):
        if isinstance(n, ast.Call) and isinstance(n.func, ast.Attribute) and n.func.attr in ("get", "put") and norm(n.func.value) in cache_names and n.args:
            out.append(n.args[0])
        if isinstance(n, ast.Compare) and len(n.ops) == 1 and isinstance(n.ops[0], (ast.In, ast.NotIn)) and norm(n.comparators[0]) in cache_names:
            out.append(n.left)
    return out


def _all_defs(f: FuncInfo, name: str) -> list[ast.AST]:
    return [s.value for s in ast.walk(f.node) if isinstance(s, ast.Assign) and any(isinstance(t, ast.Name) and t.id == name for t in s.targets)]


def rule_sole(ctx: Ctx) -> None:  # noqa: C901
    for q in (f"{MOD}.memoize.decorator.wrapper", "pipefunc.map._run._get_or_set_cache"):
        f = ctx.prog.func(q)
        d = Defs(f)
        keys = _cache_keys(f, {"cache"})
        if not keys:
            ctx.add("8-sole", f, f.node, None, "UNDECIDED: no cache.get/put/in with a key found", key="keys")
            continue
        seen: set[str] = set()
        for k in keys:
            vals = _all_defs(f, k.id) if isinstance(k, ast.Name) and k.id not in d.params else [k]
            for v in vals:
                txt = norm(d.resolve(v))
                if txt in seen:
                    continue
                seen.add(txt)
                used = {_last(dotted(c.func)) for c in ast.walk(d.resolve(v)) if isinstance(c, ast.Call)}
                raw = [nm for nm in ("args", "kwargs") if any(isinstance(x, ast.Name) and x.id == nm for x in ast.walk(d.resolve(v)))]
                ctx.tri("8-sole", f, v, bool(used & BUILDERS), not (used & BUILDERS) and bool(raw), f"cache key built through {sorted(used & BUILDERS)}",
                        f"the cache key `{txt[:70]}` embeds {raw} without to_hashable: unhashable or order-dependent keys", f"key `{txt[:60]}` not traced to its construction", key=f"key {txt[:50]}")
            if "map._run" in q:
                full = " ".join(norm(d.resolve(v)) for v in vals)
                ctx.tri("8-sole", f, vals[0] if vals else f.node, "output_name" in full, bool(vals) and bool(full) and any(b in full for b in BUILDERS) and "output_name" not in full and "func" not in full,
                        "map cache key includes the function's output name", "map cache key lacks the function's output name: different functions with equal kwargs collide", key="cache_key has output_name")
    mw = ctx.prog.func(f"{MOD}.memoize.decorator.wrapper")
    th = [c for c in ast.walk(mw.node) if isinstance(c, ast.Call) and dotted(c.func) == "try_to_hashable" and c.args]
    a = mw.node.args
    va, kw = (a.vararg.arg if a.vararg else "args"), (a.kwarg.arg if a.kwarg else "kwargs")
    if th:
        hashed = Defs(mw).resolve(th[0].args[0])
        pair = isinstance(hashed, (ast.Tuple, ast.List)) and sorted(norm(e) for e in hashed.elts) == sorted([va, kw])
        names = {x.id for x in ast.walk(hashed) if isinstance(x, ast.Name)}
        bare_arm = isinstance(hashed, ast.IfExp) and any(isinstance(arm, ast.Name) and arm.id in (va, kw) for arm in (hashed.body, hashed.orelse))
        ctx.tri("8-sole", mw, th[0], pair, not {va, kw} <= names or bare_arm, f"memoize keys the pair ({va}, {kw}) as one object",
                f"memoize hashes `{norm(hashed)[:60]}`: different calls (positional vs keyword spellings) can share a key", key="memoize-key-object")
    ck = ctx.prog.func("pipefunc._pipeline._cache.compute_cache_key")
    ps = ck.param_names()
    kwargs_p = ps[1] if len(ps) > 1 else "kwargs"
    par = {id(c): p for p in ast.walk(ck.node) for c in ast.iter_child_nodes(p)}
    raw_loads = []
    n_loads = 0
    def uses(sub: ast.AST, depth: int = 2) -> list[ast.AST]:
        """`sub` itself, or - when it is only stored in a local - the places where that local is read."""
        up = par.get(id(sub))
        if depth and isinstance(up, ast.Assign) and up.value is sub and len(up.targets) == 1 and isinstance(up.targets[0], ast.Name):
            v = up.targets[0].id
            reads = [x for x in ast.walk(ck.node) if isinstance(x, ast.Name) and x.id == v and isinstance(x.ctx, ast.Load)]
            return [u for r in reads for u in uses(r, depth - 1)]
        return [sub]

    for sub0 in [x for x in ast.walk(ck.node) if isinstance(x, ast.Subscript) and isinstance(x.value, ast.Name) and x.value.id == kwargs_p and isinstance(x.ctx, ast.Load)]:
        n_loads += 1
        for sub in uses(sub0):
            y: ast.AST = sub
            inside = False
            while id(y) in par:
                y = par[id(y)]
                if isinstance(y, ast.Call) and _last(dotted(y.func)) in BUILDERS:
                    inside = True
            if not inside:
                raw_loads.append(sub)
    ctx.tri("8-sole", ck, raw_loads[0] if raw_loads else ck.node, n_loads > 0 and not raw_loads, bool(raw_loads), "every argument value enters the pipeline cache key through to_hashable",
            f"`{norm(raw_loads[0]) if raw_loads else ''}` enters the pipeline cache key without to_hashable", f"no `{kwargs_p}[...]` load found", key="values hashed")
    d = Defs(ck)
    rets = [r for r in walk_no_nested(ck.node) if isinstance(r, ast.Return) and r.value is not None and not (isinstance(r.value, ast.Constant) and r.value.value is None)]
    if rets:
        v = d.resolve(rets[-1].value)
        has_name = any(isinstance(x, ast.Name) and x.id == ps[0] for x in ast.walk(v))
        ctx.tri("8-sole", ck, rets[-1], has_name and isinstance(v, ast.Tuple) and len(v.elts) == 2, isinstance(v, ast.Tuple) and not has_name, "pipeline cache key = (output_name, root items)",
                "the pipeline cache key lost the output name: different outputs with equal root arguments collide", key="return key")


def check(ctx: Ctx) -> None:
    _roles(ctx)
    for rule in (rule_tagged, rule_dispatch, rule_order_and_recursion, rule_total_order, rule_no_one_shot_reuse, rule_no_preflattening, rule_total, rule_identity, rule_sentinel_is_compared_by_identity, rule_no_value_projection, rule_stable, rule_sole):
        ctx.run(rule)


F = "pipefunc/cache.py"
MUTANTS = [
    Mutant("fallback-stdlib-pickle-first", F, "    data = cloudpickle.dumps(obj)\n    return hashlib.md5(data).hexdigest()  # noqa: S324\n", "    try:\n        data = pickle.dumps(obj)\n    except Exception:  # noqa: BLE001\n        data = cloudpickle.dumps(obj)\n    return hashlib.md5(data).hexdigest()  # noqa: S324\n", ("C15.7-stable",), why="round-6 seed C15/16"),
    Mutant("nan-to-num-projection", F, "            data = tuple(obj.flatten())\n", "            data = tuple(sys.modules[\"numpy\"].nan_to_num(obj.flatten()))\n", ("C15.6-identity",), why="round-6 seed C15/18"),
    Mutant("marker-per-process", "pipefunc/cache.py", "_HASH_MARKER = \"__CONVERTED__\"\n", "import uuid as _uuid\n_HASH_MARKER = f\"__CONVERTED_{_uuid.uuid4().hex}__\"\n", ("C15.7-stable",), why="round-4 seed C15/10"),
    Mutant("ordereddict-branch-removed", F, "    if isinstance(obj, collections.OrderedDict):\n        return (m, tp, _hashable_mapping(obj, fallback_to_pickle))\n", "", ("C15.2-dispatch",), why="round-2 seed C15/4"),
    Mutant("drop-tp-list", F, "        return (m, tp, _hashable_iterable(obj, fallback_to_pickle))\n    if isinstance(obj, collections.deque)",
           "        return (m, _hashable_iterable(obj, fallback_to_pickle))\n    if isinstance(obj, collections.deque)", ("C15.1-tagged",)),
    Mutant("tp-by-name", F, "tp: type | str = type(obj)", "tp: type | str = type(obj).__name__", ("C15.1-tagged",)),
    Mutant("dict-before-ordereddict", F,
           "    if isinstance(obj, collections.OrderedDict):\n        return (m, tp, _hashable_mapping(obj, fallback_to_pickle))\n",
           "    if isinstance(obj, dict) and not isinstance(obj, collections.defaultdict | collections.Counter):\n        return (m, tp, _hashable_mapping(obj, fallback_to_pickle, sort=True))\n    if isinstance(obj, collections.OrderedDict):\n        return (m, tp, _hashable_mapping(obj, fallback_to_pickle))\n",
           ("C15.2-dispatch",)),
    Mutant("list-sorted", F, "    if isinstance(obj, list | tuple):\n        return (m, tp, _hashable_iterable(obj, fallback_to_pickle))",
           "    if isinstance(obj, list | tuple):\n        return (m, tp, _hashable_iterable(obj, fallback_to_pickle, sort=True))", ("C15.3-order",)),
    Mutant("set-unsorted", F, "return (m, tp, _hashable_iterable(obj, fallback_to_pickle, sort=True))", "return (m, tp, _hashable_iterable(obj, fallback_to_pickle))", ("C15.3-order",)),
    Mutant("dict-unsorted", F, "        return (m, tp, _hashable_mapping(obj, fallback_to_pickle, sort=True))\n    if isinstance(obj, set",
           "        return (m, tp, _hashable_mapping(obj, fallback_to_pickle))\n    if isinstance(obj, set", ("C15.3-order",)),
    Mutant("deque-flat", F, "return (m, tp, (obj.maxlen, _hashable_iterable(obj, fallback_to_pickle)))", "return (m, tp, (obj.maxlen, tuple(obj)))", ("C15.4-recursive",)),
    Mutant("ndarray-original-F25", F,
           "        if obj.dtype.hasobject:  # the elements might be unhashable themselves\n            data = _hashable_iterable(obj.flatten(), fallback_to_pickle)\n        else:\n            data = tuple(obj.flatten())\n        return (m, tp, (obj.shape, obj.dtype.str, data))",
           "        return (m, tp, (obj.shape, obj.dtype.str, tuple(obj.flatten())))", ("C15.4-recursive",), why="original F25"),
    Mutant("iterable-no-recursion", F, "    return tuple(to_hashable(item, fallback_to_pickle) for item in items)", "    return tuple(items)", ("C15.4-recursive",)),
    Mutant("mapping-values-only", F, "return tuple((k, to_hashable(v, fallback_to_pickle)) for k, v in items)", "return tuple(to_hashable(v, fallback_to_pickle) for k, v in items)", ("C15.4-recursive",)),
    Mutant("sorted-original-F24", F, "    items = _sorted(iterable) if sort else iterable", "    items = sorted(iterable) if sort else iterable", ("C15.5-total",), why="original F24"),
    Mutant("ndarray-no-dtype", F, "return (m, tp, (obj.shape, obj.dtype.str, data))", "return (m, tp, (obj.shape, data))", ("C15.6-identity",)),
    Mutant("ndarray-no-shape", F, "return (m, tp, (obj.shape, obj.dtype.str, data))", "return (m, tp, (obj.dtype.str, data))", ("C15.6-identity",)),
    Mutant("series-no-name", F, "return (m, tp, (obj.name, to_hashable(obj.to_dict(), fallback_to_pickle)))", "return (m, tp, to_hashable(obj.to_dict(), fallback_to_pickle))", ("C15.6-identity",)),
    Mutant("key-with-id", F, "            return (m, tp, _cloudpickle_key(obj))", "            return (m, tp, id(obj))", ("C15.7-stable",)),
    Mutant("map-key-no-output-name", "pipefunc/map/_run.py", "cache_key = (func.output_name, to_hashable(kwargs))", "cache_key = to_hashable(kwargs)", ("C15.8-sole",)),
    Mutant("map-key-str", "pipefunc/map/_run.py", "cache_key = (func.output_name, to_hashable(kwargs))", "cache_key = (func.output_name, str(kwargs))", ("C15.8-sole",)),
    Mutant("pipeline-key-raw", "pipefunc/_pipeline/_cache.py", "        key = to_hashable(kwargs[k])\n", "        key = kwargs[k]\n", ("C15.8-sole",)),
    Mutant("ndarray-memory-order", F, "            data = tuple(obj.flatten())\n", "            data = tuple(obj.ravel(order=\"K\"))\n", ("C15.6-identity",), why="seeded C15/1"),
    Mutant("memoize-args-only-key", F, "                    (args, kwargs),\n", "                    (args, kwargs) if kwargs else args,\n", ("C15.8-sole",), why="seeded C15/3"),
    Mutant("disk-file-named-after-str-key", "pipefunc/cache.py", "        key_hash = _pickle_key(key)\n", "        key_hash = hashlib.md5(str(key).encode()).hexdigest()  # noqa: S324\n", ("C15.7-stable",), why="round-8 seed C14/24"),
    Mutant("twin-rename-marker", F, "    m = _HASH_MARKER\n", "    m = _HASH_MARKER  # marker\n", twin=True),
    Mutant("twin-set-tuple-test", F, "if isinstance(obj, set | frozenset):", "if isinstance(obj, (set, frozenset)):", twin=True),
    Mutant("twin-sorted-helper-inline", F, "    items = list(items)\n    try:\n        return sorted(items, key=lambda x: _sort_key(key(x)))",
           "    items = list(items)\n    try:\n        result = sorted(items, key=lambda x: _sort_key(key(x)))\n        return result", twin=True),
    Mutant("natural-sort-of-partial-orders-F48", F, "        return sorted(items, key=lambda x: _sort_key(key(x)))\n", "        return sorted(items, key=key)\n", ("C15.3-order",), why="original F48"),
]
