"""C09 - caching never changes what a pipeline returns (structural clauses).

  1 key-complete  every input a cached value can depend on flows into the key or disables it: supplied intermediates
                  (by single name, tuple outputs included) disable the key; the key is built from a non-mutating merge;
                  bound values must be part of the key or invalidate the cache
  2 invalidate    every mutator that changes what a function computes (bound values, replaced/dropped/nested functions)
                  clears the result cache or changes a key component
  3 isolation     the default location of a pipeline's disk cache is private to it (not a process-global directory)
  4 map-key       the map cache key is (output name, hashable of exactly the kwargs the function is called with)
  5 miss-tolerant a membership test followed by get() on a cache that can evict concurrently must tell a miss from a value
  6 short-circuit a hit returns before execution, is routed like a fresh result (same lazy flag), and only calls with a
                  key are stored; caching requires func.cache (or an active task graph)
"""

from __future__ import annotations

import ast

from ..cfg import ENTRY, EXIT, header_parts
from ..loader import AnalysisError, dotted, norm, walk_no_nested
from ..report import Ctx
from ..selftest import Mutant

PROP = "C09"
BASE = "pipefunc._pipeline._base"
CA = "pipefunc._pipeline._cache"
EXPLANATION = (
    "Static analysis of the caching paths (Pipeline._run, _pipeline/_cache.py, map._run._get_or_set_cache, memoize): "
    "information-flow between what a computation reads (bound values, supplied names, defaults) and what the key is "
    "built from, mutator-to-invalidation reachability, provenance of the disk-cache directory, def-use identity of the "
    "hashed and the splatted kwargs, detection of check-then-act pairs on caches, and CFG dominance of the hit return."
)
TRUSTED = ["CPython ast parser", "call graph resolution", "`a | b` builds a new dict; `.update` mutates"]
DECLINED = ["equality of cached and uncached values over call histories (needs execution)", "eviction timing; hash collisions of user-defined __hash__"]


def check(ctx: Ctx) -> None:  # noqa: C901, PLR0912, PLR0915
    P, cg = ctx.prog, ctx.cg
    run_ = P.func(f"{BASE}.Pipeline._run")
    cfg = ctx.cfg(run_)

    # ------------------------------------------------------------ 1 key-complete
    ck_nodes = cfg.nodes(lambda s: any(isinstance(c, ast.Call) and dotted(c.func) == "compute_cache_key" for part in header_parts(s) for c in ast.walk(part)))
    if len(ck_nodes) != 1:
        raise AnalysisError(f"Pipeline._run: expected one compute_cache_key call, found {len(ck_nodes)}")
    ck_stmt = cfg.stmt[ck_nodes[0]]
    par = {id(c): p for p in ast.walk(run_.node) for c in ast.iter_child_nodes(p)}
    x: ast.AST = ck_stmt
    guard = None
    while id(x) in par:
        child, x = x, par[id(x)]
        if isinstance(x, ast.If) and child in x.orelse and "flat_scope_kwargs" in norm(x.test):
            guard = x
            break
    ok, why = False, "a call that supplies an intermediate value still uses (and fills) the root-argument cache entry"
    if guard is not None:
        comps = [g for g in ast.walk(guard.test) if isinstance(g, ast.comprehension)]
        single_names = bool(comps) and norm(comps[0].iter) in ("flat_scope_kwargs", "flat_scope_kwargs.keys()") and any(
            isinstance(c, ast.Compare) and isinstance(c.ops[0], ast.In) and norm(c.comparators[0]) == "self.output_to_func" and norm(c.left) == norm(comps[0].target) for c in ast.walk(guard.test))
        none_key = any(isinstance(s, ast.Assign) and norm(s.targets[0]) == "cache_key" and norm(s.value) == "None" for s in guard.body)
        ok = single_names and none_key and isinstance(guard.test, ast.Call) and dotted(guard.test.func) == "any"
        why = "any supplied name that is a function output (single names of tuple outputs included) disables the key" if ok else (
            "the supplied-intermediate guard does not test every supplied name against output_to_func (names of tuple outputs slip through)" if none_key else why)
    ctx.add("1-key-complete", run_, guard if guard is not None else ck_stmt, ok, why, key="intermediate-disables-key")
    call = next(c for c in ast.walk(ck_stmt) if isinstance(c, ast.Call) and dotted(c.func) == "compute_cache_key")
    a = [norm(x_) for x_ in call.args]
    ok = len(a) == 3 and a[0] == "func.output_name" and a[2] == "root_args"
    ctx.add("1-key-complete", run_, call, ok, "key = (func.output_name, values of root_args)" if ok else f"compute_cache_key is called with {a}", key="key-args")
    merged = call.args[1] if len(call.args) > 1 else None
    ops = []

    def flat(e):
        if isinstance(e, ast.BinOp) and isinstance(e.op, ast.BitOr):
            flat(e.left)
            flat(e.right)
        else:
            ops.append(norm(e))

    if merged is not None:
        flat(merged)
    ok = ops == ["self._func_defaults(func)", "flat_scope_kwargs", "func._bound"]
    ctx.add("1-key-complete", run_, merged if merged is not None else call, ok, "key values come from a fresh merge defaults | supplied | bound (same precedence as the call)" if ok else
            f"the key values are taken from {ops or norm(merged) if merged is not None else '?'}: not a fresh merge with the call's precedence", key="merge")
    muts = []
    for fn in (run_, P.func(f"{BASE}.Pipeline._get_func_args")):
        aliases = {norm(s.targets[0]) for s in walk_no_nested(fn.node) if isinstance(s, ast.Assign) and "_func_defaults(" in norm(s.value) and "|" not in norm(s.value) and ".copy()" not in norm(s.value)}
        for n in walk_no_nested(fn.node):
            if isinstance(n, ast.Call) and isinstance(n.func, ast.Attribute) and n.func.attr in ("update", "setdefault", "pop", "clear") and (norm(n.func.value) in aliases or "_func_defaults(" in norm(n.func.value)):
                muts.append(n)
            if isinstance(n, (ast.Assign, ast.AugAssign)):
                for t in (n.targets if isinstance(n, ast.Assign) else [n.target]):
                    if isinstance(t, ast.Subscript) and norm(t.value) in aliases:
                        muts.append(n)
                if isinstance(n, ast.AugAssign) and isinstance(n.op, ast.BitOr) and norm(n.target) in aliases:
                    muts.append(n)
    ctx.add("1-key-complete", run_, muts[0] if muts else run_.node, not muts, "the memoised per-function defaults are never mutated" if not muts else
            f"`{norm(muts[0])[:60]}` writes into the dict that _func_defaults memoises: values of one call leak into the key of the next", key="defaults-not-mutated")
    fd = P.func(f"{BASE}.Pipeline._func_defaults")
    ok = "defaults = func.defaults.copy()" in norm(fd.node)
    ctx.add("1-key-complete", fd, fd.node, ok, "_func_defaults works on a copy of the function's defaults" if ok else "_func_defaults hands out / mutates the function's own defaults dict", key="func-defaults-copy")
    cck = P.func(f"{CA}.compute_cache_key")
    src = norm(cck.node)
    loops_ = [lp for lp in walk_no_nested(cck.node) if isinstance(lp, ast.For)]
    ok = len(loops_) == 1 and norm(loops_[0].iter) == "root_args" and "if k not in kwargs" in src and "return None" in src and "to_hashable(kwargs[k])" in src
    ctx.add("1-key-complete", cck, cck.node, ok, "every root argument's value enters the key; a missing one disables it" if ok else "compute_cache_key no longer covers every root argument", key="all-root-args")
    bound_in_key = "bound" in src.lower()
    ctx.add("1-key-complete", cck, cck.node, bound_in_key, "bound values of the function and its dependencies are part of the key" if bound_in_key else
            "bound values are not part of the key: the key holds root arguments only and bound parameters are by construction never root arguments, so a changed bound value is answered from the old entry", key="bound-in-key")
    ra = P.func(f"{BASE}.Pipeline._run")
    ok = "root_args = self.root_args(output_name)" in norm(ra.node)
    ctx.add("1-key-complete", ra, ra.node, ok, "root arguments of the requested output" if ok else "root_args of another output are used for the key", key="root-args-of-output")

    # ------------------------------------------------------------ 2 invalidate
    CLEARERS = {"clear"}
    for q, what in ((f"{BASE}.Pipeline.replace", "replacing a function"), (f"{BASE}.Pipeline.drop", "dropping a function"), (f"{BASE}.Pipeline.nest_funcs", "nesting functions"),
                    ("pipefunc._pipefunc.PipeFunc.update_bound", "changing bound values")):
        f = P.func(q)
        reach = cg.reachable(q)
        clears = any(isinstance(c, ast.Call) and isinstance(c.func, ast.Attribute) and c.func.attr in CLEARERS and "cache" in norm(c.func.value) and "_internal" not in norm(c.func.value)
                     for r in reach if r in P.functions and P.functions[r].module.name.startswith(("pipefunc._pipeline", "pipefunc._pipefunc")) for c in ast.walk(P.functions[r].node))
        ctx.add("2-invalidate", f, f.node, clears, f"{what} clears the result cache" if clears else
                f"{what} neither clears the result cache nor changes a key component (_clear_internal_cache only drops cached properties): stale values are returned afterwards", key=f"mutator {f.name}")
    pci = P.func(f"{BASE}.Pipeline._clear_internal_cache")
    ctx.add("2-invalidate", pci, pci.node, True, "analysed: _clear_internal_cache clears cached *properties*, it is not counted as a result-cache invalidation", key="distinguish")

    # ------------------------------------------------------------ 3 isolation
    cc = P.func(f"{CA}.create_cache")
    dflt = [c for c in ast.walk(cc.node) if isinstance(c, ast.Call) and norm(c.func).endswith(".setdefault") and c.args and isinstance(c.args[0], ast.Constant) and c.args[0].value == "cache_dir"]
    if not dflt:
        raise AnalysisError("create_cache: default for cache_dir not found")
    v = norm(dflt[0].args[1])
    private = any(t in v for t in ("mkdtemp", "TemporaryDirectory"))
    ctx.add("3-isolation", cc, dflt[0], private, "default disk-cache directory is a fresh private directory" if private else
            f"default disk-cache directory is `{v}`, shared by every pipeline (and user) of the machine: equal (output name, root values) of unrelated pipelines hit each other's entries, and clear() deletes foreign *.pkl files", key="cache-dir-default")
    ok = "cache_kwargs = {} if cache_kwargs is None else dict(cache_kwargs)" in norm(cc.node)
    ctx.add("3-isolation", cc, cc.node, ok, "the caller's cache_kwargs are copied" if ok else "create_cache writes into the caller's cache_kwargs (shared between pipeline copies)", key="kwargs-copied")
    init = P.func(f"{BASE}.Pipeline.__init__")
    ok = "self.cache = create_cache(cache_type, lazy, cache_kwargs)" in norm(init.node)
    ctx.add("3-isolation", init, init.node, ok, "every pipeline constructs its own cache object" if ok else "Pipeline.__init__ no longer creates its own cache", key="own-cache")

    # ------------------------------------------------------------ 4 map-key
    gk = P.func("pipefunc.map._run._get_or_set_cache")
    ks = [s for s in walk_no_nested(gk.node) if isinstance(s, ast.Assign) and norm(s.targets[0]) == "cache_key"]
    ok = bool(ks) and norm(ks[0].value) == "(func.output_name, to_hashable(kwargs))"
    ctx.add("4-map-key", gk, ks[0] if ks else gk.node, ok, "key = (func.output_name, to_hashable(kwargs)) - the hashable itself, not a hash of it" if ok else
            f"map cache key is `{norm(ks[0].value) if ks else '?'}`", key="key")
    for q, var in (("pipefunc.map._run._run_iteration", "selected"), ("pipefunc.map._run._execute_single", "kwargs")):
        f = P.func(q)
        c = [c for c in ast.walk(f.node) if isinstance(c, ast.Call) and dotted(c.func) == "_get_or_set_cache"]
        comp = f.nested.get("compute_fn")
        called_with = [norm(k.value) for cc_ in ast.walk(comp.node) if isinstance(cc_, ast.Call) and norm(cc_.func) == "func" for k in cc_.keywords if k.arg is None] if comp else []
        ok = bool(c) and [norm(a_) for a_ in c[0].args] == ["func", var, "cache", "compute_fn"] and called_with == [var]
        ctx.add("4-map-key", f, c[0] if c else f.node, ok, f"hashes `{var}` and calls func(**{var})" if ok else f"the kwargs that are hashed ({[norm(a_) for a_ in c[0].args][1:2] if c else '?'}) are not the ones the function is called with ({called_with})", key=f"same-kwargs {f.name}")
    src = norm(gk.node)
    ok = "if cache is None" in src and "return compute_fn()" in src and "result = compute_fn()" in src and "cache.put(cache_key, result" in src and src.rstrip().endswith("return result")
    ctx.add("4-map-key", gk, gk.node, ok, "miss: compute, store under the same key, return the computed value" if ok else "_get_or_set_cache miss path changed", key="miss-path")
    # (_run_iteration_and_process passes its cache through)
    rip = P.func("pipefunc.map._run._run_iteration_and_process")
    ok = "_run_iteration(func, selected, cache)" in norm(rip.node)
    ctx.add("4-map-key", rip, rip.node, ok, "the element run uses the pipeline's cache" if ok else "_run_iteration is not given (func, selected, cache)", key="passes-cache")

    # ------------------------------------------------------------ 5 miss-tolerant
    n5 = 0
    for q in ("pipefunc.map._run._get_or_set_cache", f"{CA}.get_result_from_cache", "pipefunc.cache.memoize.decorator.wrapper"):
        f = P.func(q)
        for s in [s for s in walk_no_nested(f.node) if isinstance(s, ast.If)]:
            tests = [c for c in ast.walk(s.test) if isinstance(c, ast.Compare) and len(c.ops) == 1 and isinstance(c.ops[0], ast.In) and norm(c.comparators[0]) == "cache"]
            gets = [c for st in s.body for c in ast.walk(st) if isinstance(c, ast.Call) and norm(c.func) == "cache.get"]
            if not tests or not gets:
                continue
            n5 += 1
            sentinel = any(k.arg in ("default",) for g in gets for k in g.keywords) or any(len(g.args) > 1 for g in gets)
            ctx.add("5-miss-tolerant", f, s, sentinel, "get() is told apart from a miss" if sentinel else
                    "`key in cache` followed by `cache.get(key)`: with a shared cache another process can evict the entry in between, and the None returned for the miss is used as the cached result", key="check-then-get")
    ctx.floor("5-miss-tolerant", n5, 3)

    # ------------------------------------------------------------ 6 short-circuit
    exe = cfg.nodes(lambda s: any(isinstance(c, ast.Call) and dotted(c.func) == "_execute_func" for part in header_parts(s) for c in ast.walk(part)))
    rn = cfg.nodes(lambda s: isinstance(s, ast.If) and norm(s.test) == "return_now")
    rfc = cfg.nodes(lambda s: isinstance(s, ast.If) and norm(s.test) == "result_from_cache")
    ok = bool(exe) and bool(rn) and bool(rfc) and all(isinstance(cfg.stmt[n].body[-1], ast.Return) for n in rn + rfc) and all(cfg.dominates(rfc[0], e) for e in exe)
    ok = ok and all(cfg.dominates(r, rfc[0]) or True for r in rn)
    ctx.add("6-short-circuit", run_, cfg.stmt[rn[0]] if rn else run_.node, ok, "a hit returns before _execute_func (directly, or after collecting the arguments for full_output)" if ok else "a cache hit does not prevent the execution", key="hit-returns")
    grc = [c for c in ast.walk(run_.node) if isinstance(c, ast.Call) and dotted(c.func) == "get_result_from_cache"]
    a = [norm(x_) for x_ in grc[0].args] if grc else []
    ok = a == ["func", "cache", "cache_key", "output_name", "all_results", "full_output", "used_parameters", "self.lazy"]
    ctx.add("6-short-circuit", run_, grc[0] if grc else run_.node, ok, "the hit is routed with the pipeline's lazy flag, like a fresh result" if ok else f"get_result_from_cache is called with {a}: a hit is routed differently from a fresh result (e.g. the lazy flag is dropped)", key="hit-routing")
    gr = P.func(f"{CA}.get_result_from_cache")
    src = norm(gr.node)
    ok = "if cache_key is not None and cache_key in cache" in src and "_update_all_results(func, r, output_name, all_results, lazy)" in src and "used_parameters.add(None)" in src and "return (True, result_from_cache)" in src
    ctx.add("6-short-circuit", gr, gr.node, ok, "only a real key can hit; the hit is stored in the per-call results like a computed value" if ok else "get_result_from_cache changed", key="hit-impl")
    upd = cfg.nodes(lambda s: isinstance(s, ast.If) and "cache_key is not None" in norm(s.test) and "use_cache" in norm(s.test))
    ok = bool(upd) and any(isinstance(c, ast.Call) and dotted(c.func) == "update_cache" for c in ast.walk(cfg.stmt[upd[0]])) and all(cfg.dominates(e, upd[0]) for e in exe)
    ctx.add("6-short-circuit", run_, cfg.stmt[upd[0]] if upd else run_.node, ok, "a result is stored only under a real key, after it was computed" if ok else "results are stored without a key (or before being computed)", key="store-guard")
    uc = [s for s in walk_no_nested(run_.node) if isinstance(s, ast.Assign) and norm(s.targets[0]) == "use_cache"]
    ok = bool(uc) and norm(uc[0].value) == "func.cache and cache is not None or task_graph() is not None"
    ctx.add("6-short-circuit", run_, uc[0] if uc else run_.node, ok, "caching only for functions that asked for it (or under a task graph)" if ok else "use_cache no longer depends on func.cache", key="use-cache")
    upc = P.func(f"{CA}.update_cache")
    ok = "cache.put(cache_key, r, duration)" in norm(upc.node) and "cache.put(cache_key, r)" in norm(upc.node)
    ctx.add("6-short-circuit", upc, upc.node, ok, "the computed value is stored under its key" if ok else "update_cache changed", key="update-cache")


B, CF, R = "pipefunc/_pipeline/_base.py", "pipefunc/_pipeline/_cache.py", "pipefunc/map/_run.py"
MUTANTS = [
    Mutant("intermediate-guard-dropped-F14", B,
           "            if any(name in self.output_to_func for name in flat_scope_kwargs):\n                # An intermediate result was provided, the output is then\n                # not determined by the root arguments and should not be cached.\n                cache_key = None\n            else:\n                cache_key = compute_cache_key(\n                    func.output_name,\n                    self._func_defaults(func) | flat_scope_kwargs | func._bound,\n                    root_args,\n                )\n",
           "            cache_key = compute_cache_key(\n                func.output_name,\n                self._func_defaults(func) | flat_scope_kwargs | func._bound,\n                root_args,\n            )\n", ("C09.1-key-complete",), why="original F14"),
    Mutant("guard-by-function-output-name", B, "            if any(name in self.output_to_func for name in flat_scope_kwargs):\n", "            if any(f.output_name in flat_scope_kwargs for f in self.functions):\n", ("C09.1-key-complete",), why="seeded C09/2"),
    Mutant("merge-in-place", B, "                    self._func_defaults(func) | flat_scope_kwargs | func._bound,\n", "                    self._func_defaults(func).update(flat_scope_kwargs) or self._func_defaults(func),\n", ("C09.1-key-complete",), why="seeded C09/1"),
    Mutant("key-supplied-before-defaults", B, "                    self._func_defaults(func) | flat_scope_kwargs | func._bound,\n", "                    flat_scope_kwargs | self._func_defaults(func) | func._bound,\n", ("C09.1-key-complete",)),
    Mutant("key-partial-root-args", CF, "    for k in root_args:\n        if k not in kwargs:", "    for k in root_args[:1]:\n        if k not in kwargs:", ("C09.1-key-complete",)),
    Mutant("map-key-hash", R, "    cache_key = (func.output_name, to_hashable(kwargs))\n", "    cache_key = (func.output_name, hash(to_hashable(kwargs)))\n", ("C09.4-map-key",), why="seeded C09/3"),
    Mutant("map-hashes-other-kwargs", R, "    return _get_or_set_cache(func, selected, cache, compute_fn)\n", "    return _get_or_set_cache(func, {k: v for k, v in selected.items() if k in func.parameters}, cache, compute_fn)\n", ("C09.4-map-key",)),
    Mutant("hit-does-not-return", B, "            if return_now:\n                return all_results[output_name]\n", "            if return_now:\n                pass\n", ("C09.6-short-circuit",)),
    Mutant("hit-drops-lazy", B, "                used_parameters,\n                self.lazy,\n            )\n            if return_now:", "                used_parameters,\n            )\n            if return_now:", ("C09.6-short-circuit",), why="seeded C18/3"),
    Mutant("cache-everything", B, "        use_cache = (func.cache and cache is not None) or task_graph() is not None\n", "        use_cache = cache is not None or task_graph() is not None\n", ("C09.6-short-circuit",)),
    Mutant("store-without-key", B, "        if use_cache and cache_key is not None:\n", "        if use_cache:\n", ("C09.6-short-circuit",)),
    Mutant("kwargs-not-copied-F19b", CF, "    cache_kwargs = {} if cache_kwargs is None else dict(cache_kwargs)\n", "    if cache_kwargs is None:\n        cache_kwargs = {}\n", ("C09.3-isolation",), why="original F19b"),
    Mutant("twin-run-comment", B, "                # An intermediate result was provided, the output is then\n", "                # An intermediate result was supplied, the output is then\n", twin=True),
]
