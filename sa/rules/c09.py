"""C09 - caching never changes what a pipeline returns (structural clauses).

  1 key-complete  every input a cached value can depend on flows into the key or disables it: supplied intermediates
                  (by single name, tuple outputs included) disable the key; the key is built from a non-mutating merge;
                  bound values must be part of the key or invalidate the cache
  2 invalidate    every mutator that changes what a function computes (bound values, replaced/dropped/nested functions)
                  clears the result cache or changes a key component
  3 isolation     the default location of a pipeline's disk cache is private to it (not a process-global directory)
  4 map-key       the map cache key is (output name, hashable of exactly the kwargs the function is called with)
  5 miss-tolerant a membership test followed by get() on a cache that can evict concurrently must tell a miss from a value
  6 short-circuit a hit returns before execution, is routed like a fresh result (same lazy flag), and only calls with a
                  key are stored; caching requires func.cache (or an active task graph)
"""

from __future__ import annotations

import ast

from ..cfg import ENTRY, EXIT, header_parts
from ..flow import dependence_text, parse_expr, reachable_under, Defs, Scope, absence_by_none, arg, caller_object_mutations, guards, iterations, nnf
from ..loader import AnalysisError, FuncInfo, dotted, norm, walk_no_nested
from ..report import Ctx
from ..selftest import Mutant

PROP = "C09"
TECHNIQUE = "static analysis: information-flow rules from supplied names/bound values to the cache key + caller-object mutation (reaching rebinding) analysis + mutator->invalidation reachability + check-then-act detection + CFG/guard rules on the hit path + memoised-deserialiser rule + key-covers-kwargs rule + dependence closure of the cache-use condition + function-identity component of the map cache key + who-writes rule for Pipeline.cache + root-argument values never taken from the cached function's bound values"
BASE = "pipefunc._pipeline._base"
CA = "pipefunc._pipeline._cache"
EXPLANATION = (
    "Static analysis of the caching paths (Pipeline._run, _pipeline/_cache.py, map._run._get_or_set_cache, memoize): "
    "information-flow between what a computation reads (bound values, supplied names, defaults) and what the key is "
    "built from, mutator-to-invalidation reachability, provenance of the disk-cache directory, def-use identity of the "
    "hashed and the splatted kwargs, detection of check-then-act pairs on caches, and CFG dominance of the hit return."
)
TRUSTED = ["CPython ast parser", "call graph resolution", "`a | b` builds a new dict; `.update` mutates"]
DECLINED = ["equality of cached and uncached values over call histories (needs execution)", "eviction timing; hash collisions of user-defined __hash__"]


def _flat_or(e: ast.AST) -> list[ast.AST]:
    if isinstance(e, ast.BinOp) and isinstance(e.op, ast.BitOr):
        return _flat_or(e.left) + _flat_or(e.right)
    if isinstance(e, ast.Dict) and all(k is None for k in e.keys):
        return list(e.values)
    return [e]


def _kind_of_operand(e: ast.AST) -> str:
    t = norm(e)
    if "_bound" in t or ".bound" in t:
        return "bound"
    if "defaults" in t:
        return "defaults"
    return "supplied" if isinstance(e, ast.Name) else "?"


def _key_site(ctx: Ctx):
    run_ = ctx.prog.func(f"{BASE}.Pipeline._run")
    sites = [(f, c) for f, c in Scope(ctx, run_).calls("compute_cache_key") if f.module.name == run_.module.name]
    if len(sites) != 1:
        raise AnalysisError(f"Pipeline._run and its helpers: expected one compute_cache_key call, found {len(sites)}")
    return run_, sites[0][0], sites[0][1]


def rule_key_complete(ctx: Ctx) -> None:  # noqa: C901, PLR0912, PLR0915
    P = ctx.prog
    run_, kf, call = _key_site(ctx)
    d = Defs(kf)
    merged = d.resolve(arg(call, 1, "kwargs")) if arg(call, 1, "kwargs") is not None else None
    ops = _flat_or(merged) if merged is not None else []
    kinds = [_kind_of_operand(o) for o in ops]
    supplied = {o.id for o, k in zip(ops, kinds) if k == "supplied"}
    # ---- the key is made of the values of the ROOT arguments - parameters of `func` itself or of functions UPSTREAM of it.  What
    # those functions receive is the supplied value, else the default.  A parameter that `func` binds is not one of its root
    # arguments, so `func._bound` has nothing to say here: merged in above the supplied values it replaces the value of a
    # same-named root argument that an upstream function consumes (the call with b=3 is served the entry of b=2)
    if {"defaults", "supplied"} <= set(kinds) and "?" not in kinds:
        order_ok = kinds.index("defaults") < kinds.index("supplied")
        overriding = "bound" in kinds and (kinds.index("bound") > kinds.index("supplied") or kinds.index("bound") > kinds.index("defaults"))
        ctx.add("1-key-complete", kf, call, order_ok and not overriding, "key values come from a fresh merge defaults | supplied (what the functions that consume the root arguments receive)" if order_ok and not overriding else
                (f"the key values are merged as {kinds}: the bound values of the cached function override the supplied value (or the default) of a same-named root argument, which only UPSTREAM functions consume - "
                 "two calls that differ in that argument share one entry and the second is served the first one's result" if overriding else
                 f"the key values are merged as {kinds}: a default overrides the value the caller supplied"), key="merge")
    else:
        ctx.add("1-key-complete", kf, call, None, f"UNDECIDED: key values `{norm(merged)[:80] if merged is not None else '?'}` are not a recognised merge of defaults and supplied values", key="merge")
    # ---- supplied intermediates disable the key
    scopes = [f for f in Scope(ctx, run_).funcs if f.module.name == run_.module.name]
    good = bad_whole = False
    any_relation = False
    for f in scopes:
        names = set(supplied) | {p for p in f.param_names() if "kwargs" in p}
        its = iterations(f.node)
        elem_of_supplied = {x.id for it in its if norm(it["iter"]).split(".")[0] in names for x in ast.walk(it["target"]) if isinstance(x, ast.Name)}
        for c in [c for c in ast.walk(f.node) if isinstance(c, ast.Compare) and len(c.ops) == 1 and isinstance(c.ops[0], (ast.In, ast.NotIn))]:
            lt, rt = norm(c.left), norm(c.comparators[0])
            if rt.endswith("output_to_func") and isinstance(c.left, ast.Name) and c.left.id in elem_of_supplied:
                good = any_relation = True
            if rt.split(".")[0] in names and isinstance(c.left, ast.Attribute) and c.left.attr == "output_name":
                bad_whole = any_relation = True
        for c in [c for c in ast.walk(f.node) if isinstance(c, (ast.BinOp, ast.Call))]:
            t = norm(c)
            if "output_to_func" in t and any(n_ in t for n_ in names) and (isinstance(c, ast.BinOp) and isinstance(c.op, ast.BitAnd) or "isdisjoint" in t or "intersection" in t):
                good = any_relation = True
    recognised = bool(supplied) or any("kwargs" in p_ for f in scopes for p_ in f.param_names())
    ctx.tri("1-key-complete", kf, call, good and not bad_whole, bad_whole or (not any_relation and recognised and "flat_scope_kwargs" in run_.param_names()),
            "any supplied name that is a function output (single names of tuple outputs included) disables the key",
            "the supplied names are compared with whole output names (tuple outputs slip through)" if bad_whole else
            "no test relates the supplied names to the pipeline's outputs: a call that supplies an intermediate value still uses (and fills) the root-argument cache entry",
            key="intermediate-disables-key")
    # ---- the memoised per-function defaults are never mutated
    muts = []
    for fn in {kf, run_, P.func(f"{BASE}.Pipeline._get_func_args")}:
        aliases = {norm(s.targets[0]) for s in walk_no_nested(fn.node) if isinstance(s, ast.Assign) and "_func_defaults(" in norm(s.value) and "|" not in norm(s.value) and ".copy()" not in norm(s.value) and not norm(s.value).startswith("dict(")}
        for n in walk_no_nested(fn.node):
            if isinstance(n, ast.Call) and isinstance(n.func, ast.Attribute) and n.func.attr in ("update", "setdefault", "pop", "clear") and (norm(n.func.value) in aliases or "_func_defaults(" in norm(n.func.value)):
                muts.append((fn, n))
            if isinstance(n, (ast.Assign, ast.AugAssign)):
                for t in (n.targets if isinstance(n, ast.Assign) else [n.target]):
                    if isinstance(t, ast.Subscript) and norm(t.value) in aliases:
                        muts.append((fn, n))
                if isinstance(n, ast.AugAssign) and isinstance(n.op, ast.BitOr) and norm(n.target) in aliases:
                    muts.append((fn, n))
    ctx.add("1-key-complete", muts[0][0] if muts else run_, muts[0][1] if muts else run_.node, not muts, "the memoised per-function defaults are never mutated" if not muts else
            f"`{norm(muts[0][1])[:60]}` writes into the dict that _func_defaults memoises: values of one call leak into the key of the next", key="defaults-not-mutated")
    fd = P.func(f"{BASE}.Pipeline._func_defaults")
    fparam = [p for p in fd.param_names() if p != "self"][0]
    stores = [n for n in walk_no_nested(fd.node) if (isinstance(n, ast.Call) and isinstance(n.func, ast.Attribute) and n.func.attr in ("update", "setdefault", "pop", "clear") and norm(n.func.value) == f"{fparam}.defaults")
              or (isinstance(n, (ast.Assign, ast.Delete)) and any(isinstance(t, ast.Subscript) and norm(t.value) == f"{fparam}.defaults" for t in n.targets))]
    alias_stores = []
    for s_ in [s_ for s_ in walk_no_nested(fd.node) if isinstance(s_, ast.Assign) and norm(s_.value) == f"{fparam}.defaults" and isinstance(s_.targets[0], ast.Name)]:
        nm = s_.targets[0].id
        alias_stores += [n for n in walk_no_nested(fd.node) if (isinstance(n, (ast.Assign, ast.Delete)) and any(isinstance(t, ast.Subscript) and norm(t.value) == nm for t in n.targets))
                         or (isinstance(n, ast.Call) and isinstance(n.func, ast.Attribute) and n.func.attr in ("update", "setdefault", "pop", "clear") and norm(n.func.value) == nm)]
    bad_ = stores + alias_stores
    ctx.add("1-key-complete", fd, bad_[0] if bad_ else fd.node, not bad_, "_func_defaults never writes into the function's own defaults dict" if not bad_ else
            f"`{norm(bad_[0])[:60]}` writes into the function's own defaults dict", key="func-defaults-copy")
    # ---- compute_cache_key: every root argument's value enters the key; a missing one disables it
    cck = P.func(f"{CA}.compute_cache_key")
    ps = cck.param_names()
    ra = ps[2] if len(ps) > 2 else "root_args"
    its = [it for it in iterations(cck.node) if ra in {x.id for x in ast.walk(it["iter"]) if isinstance(x, ast.Name)}]
    partial = [it for it in its if isinstance(it["iter"], ast.Subscript)]
    none_ret = any(isinstance(r, ast.Return) and (r.value is None or (isinstance(r.value, ast.Constant) and r.value.value is None)) for r in ast.walk(cck.node))
    skipped = []
    kwp = ps[1] if len(ps) > 1 else "kwargs"
    for it in its:
        if it["kind"] != "loop":
            continue
        tv = norm(it["target"])
        for st in ast.walk(it["node"]):
            if isinstance(st, ast.If) and nnf(st.test) in (f"{tv} not in {kwp}",) and st.body and isinstance(st.body[-1], ast.Continue):
                skipped.append(st)
            if isinstance(st, ast.If) and nnf(st.test) == f"{tv} in {kwp}" and not st.orelse and not any(isinstance(x, (ast.Return, ast.Raise)) for x in ast.walk(it["node"]) if x is not st):
                skipped.append(st)
    ctx.add("1-key-complete", cck, skipped[0] if skipped else cck.node, not skipped, "a root argument that is not supplied disables the key" if not skipped else
            "a root argument that is not supplied is left out of the key: its value then comes from a default that is not part of the key, so a changed default is answered from the old entry", key="missing-root-disables")
    ctx.tri("1-key-complete", cck, (partial or its or [{"node": cck.node}])[0]["node"], bool(its) and not partial and none_ret, bool(partial),
            "every root argument's value enters the key; a missing one disables it", f"only `{norm(partial[0]['iter']) if partial else ''}` of the root arguments enter the key: calls differing in the others share an entry",
            "iteration over the root arguments not recognised", key="all-root-args")
    src = Scope(ctx, cck).text()
    bound_in_key = "bound" in src.lower()
    ctx.add("1-key-complete", cck, cck.node, bound_in_key, "bound values of the function and its dependencies are part of the key" if bound_in_key else
            "bound values are not part of the key: the key holds root arguments only and bound parameters are by construction never root arguments, so a changed bound value is answered from the old entry", key="bound-in-key")


def rule_invalidate(ctx: Ctx) -> None:
    P, cg = ctx.prog, ctx.cg
    for q, what in ((f"{BASE}.Pipeline.replace", "replacing a function"), (f"{BASE}.Pipeline.drop", "dropping a function"), (f"{BASE}.Pipeline.nest_funcs", "nesting functions"),
                    ("pipefunc._pipefunc.PipeFunc.update_bound", "changing bound values")):
        f = P.func(q)
        reach = cg.reachable(q)
        clears = any(isinstance(c, ast.Call) and isinstance(c.func, ast.Attribute) and c.func.attr == "clear" and "cache" in norm(c.func.value) and "_internal" not in norm(c.func.value)
                     for r in reach if r in P.functions and P.functions[r].module.name.startswith(("pipefunc._pipeline", "pipefunc._pipefunc")) for c in ast.walk(P.functions[r].node))
        ctx.add("2-invalidate", f, f.node, clears, f"{what} clears the result cache" if clears else
                f"{what} neither clears the result cache nor changes a key component (_clear_internal_cache only drops cached properties): stale values are returned afterwards", key=f"mutator {f.name}")


def rule_isolation(ctx: Ctx) -> None:
    P = ctx.prog
    cc = P.func(f"{CA}.create_cache")
    dflt = [c for c in ast.walk(cc.node) if isinstance(c, ast.Call) and norm(c.func).endswith(".setdefault") and c.args and isinstance(c.args[0], ast.Constant) and c.args[0].value == "cache_dir"]
    if dflt:
        v = norm(Defs(cc).resolve(dflt[0].args[1]))
        private = any(t in v for t in ("mkdtemp", "TemporaryDirectory"))
        shared = "gettempdir" in v or v.startswith(("'", '"'))
        ctx.tri("3-isolation", cc, dflt[0], private, shared, "default disk-cache directory is a fresh private directory",
                f"default disk-cache directory is `{v}`, shared by every pipeline (and user) of the machine: equal (output name, root values) of unrelated pipelines hit each other's entries, and clear() deletes foreign *.pkl files",
                f"default cache_dir `{v}` not classified", key="cache-dir-default")
    else:
        ctx.add("3-isolation", cc, cc.node, None, "UNDECIDED: default for cache_dir not found", key="cache-dir-default")
    kw = [p for p in cc.param_names() if "kwargs" in p]
    for p in kw:
        m = caller_object_mutations(ctx.cfg(cc), cc.node, p)
        ctx.add("3-isolation", cc, m[0] if m else cc.node, not m, f"the caller's `{p}` is never written to" if not m else
                f"`{norm(m[0])[:60]}` writes into the caller's `{p}` dict (shared between pipeline copies): one pipeline's cache settings leak into the other's", key="kwargs-copied")
    init = P.func(f"{BASE}.Pipeline.__init__")
    own = [s for s in ast.walk(init.node) if isinstance(s, ast.Assign) and any(norm(t) == "self.cache" for t in s.targets)]
    made = [s for s in own if any(isinstance(c, ast.Call) and dotted(c.func) == "create_cache" for c in ast.walk(Defs(init).resolve(s.value)))]
    ctx.tri("3-isolation", init, own[0] if own else init.node, bool(made), False, "every pipeline constructs its own cache object", "", "self.cache is not assigned from create_cache(...)", key="own-cache")
    # ... and nobody hands one pipeline's cache object to another pipeline: keys are (output name, root values) and say nothing about
    # WHICH functions computed the value - a copy / subpipeline whose functions are then replaced or re-bound would answer the parent
    foreign = []
    for f_ in P.functions.values():
        if not f_.module.name.startswith("pipefunc._pipeline"):
            continue
        for a in ast.walk(f_.node):
            if isinstance(a, ast.Assign):
                for t in a.targets:
                    if isinstance(t, ast.Attribute) and t.attr == "cache" and not (isinstance(t.value, ast.Name) and t.value.id == "self" and f_.name == "__init__"):
                        if not any(isinstance(c, ast.Call) and dotted(c.func).rsplit(".", 1)[-1] == "create_cache" for c in ast.walk(a.value)):
                            foreign.append((f_, a))
    ctx.add("3-isolation", foreign[0][0] if foreign else init, foreign[0][1] if foreign else init.node, not foreign, "no pipeline is given another pipeline's cache object" if not foreign else
            f"`{norm(foreign[0][1])[:60]}` makes two pipeline objects share one cache: entries are keyed by output name and root values only, so after replace / update_bound on one of them the other returns values "
            "computed by functions it does not contain", key="cache-not-shared")
    # a memoised deserialiser hands ONE object to every caller: a hit that is modified in place (by a downstream function or
    # the caller) changes what all later hits of that entry return
    exempt = {"pipefunc._utils._cached_load": "only reached through load(..., cache=True), which C04.1 fresh-load forbids for results"}
    n = 0
    for fn in P.functions.values():
        memo = [d_ for d_ in fn.decorators if d_.rsplit(".", 1)[-1] in ("lru_cache", "cache")]
        if not memo:
            continue
        n += 1
        deser = [c for c in ast.walk(fn.node) if isinstance(c, ast.Call) and dotted(c.func).rsplit(".", 1)[-1] in ("loads", "load") and "." in dotted(c.func)]
        ok = not deser or fn.qualname in exempt
        ctx.add("3-isolation", fn, deser[0] if deser else fn.node, ok, f"memoised {fn.name}: " + (exempt.get(fn.qualname) or "does not deserialise") if ok else
                f"{fn.name} is memoised (@{memo[0]}) and returns `{norm(deser[0])[:40]}`: every caller receives the same object, so a cached value that is modified in place is returned modified by every later hit", key=f"memo-deserialiser {fn.name}")
    ctx.add("3-isolation", "pipefunc", "", True, f"{n} memoised function(s) scanned for deserialisers", key="memo-scan")


def _splatted(ctx: Ctx, owner: FuncInfo, fnode: ast.AST, depth: int = 2) -> set[str]:
    """Texts X of `callee(**X)` in `fnode`, looking through private helpers that receive X as an argument."""
    out: set[str] = set()
    for c in [c for c in ast.walk(fnode) if isinstance(c, ast.Call)]:
        for k in c.keywords:
            if k.arg is None:
                out.add(norm(k.value))
        if depth and isinstance(c.func, ast.Name):
            for callee in ctx.cg.resolve_callable(owner, c.func):
                if callee.module.name != owner.module.name or not callee.name.startswith("_") or callee.name in ("_get_or_set_cache",):
                    continue
                inner = _splatted(ctx, callee, callee.node, depth - 1)
                ps = callee.param_names()
                for i, a in enumerate(c.args):
                    if i < len(ps) and ps[i] in inner:
                        out.add(norm(a))
    return out


def rule_map_key(ctx: Ctx) -> None:
    P = ctx.prog
    gk = P.func("pipefunc.map._run._get_or_set_cache")
    d = Defs(gk)
    sc = Scope(ctx, gk)
    keys = []
    for f, n in sc.walk():
        if f is not gk:
            continue
        if isinstance(n, ast.Call) and isinstance(n.func, ast.Attribute) and n.func.attr in ("get", "put") and norm(n.func.value) == "cache" and n.args:
            keys.append((n.func.attr, norm(d.resolve(n.args[0])), n))
        if isinstance(n, ast.Compare) and len(n.ops) == 1 and isinstance(n.ops[0], (ast.In, ast.NotIn)) and norm(n.comparators[0]) == "cache":
            keys.append(("in", norm(d.resolve(n.left)), n))
        if isinstance(n, ast.Call) and isinstance(n.func, ast.Name) and n.func.id.startswith("_") and any(norm(a) == "cache" for a in n.args):
            for a in n.args:
                if "hashable" in norm(d.resolve(a)):
                    keys.append(("helper", norm(d.resolve(a)), n))
    # the key covers the keyword arguments the function is called with - all of them
    kw_params = [p_.arg for p_ in gk.params if p_.annotation is not None and norm(p_.annotation).startswith("dict")]
    th = [c for c in ast.walk(gk.node) if isinstance(c, ast.Call) and dotted(c.func).rsplit(".", 1)[-1] in ("to_hashable", "try_to_hashable") and c.args]
    if th and kw_params:
        a0 = d.resolve(th[0].args[0])
        whole = isinstance(a0, ast.Name) and a0.id in kw_params
        narrowed = isinstance(a0, (ast.DictComp, ast.Dict, ast.Call, ast.Subscript)) and any(isinstance(x, ast.Name) and x.id in kw_params for x in ast.walk(a0)) and (
            not isinstance(a0, ast.Call) or dotted(a0.func) not in ("dict",) or len(a0.args) != 1)
        ctx.tri("4-map-key", gk, th[0], whole, narrowed, f"the key is built from the whole `{kw_params[0]}` the function is called with",
                f"the key is built from `{norm(a0)[:70]}`, not from all of `{kw_params[0]}`: two calls that differ only in what was left out share a cached value", "operand of to_hashable not recognised", key="key-covers-kwargs")
    texts = {t for _k, t, _n in keys}
    hashed = [t for t in texts if "hash(" in t.replace("to_hashable(", "")]
    ctx.tri("4-map-key", gk, keys[0][2] if keys else gk.node, len(texts) == 1 and not hashed and "to_hashable(" in next(iter(texts), ""), bool(hashed) or len(texts) > 1,
            "one key object - the hashable itself, not a hash of it - is used for the test, the get and the put",
            f"the key is `{hashed[0][:70]}`: a hash of the arguments, so colliding hashes return another call's value" if hashed else f"test/get/put use different keys: {sorted(texts)}",
            "key construction not recognised", key="key")
    # ... and says WHICH function was called, by the one name a pipeline guarantees to be unique: the output name.  `__name__` /
    # `__qualname__` of the wrapped callable coincide for closures of one factory and for lambdas; the wrapped callable itself may
    # be shared by several PipeFuncs with different renames/bound values
    fparams = [p_.arg for p_ in gk.params if p_.annotation is not None and "PipeFunc" in norm(p_.annotation)]
    if fparams and texts:
        ktxt = next(iter(texts))
        attrs = sorted({x.attr for x in ast.walk(ast.parse(ktxt, mode="eval")) if isinstance(x, ast.Attribute) and isinstance(x.value, ast.Name) and x.value.id in fparams}) if len(texts) == 1 else []
        unique_id = "output_name" in attrs
        ctx.tri("4-map-key", gk, keys[0][2], unique_id, len(texts) == 1 and not unique_id and not any(a in ktxt for a in ("output_name",)),
                "the key names the function by its output name (unique within a pipeline)",
                f"the key identifies the function by {['.' + a for a in attrs] or 'nothing'} instead of its output name: two functions of one pipeline whose wrapped callables share that attribute (closures of one factory, lambdas) "
                "with equal arguments share a cache entry - one returns the other's value", "function component of the key not recognised", key="key-names-function")
    for q in ("pipefunc.map._run._run_iteration", "pipefunc.map._run._execute_single"):
        f = P.func(q)
        fd_ = Defs(f)
        cs = [c for c in ast.walk(f.node) if isinstance(c, ast.Call) and dotted(c.func) == "_get_or_set_cache"]
        if not cs:
            delegating = [c for c in ast.walk(f.node) if isinstance(c, ast.Call) and dotted(c.func) in ("_run_iteration",)]
            ctx.tri("4-map-key", f, f.node, bool(delegating), False, "delegates to _run_iteration", "", "no _get_or_set_cache call", key=f"same-kwargs {f.name}")
            continue
        c = cs[0]
        hashed_kw = arg(c, 1, "kwargs")
        comp = arg(c, 3, "compute_fn")
        bodies: list[ast.AST] = []
        if isinstance(comp, ast.Lambda):
            bodies = [comp]
        elif isinstance(comp, ast.Name) and comp.id in f.nested:
            bodies = [f.nested[comp.id].node]
        elif comp is not None:
            r = fd_.resolve(comp)
            bodies = [r] if isinstance(r, (ast.Lambda, ast.Call)) else []
        called = set()
        for b in bodies:
            called |= _splatted(ctx, f, b)
            if isinstance(b, ast.Call) and dotted(b.func) in ("functools.partial", "partial") and b.args:
                called -= {norm(a) for a in b.args}
                for callee in ctx.cg.resolve_callable(f, b.args[0]):
                    inner = _splatted(ctx, callee, callee.node, 1)
                    ps_ = callee.param_names()
                    called |= {norm(a) for i, a in enumerate(b.args[1:]) if i < len(ps_) and ps_[i] in inner}
        h = norm(hashed_kw) if hashed_kw is not None else "?"
        ctx.tri("4-map-key", f, c, bool(called) and called == {h}, bool(called) and h not in called and not any(h in x for x in called),
                f"hashes `{h}` and calls the function with exactly those kwargs", f"the kwargs that are hashed (`{h}`) are not the ones the function is called with ({sorted(called)})",
                f"could not relate the hashed kwargs `{h}` to the call {sorted(called)}", key=f"same-kwargs {f.name}")


def rule_miss_tolerant(ctx: Ctx) -> None:
    P = ctx.prog
    n5 = 0
    for q in ("pipefunc.map._run._get_or_set_cache", f"{CA}.get_result_from_cache", "pipefunc.cache.memoize.decorator.wrapper"):
        if q not in P.functions and q.endswith(("get_result_from_cache", "_get_or_set_cache")):
            # a private lookup helper that was inlined into its caller: the pattern is not searched for elsewhere (the recorded finding is
            # tied to the helper; in the caller it would be the same defect under another name)
            ctx.add("5-miss-tolerant", q, "", None, f"UNDECIDED: {q.rsplit('.', 1)[-1]} does not exist (inlined?); its lookup is not followed into the caller", key="check-then-get")
            n5 += 1
            continue
        f = P.func(q)
        tests = [c for c in ast.walk(f.node) if isinstance(c, ast.Compare) and len(c.ops) == 1 and isinstance(c.ops[0], (ast.In, ast.NotIn)) and norm(c.comparators[0]) == "cache"]
        gets = [c for c in ast.walk(f.node) if isinstance(c, ast.Call) and norm(c.func) == "cache.get"]
        pairs = [(t, g) for t in tests for g in gets if g.args and norm(g.args[0]) == norm(t.left)]
        if not pairs:
            ctx.add("5-miss-tolerant", f, f.node, True if not tests or not gets else None, "no membership test followed by get() on the same key" if not tests or not gets else "UNDECIDED: test and get use different key expressions", key="check-then-get")
            continue
        n5 += 1
        sentinel = all(any(k.arg == "default" for k in g.keywords) or len(g.args) > 1 for _t, g in pairs)
        ctx.add("5-miss-tolerant", f, pairs[0][0], sentinel, "get() is told apart from a miss" if sentinel else
                "`key in cache` followed by `cache.get(key)`: with a shared cache another process can evict the entry in between, and the None returned for the miss is used as the cached result", key="check-then-get")
    ctx.floor("5-miss-tolerant", n5, 3)
    for q in ("pipefunc.map._run._get_or_set_cache", f"{CA}.get_result_from_cache", "pipefunc.cache.memoize.decorator.wrapper"):
        if q not in P.functions and q.endswith(("get_result_from_cache", "_get_or_set_cache")):
            continue
        f = P.func(q)
        sites = absence_by_none(f.node, ("cache",))
        ctx.add("5-miss-tolerant", f, sites[0][0] if sites else f.node, not sites, "a hit is decided by membership (or a sentinel), not by the cached value" if not sites else
                f"a hit is decided by `{sites[0][1]}.get(...)` being None: a cached result that IS None counts as a miss, so the function runs again on every call", key="none-is-a-value")


def rule_short_circuit(ctx: Ctx) -> None:  # noqa: C901, PLR0915
    P = ctx.prog
    run_ = P.func(f"{BASE}.Pipeline._run")
    cfg = ctx.cfg(run_)
    d = Defs(run_)
    exe = cfg.nodes(lambda s: any(isinstance(c, ast.Call) and dotted(c.func) == "_execute_func" for part in header_parts(s) for c in ast.walk(part)))
    hit = [s for s in walk_no_nested(run_.node) if isinstance(s, ast.Assign) and isinstance(s.value, ast.Call) and dotted(s.value.func) == "get_result_from_cache"]
    if exe and not hit and f"{CA}.get_result_from_cache" not in P.functions:
        # the lookup helper no longer exists (inlined into _run): the hit path is then part of _run's own control flow, which these
        # obligations do not follow - say so instead of failing the analysis
        ctx.add("6-short-circuit", run_, run_.node, None, "UNDECIDED: get_result_from_cache does not exist (inlined into Pipeline._run?); the hit path is not recognised in that form", key="hit-returns 0")
        return
    if not exe or not hit:
        raise AnalysisError("Pipeline._run: _execute_func / get_result_from_cache sites not found")
    flags = [x.id for t in hit[0].targets for x in ast.walk(t) if isinstance(x, ast.Name)]
    for i, flag in enumerate(flags[:2]):
        tests = cfg.nodes(lambda s, flag=flag: isinstance(s, ast.If) and any(isinstance(x, ast.Name) and x.id == flag for x in ast.walk(s.test)))
        # the execution must be unreachable once the flag is true, whatever the shape of the branches
        reach = [reachable_under(cfg, Defs(ast.Module(body=[], type_ignores=[])), e, {flag: True}, start=cfg.node(hit[0])) for e in exe]  # from where the flag is set
        good = bool(tests) and all(r is False for r in reach)
        ctx.tri("6-short-circuit", run_, cfg.stmt[tests[0]] if tests else run_.node, good, bool(tests) and any(r is True for r in reach),
                f"a hit (`{flag}`) never reaches _execute_func", f"_execute_func is reachable although `{flag}` is true: a cache hit does not prevent the execution", f"`{flag}` is not tested in a recognised way", key=f"hit-returns {i}")
    grc = hit[0].value
    lazy_hit = arg(grc, 7, "lazy", d)
    fresh = [c for c in ast.walk(run_.node) if isinstance(c, ast.Call) and dotted(c.func) == "_update_all_results"]
    lazy_fresh = arg(fresh[-1], 4, "lazy", d) if fresh else None
    if lazy_fresh is not None:
        same = lazy_hit is not None and norm(d.resolve(lazy_hit)) == norm(d.resolve(lazy_fresh))
        ctx.tri("6-short-circuit", run_, grc, same, lazy_hit is None or not same, "the hit is routed with the same lazy flag as a fresh result",
                f"a hit is routed with lazy={norm(lazy_hit) if lazy_hit is not None else 'the default (False)'} but a fresh result with lazy={norm(lazy_fresh)}: cached values are evaluated/stored differently", key="hit-routing")
    gr = P.func(f"{CA}.get_result_from_cache")
    gd = Defs(gr)
    upd = [c for c in ast.walk(gr.node) if isinstance(c, ast.Call) and dotted(c.func) == "_update_all_results"]
    from_get = bool(upd) and len(upd[0].args) > 1 and "cache.get(" in norm(gd.resolve(upd[0].args[1]))
    ctx.tri("6-short-circuit", gr, upd[0] if upd else gr.node, from_get, False, "the hit is stored in the per-call results like a computed value", "", "the cached value is not passed to _update_all_results in a recognised way", key="hit-impl")
    # a result is stored only under a real key
    upn = cfg.nodes(lambda s: any(isinstance(c, ast.Call) and dotted(c.func) == "update_cache" for part in header_parts(s) for c in ast.walk(part)))
    if upn:
        call = next(c for c in ast.walk(cfg.stmt[upn[0]]) if isinstance(c, ast.Call) and dotted(c.func) == "update_cache")
        keyname = norm(arg(call, 1, "cache_key")) if arg(call, 1, "cache_key") is not None else "cache_key"
        gs = guards(cfg, d, upn[0]) + guards(cfg, Defs(ast.Module(body=[], type_ignores=[])), upn[0])  # resolved and as written
        keyed = any(t == f"{keyname} is None" and pol is False for t, pol in gs) or any(f"{keyname} is not None" in t and pol for t, pol in gs)
        after = all(cfg.dominates(e, upn[0]) for e in exe)
        ctx.tri("6-short-circuit", run_, cfg.stmt[upn[0]], keyed and after, not keyed, "a result is stored only under a real key, after it was computed",
                f"update_cache is reached without a test that `{keyname}` is not None (conditions: {[t for t, _p in gs]}): results of calls that must not be cached are stored under None", key="store-guard")
    else:
        ctx.add("6-short-circuit", run_, run_.node, None, "UNDECIDED: no update_cache call in _run", key="store-guard")
    # caching only for functions that asked for it
    gs = guards(cfg, d, cfg.node(hit[0]))
    txt = " && ".join(t for t, _p in gs)
    # what the controlling conditions are computed from (through locals, all their definitions and the tests selecting them)
    dep = " ;; ".join(dependence_text(run_.node, parse_expr(t)) for t, _p in guards(cfg, Defs(ast.Module(body=[], type_ignores=[])), cfg.node(hit[0])))
    opaque = any(isinstance(c, ast.Call) and isinstance(c.func, ast.Name) and c.func.id.startswith("_") for t, _p in gs for c in ast.walk(parse_expr(t))) if gs else False
    ctx.tri("6-short-circuit", run_, hit[0], ".cache" in txt or ".cache" in dep, bool(gs) and ".cache" not in txt and ".cache" not in dep and not opaque, "caching only for functions that asked for it (or under a task graph)",
            f"the cache is consulted under `{txt[:90]}`, which does not depend on func.cache: functions that did not ask for caching are cached", "no condition controls the cache lookup", key="use-cache")
    upc = P.func(f"{CA}.update_cache")
    ucfg = ctx.cfg(upc)
    ps = upc.param_names()
    puts = set(ucfg.nodes(lambda s: any(isinstance(c, ast.Call) and isinstance(c.func, ast.Attribute) and c.func.attr == "put" and len(c.args) >= 2 and norm(c.args[0]) == ps[1] and norm(c.args[1]) == ps[2] for part in header_parts(s) for c in ast.walk(part))))
    if not puts:
        # the put may be delegated: a call that hands (cache, key, value) to a helper which stores them
        from ..flow import bind_args

        for s_ in ctx.cg.sites.get(upc.qualname, []):
            for callee in s_.callees:
                b = {k: norm(v) for k, v in bind_args(s_.node, callee).items()}
                inv = {v: k for k, v in b.items()}
                if ps[1] in inv and ps[2] in inv and any(isinstance(c, ast.Call) and isinstance(c.func, ast.Attribute) and c.func.attr == "put" and len(c.args) >= 2 and norm(c.args[0]) == inv[ps[1]] and norm(c.args[1]) == inv[ps[2]]
                                                             for c in ast.walk(callee.node)):
                    n_ = ucfg.node_containing(s_.node)
                    if n_ is not None:
                        puts.add(n_)
    ok = bool(puts) and ucfg.must_pass(ENTRY, EXIT, puts, normal_only=True)
    ctx.tri("6-short-circuit", upc, upc.node, ok, bool(puts) and not ok, "the computed value is stored under its key on every path", "update_cache has a path that does not store the value under the key",
            "how update_cache stores the value is not recognised", key="update-cache")


def check(ctx: Ctx) -> None:
    for rule in (rule_key_complete, rule_invalidate, rule_isolation, rule_map_key, rule_miss_tolerant, rule_short_circuit):
        ctx.run(rule)


B, CF, R = "pipefunc/_pipeline/_base.py", "pipefunc/_pipeline/_cache.py", "pipefunc/map/_run.py"
MUTANTS = [
    Mutant("map-key-by-dunder-name", "pipefunc/map/_run.py", "    cache_key = (func.output_name, to_hashable(kwargs))\n", "    cache_key = (func.__name__, to_hashable(kwargs))\n", ("C09.4-map-key",), why="round-4 seed C09/12"),
    Mutant("intermediate-guard-dropped-F14", B,
           "            if any(name in self.output_to_func for name in flat_scope_kwargs):\n                # An intermediate result was provided, the output is then\n                # not determined by the root arguments and should not be cached.\n                cache_key = None\n            else:\n                cache_key = compute_cache_key(\n                    func.output_name,\n                    # The root arguments are parameters of upstream functions (a parameter that\n                    # is bound in `func` is not a root argument of `func`), `func._bound` says\n                    # nothing about their values.\n                    self._func_defaults(func) | flat_scope_kwargs,\n                    root_args,\n                )\n",
           "            cache_key = compute_cache_key(\n                func.output_name,\n                self._func_defaults(func) | flat_scope_kwargs,\n                root_args,\n            )\n", ("C09.1-key-complete",), why="original F14"),
    Mutant("bound-overrides-root-argument-F47", B, "                    self._func_defaults(func) | flat_scope_kwargs,\n", "                    self._func_defaults(func) | flat_scope_kwargs | func._bound,\n", ("C09.1-key-complete",), why="original F47"),
    Mutant("guard-by-function-output-name", B, "            if any(name in self.output_to_func for name in flat_scope_kwargs):\n", "            if any(f.output_name in flat_scope_kwargs for f in self.functions):\n", ("C09.1-key-complete",), why="seeded C09/2"),
    Mutant("merge-in-place", B, "                    self._func_defaults(func) | flat_scope_kwargs,\n", "                    self._func_defaults(func).update(flat_scope_kwargs) or self._func_defaults(func),\n", ("C09.1-key-complete",), why="seeded C09/1"),
    Mutant("key-supplied-before-defaults", B, "                    self._func_defaults(func) | flat_scope_kwargs,\n", "                    flat_scope_kwargs | self._func_defaults(func),\n", ("C09.1-key-complete",)),
    Mutant("key-partial-root-args", CF, "    for k in root_args:\n        if k not in kwargs:", "    for k in root_args[:1]:\n        if k not in kwargs:", ("C09.1-key-complete",)),
    Mutant("map-key-hash", R, "    cache_key = (func.output_name, to_hashable(kwargs))\n", "    cache_key = (func.output_name, hash(to_hashable(kwargs)))\n", ("C09.4-map-key",), why="seeded C09/3"),
    Mutant("map-hashes-other-kwargs", R, "    return _get_or_set_cache(func, selected, cache, compute_fn)\n", "    return _get_or_set_cache(func, {k: v for k, v in selected.items() if k in func.parameters}, cache, compute_fn)\n", ("C09.4-map-key",)),
    Mutant("hit-does-not-return", B, "            if return_now:\n                return all_results[output_name]\n", "            if return_now:\n                pass\n", ("C09.6-short-circuit",)),
    Mutant("hit-drops-lazy", B, "                used_parameters,\n                self.lazy,\n            )\n            if return_now:", "                used_parameters,\n            )\n            if return_now:", ("C09.6-short-circuit",), why="seeded C18/3"),
    Mutant("cache-everything", B, "        use_cache = (func.cache and cache is not None) or task_graph() is not None\n", "        use_cache = cache is not None or task_graph() is not None\n", ("C09.6-short-circuit",)),
    Mutant("store-without-key", B, "        if use_cache and cache_key is not None:\n", "        if use_cache:\n", ("C09.6-short-circuit",)),
    Mutant("kwargs-not-copied-F19b", CF, "    cache_kwargs = {} if cache_kwargs is None else dict(cache_kwargs)\n", "    if cache_kwargs is None:\n        cache_kwargs = {}\n", ("C09.3-isolation",), why="original F19b"),
    Mutant("hit-by-value-not-none", CF, "    if cache_key is not None and cache_key in cache:\n        r = cache.get(cache_key)\n", "    if cache_key is not None and (r := cache.get(cache_key)) is not None:\n", ("C09.5-miss-tolerant",), why="round-2 seed C09/5"),
    Mutant("missing-root-arg-skipped", CF, "            # another function. In this case, we don't want to cache the result.\n            return None\n", "            # another function. In this case, we don't want to cache the result.\n            continue\n", ("C09.1-key-complete",), why="round-2 seed C09/6"),
    Mutant("twin-run-comment", B, "                # An intermediate result was provided, the output is then\n", "                # An intermediate result was supplied, the output is then\n", twin=True),
]
