"""C01 - map results equal the MapSpec denotation (index-domain soundness of the map kernel, not the values).

  1 rank-domain  Rule K (sa/kinds.py): every position-wise pairing of shapes, masks, keys, and every linear index in the
                 map kernel stays within one index space (EXT / INT / FULL); no contiguity assumption on the flat result
  2 foreign-key  in MapSpec autogeneration a dict is only read with a key that iterates another mapping after `k in D`
  3 whole-arrays unsliced arguments are materialised (StorageBase -> array) before the user call; sliced ones are cut
                 with exactly the keys MapSpec.input_keys returns
  4 topological  work is submitted, shapes are inferred and learners are built along the topological order
  5 outputs      every output of a function gets its own picked value, array and result entry, in output-name order
"""

from __future__ import annotations

import ast

from ..cfg import ENTRY, EXIT, header_parts
from ..flow import Defs, all_merges, guard_facts, inline_predicates, iterations, nnf, reordered
from ..loader import FuncInfo, dotted, norm, walk_no_nested
from ..report import Ctx
from ..selftest import Mutant
from . import kinds_driver

PROP = "C01"
TECHNIQUE = "static analysis: rank-domain abstract interpretation (EXT/INT/FULL index spaces) over the map kernel + CFG must-pass of array materialisation + iteration-source and sibling-decision analysis + caller-supplied-entries-win rule on the internal-shape merge (store key = guard key) + order-tagged sequences (listing / name / insertion order vs linear index), leading-positions-then-ellipsis indices and selected-subset sequences in the kind engine"
RUN = "pipefunc.map._run"
EXPLANATION = (
    "Static analysis of the map kernel: a purpose-built rank-domain type system (external / internal / full index "
    "spaces, masks, linear indices) is inferred through _run.py, _shapes.py, _run_info.py, _mapspec.py and the storage "
    "API and every position-wise pairing is checked (Rule K), for all shapes and masks at once; plus def-use/guard rules "
    "for MapSpec autogeneration, must-pass-through of array materialisation, and the iteration source of every loop that "
    "depends on topological order."
)
TRUSTED = ["CPython ast parser", "seed kinds of sa/kinds.py (each justified by the line of pipefunc it was read from)", "numpy ravel/unravel are row-major by default"]
DECLINED = [
    "equality of each output element with the MapSpec denotation (value-level)",
    "zip vs outer product by index *name* (dict(zip(external_indices, key)) is right by an ordering argument about names: see C08.6)",
    "list-vs-ndarray input handling; behaviour of user functions",
]
KIND_MODULES = ("pipefunc.map._run", "pipefunc.map._shapes", "pipefunc.map._run_info", "pipefunc.map._mapspec", "pipefunc.map._storage_array._base")


def rule_rank_domain(ctx: Ctx) -> None:
    findings, stats = kinds_driver.analyse(ctx, KIND_MODULES)
    kinds_driver.emit(ctx, "1-rank-domain", findings, 60)
    ctx.note(f"kind analysis: {stats}")



def rule_foreign_key(ctx: Ctx) -> None:  # noqa: C901
    P = ctx.prog
    n2 = 0
    targets = [*P.functions_in("pipefunc._pipeline._mapspec"), P.func("pipefunc._pipeline._base.Pipeline._autogen_mapspec_axes")]
    for fn in targets:
        par = {id(c): p for p in ast.walk(fn.node) for c in ast.iter_child_nodes(p)}
        for loop in [lp for lp in walk_no_nested(fn.node) if isinstance(lp, ast.For) and isinstance(lp.target, ast.Name)]:
            var = loop.target.id
            src_maps = {n.id for n in ast.walk(loop.iter) if isinstance(n, ast.Name)}
            # follow one level of local definitions: `missing = D.keys() & E.keys()`; `for p in missing`
            for nm in list(src_maps):
                for a in walk_no_nested(fn.node):
                    tg = a.targets[0] if isinstance(a, ast.Assign) else (a.target if isinstance(a, ast.AnnAssign) else None)
                    if tg is not None and isinstance(tg, ast.Name) and tg.id == nm and a.value is not None:
                        inter = isinstance(a.value, ast.BinOp) and isinstance(a.value.op, ast.BitAnd)
                        if inter:
                            src_maps |= {n.id for n in ast.walk(a.value) if isinstance(n, ast.Name)}
            for sub in [s for st in loop.body for s in ast.walk(st) if isinstance(s, ast.Subscript) and isinstance(s.ctx, ast.Load) and isinstance(s.value, ast.Name) and isinstance(s.slice, ast.Name) and s.slice.id == var]:
                d = sub.value.id
                if d in src_maps:
                    continue  # iterating the mapping itself (or something derived from its keys)
                n2 += 1
                guarded = False
                x: ast.AST = sub
                while id(x) in par and x is not loop:
                    child, x = x, par[id(x)]
                    if isinstance(x, ast.If) and child in x.body and norm(x.test) == f"{var} in {d}":
                        guarded = True
                if not guarded:
                    # the same test as an early `continue` / conjunct: facts that control the statement in the flow graph
                    cfg_ = ctx.cfg(fn)
                    cn = cfg_.node_containing(sub)
                    if cn is not None and any(t == f"{var} in {d}" and pol for t, pol in guard_facts(cfg_, Defs(fn), cn)):
                        guarded = True
                ctx.add("2-foreign-key", fn, sub, guarded, f"`{d}[{var}]` is read under `if {var} in {d}`" if guarded else
                        f"`{d}[{var}]`: `{var}` iterates `{norm(loop.iter)}`, not `{d}`; a valid spec whose name is absent from `{d}` is refused with KeyError at construction", key=f"{d}[{var}] in {fn.name}")
    ctx.floor("2-foreign-key", n2, 1)


def _materialising(cfg, name: str) -> set[int]:
    """CFG nodes after which the dict `name` holds arrays, not storage handles."""
    def hit(s: ast.AST) -> bool:
        for part in header_parts(s):
            for c in ast.walk(part):
                if isinstance(c, ast.Call) and dotted(c.func) == "_load_arrays" and c.args and norm(c.args[0]) == name:
                    return True
            if isinstance(part, ast.Assign) and any(norm(t) == name for t in part.targets) and "_maybe_load_array(" in norm(part.value):
                return True
        return False
    return set(cfg.nodes(hit))


def _mapped_decision(ctx: Ctx, f: FuncInfo, mapped_calls: tuple[str, ...]) -> str | None:
    """nnf of the condition under which `f` takes its mapped branch (helper predicates inlined)."""
    cfg = ctx.cfg(f)
    nodes = cfg.nodes(lambda s: not isinstance(s, (ast.If, ast.For, ast.While)) and any(isinstance(c, ast.Call) and dotted(c.func) in mapped_calls for c in ast.walk(s)))
    if not nodes:
        return None
    decisions: list[str] = []
    for n in nodes:
        parts: list[str] = []
        negated: set[str] = set()
        for test, truth in cfg.controls(n):
            t = inline_predicates(ctx, f, Defs(f).resolve(test))
            if "mapspec" in norm(t):
                here = nnf(t, neg=not truth)
                negated.add(nnf(t, neg=truth))
                if here not in parts:
                    parts.append(here)
        if any(p_ in negated for p_ in parts):
            continue  # the same test decided both ways on the way here (a helper inlined into one arm of its own test): not a path
        if parts and " and ".join(parts) not in decisions:
            decisions.append(" and ".join(parts))
    return " or ".join(decisions) if decisions else None


def rule_whole_arrays(ctx: Ctx) -> None:
    P = ctx.prog
    sk = P.func(f"{RUN}._select_kwargs")
    cfg = ctx.cfg(sk)
    d = Defs(sk)
    rets = cfg.nodes(lambda s: isinstance(s, ast.Return) and s.value is not None)
    for r in rets:
        v = cfg.stmt[r].value
        if isinstance(v, ast.Name):
            la = _materialising(cfg, v.id)
            ok = bool(la) and cfg.must_pass(ENTRY, r, la, normal_only=True)
            wp = None if ok else cfg.witness_path(ENTRY, r, la)
            ctx.add("3-whole-arrays", sk, cfg.stmt[r], ok, "unsliced arguments of a mapped call are materialised before they are returned" if ok else
                    f"`{v.id}` is returned on a path that never materialises it: the user function receives storage handles instead of arrays", key="select-loads", path=cfg.describe(wp, sk.module.relpath) if wp else None)
        else:
            t = norm(d.resolve(v))
            ctx.tri("3-whole-arrays", sk, cfg.stmt[r], "_maybe_load_array(" in t, False, "returned arguments are materialised", "", f"return `{t[:50]}` not recognised", key="select-loads")
    ik_calls = [c for c in ast.walk(sk.node) if isinstance(c, ast.Call) and isinstance(c.func, ast.Attribute) and c.func.attr == "input_keys"]
    idx = [p for p in sk.param_names() if p == "index"]
    ctx.tri("3-whole-arrays", sk, ik_calls[0] if ik_calls else sk.node, bool(ik_calls) and bool(idx) and all(len(c.args) == 2 and norm(d.resolve(c.args[1])) == "index" for c in ik_calls), False,
            "mapped arguments are sliced with the keys MapSpec.input_keys gives for this index", "", "input_keys(...) call not recognised", key="slicing")
    es = P.func(f"{RUN}._execute_single")
    cfg = ctx.cfg(es)
    kw = [p for p in es.param_names() if "kwargs" in p]
    if kw:
        la = _materialising(cfg, kw[0])
        def splats(node: ast.AST) -> bool:
            return any(isinstance(c, ast.Call) and any(k.arg is None and norm(k.value) == kw[0] for k in c.keywords) for c in ast.walk(node))

        # where the function is run: a statement that calls with **kwargs itself, or one that uses a nested function doing so
        # (the nested `def` statement alone runs nothing)
        thunks = {x.name for x in es.node.body if isinstance(x, (ast.FunctionDef, ast.AsyncFunctionDef)) and splats(x)}
        runs = cfg.nodes(lambda s: not isinstance(s, (ast.If, ast.For, ast.While, ast.FunctionDef, ast.AsyncFunctionDef)) and (splats(s) or any(isinstance(x, ast.Name) and x.id in thunks for x in ast.walk(s))))
        ok = bool(la) and bool(runs) and all(any(cfg.dominates(x, r) for x in la) for r in runs)
        ctx.tri("3-whole-arrays", es, cfg.stmt[runs[0]] if runs else es.node, ok, bool(runs) and not ok, "a function without MapSpec receives whole arrays",
                f"_execute_single runs the function without materialising `{kw[0]}` first: it receives storage handles", "the call of the function was not found", key="single-loads")
    ml = P.func(f"{RUN}._maybe_load_array")
    t = norm(ml.node)
    ctx.tri("3-whole-arrays", ml, ml.node, "StorageBase" in t and ".to_array()" in t, ".to_array()" not in t, "storage handles become arrays via to_array()", "_maybe_load_array never calls to_array(): handles are passed on", key="to-array")
    lar = P.func(f"{RUN}._load_arrays")
    its = [it for it in iterations(lar.node) if ".items()" in norm(it["iter"]) or norm(it["iter"]) in lar.param_names()]
    ctx.tri("3-whole-arrays", lar, lar.node, bool(its) and not any(it["filters"] for it in its) and "_maybe_load_array(" in norm(lar.node), False, "every argument is materialised", "", "_load_arrays not recognised", key="load-all")
    decisions = {}
    for q, calls in ((f"{RUN}._submit_func", ("_prepare_submit_map_spec",)), (f"{RUN}._process_task", ("_output_from_mapspec_task",)), (f"{RUN}._process_task_async", ("_output_from_mapspec_task",))):
        f = P.func(q)
        decisions[f] = _mapped_decision(ctx, f, calls)
    ref_f = next(iter(decisions))
    for f, dec in decisions.items():
        ref = decisions[ref_f]
        ctx.tri("3-whole-arrays", f, f.node, dec is not None and ref is not None and dec == ref, dec is not None and ref is not None and dec != ref,
                f"mapped iff `{dec}` - the same decision in submission and processing", f"{f.name} treats a function as mapped iff `{dec}` but {ref_f.name} iff `{ref}`: a task is unpacked in the wrong form", "mapped / single decision not recognised", key=f"map-or-single {f.name}")


def _iter_sources(f: FuncInfo, words: tuple[str, ...]) -> list[tuple[ast.AST, str]]:
    d = Defs(f)
    return [(it["node"], norm(d.resolve(it["iter"]))) for it in iterations(f.node) if any(w in norm(d.resolve(it["iter"])) for w in words)]


def rule_topological(ctx: Ctx) -> None:
    P = ctx.prog
    for q in (f"{RUN}.run_map", f"{RUN}.run_map_async._run_pipeline", "pipefunc.map.adaptive.create_learners"):
        f = P.func(q)
        src = _iter_sources(f, ("generation", "functions"))
        topo = [s_ for s_ in src if "topological_generations" in s_[1] or "sorted_functions" in s_[1]]
        listing = [s_ for s_ in src if s_[1].rstrip(")]").endswith(".functions") and "sorted_functions" not in s_[1]]
        ctx.tri("4-topological", f, (listing or topo or [(f.node, "")])[0][0], bool(topo) and not listing, bool(listing), "iterates topological generations",
                f"`{listing[0][1] if listing else ''}` is the listing order, not the topological order: a consumer can run before its producer", "iteration over the functions not recognised", key=f"generations {f.name}")
    ms = P.func("pipefunc.map._shapes.map_shapes")
    src = _iter_sources(ms, ("functions",))
    topo = [s_ for s_ in src if "sorted_functions" in s_[1] or "topological_generations" in s_[1]]
    listing = [s_ for s_ in src if "pipeline.functions" in s_[1]]
    ctx.tri("4-topological", ms, (listing or topo or [(ms.node, "")])[0][0], bool(topo) and not listing, bool(listing), "shapes are inferred in topological order (producers before consumers)",
            "map_shapes walks pipeline.functions (listing order): a consumer listed before its producer finds no input shape and a valid pipeline is refused", "iteration over the functions not recognised", key="map-shapes-order")
    sfs = P.func("pipefunc._pipeline._base.Pipeline.sorted_functions")
    ctx.tri("4-topological", sfs, sfs.node, "topological_generations" in norm(sfs.node), False, "sorted_functions flattens the generations", "", "sorted_functions not recognised", key="sorted-functions")
    stores = [s_ for s_ in ast.walk(ms.node) if isinstance(s_, ast.Assign) and any(isinstance(t, ast.Subscript) and norm(t.value) == "shapes" for t in s_.targets)]
    per_name = [it for it in iterations(ms.node) if "output_name" in norm(it["iter"]) and any(isinstance(x, ast.Assign) and any(isinstance(t, ast.Subscript) and norm(t.value) == "shapes" for t in x.targets) for x in ast.walk(it["node"]))]
    ctx.tri("4-topological", ms, ms.node, bool(stores) and bool(per_name), False, "every name of a tuple output gets the inferred shape, which then feeds the consumers", "", "propagation of output shapes not recognised", key="propagation")


def rule_outputs(ctx: Ctx) -> None:
    P = ctx.prog
    for q, what in ((f"{RUN}._pick_output", "one picked value per output name"), (f"{RUN}._prepare_submit_map_spec", "arrays listed per output name"), (f"{RUN}._output_from_mapspec_task", "arrays listed per output name"),
                    (f"{RUN}._init_result_arrays", "one result array per output name"), (f"{RUN}._to_result_dict", "one Result per output name"), (f"{RUN}._dump_single_output", "unmapped tuple outputs are stored per name")):
        f = P.maybe_func(q)
        if f is None:
            ctx.add("5-outputs", q, "", None, f"UNDECIDED: {q} not found", key=f"order {q.rsplit('.', 1)[-1]}")
            continue
        d = Defs(f)
        its = [it for it in iterations(f.node) if "output_name" in norm(d.resolve(it["iter"]))]
        bad = [it for it in its if reordered(d.resolve(it["iter"]))]
        ctx.tri("5-outputs", f, (bad or its or [{"node": f.node}])[0]["node"], bool(its) and not bad, bool(bad), f"{what}, in output-name order",
                f"`{norm(bad[0]['iter']) if bad else ''}` re-orders the output names: values, arrays and names are paired by position, so outputs are stored under each other's names", "iteration over the output names not recognised", key=f"order {f.name}")
    ua = P.func(f"{RUN}._update_array")
    d = Defs(ua)
    zips = [c for c in ast.walk(ua.node) if isinstance(c, ast.Call) and dotted(c.func) == "zip" and len(c.args) == 2]
    ps = ua.param_names()
    pair = [c for c in zips if {norm(d.resolve(a)) for a in c.args} == {"arrays", "outputs"} and {"arrays", "outputs"} <= set(ps)]
    ctx.tri("5-outputs", ua, pair[0] if pair else ua.node, bool(pair), False, "arrays and picked outputs are paired position by position", "", "pairing of arrays and outputs not recognised", key="pair-arrays")


def rule_inputs_over_defaults(ctx: Ctx) -> None:
    """Wherever the map machinery merges defaults with supplied inputs, the supplied value wins (shapes, kwargs and runs
    must all see the same value for an argument)."""
    P = ctx.prog
    n = 0
    for m in ("pipefunc.map._shapes", "pipefunc.map._run", "pipefunc.map._prepare", "pipefunc.map._run_info", "pipefunc.map.adaptive", "pipefunc.map.xarray", "pipefunc.map._load"):
        for fn in P.functions_in(m):
            for node, ops in all_merges(fn.node):
                kinds = ["defaults" if "defaults" in norm(o) and "inputs" not in norm(o) else ("inputs" if "inputs" in norm(o) and "defaults" not in norm(o) else "?") for o in ops]
                if "defaults" not in kinds or "inputs" not in kinds:
                    continue
                if any((isinstance(o, ast.Call) and dotted(o.func) in ("set", "frozenset")) or norm(o).endswith(".keys()") or isinstance(o, (ast.Set, ast.SetComp)) for o in ops):
                    continue  # a union of name sets: order is irrelevant
                n += 1
                ok = kinds.index("defaults") < len(kinds) - 1 - kinds[::-1].index("inputs")
                ctx.add("3-whole-arrays", fn, node, ok, "supplied inputs override defaults" if ok else
                        f"`{norm(node)[:60]}` lets a DEFAULT override the supplied input: the shape/value used here differs from the array the function is called with (a longer override is truncated, a shorter one raises IndexError)", key=f"inputs-over-defaults {fn.name}")
    ctx.floor("3-whole-arrays.merges", n, 1)


def rule_caller_shapes_win(ctx: Ctx) -> None:
    """The internal shapes handed to map() take precedence over the ones declared on the functions (`PipeFunc(internal_shape=)`):
    where the two are merged, a declared shape only FILLS what the caller left open.  Structurally: every store into the mapping
    that starts out as the caller's `internal_shapes` (or a copy of it) is a setdefault or sits under a membership test of that
    mapping.  An unconditional store lets the declaration override the call: the output is allocated with the declared size and
    a longer result is silently truncated (a shorter one raises IndexError)."""
    P = ctx.prog
    n = 0
    for fn in P.functions_in("pipefunc.map._run_info"):
        params = [p_ for p_ in fn.param_names() if p_ == "internal_shapes"]
        if not params:
            continue
        p0 = params[0]
        names = {p0}
        for a in walk_no_nested(fn.node):  # copies: shapes = dict(internal_shapes) if internal_shapes else {}
            if isinstance(a, (ast.Assign, ast.AnnAssign)) and a.value is not None and any(isinstance(x, ast.Name) and x.id == p0 for x in ast.walk(a.value)):
                tg = a.targets if isinstance(a, ast.Assign) else [a.target]
                names |= {t.id for t in tg if isinstance(t, ast.Name)}
        par = {id(c): q for q in ast.walk(fn.node) for c in ast.iter_child_nodes(q)}
        for st in walk_no_nested(fn.node):
            if not (isinstance(st, ast.Assign) and any(isinstance(t, ast.Subscript) and isinstance(t.value, ast.Name) and t.value.id in names for t in st.targets)):
                continue
            if not any("internal_shape" in norm(x) for x in ast.walk(st.value) if isinstance(x, ast.Attribute)):
                continue  # not the declared shape of a function
            n += 1
            store_key = next(norm(t.slice) for t in st.targets if isinstance(t, ast.Subscript))
            tests: list[ast.Compare] = []  # membership tests of the mapping that decide whether the store runs
            x: ast.AST = st
            while id(x) in par:
                child, x = x, par[id(x)]
                if isinstance(x, ast.If):
                    tests += [c for c in ast.walk(x.test) if isinstance(c, ast.Compare) and isinstance(c.ops[0], (ast.In, ast.NotIn)) and isinstance(c.comparators[0], ast.Name) and c.comparators[0].id in names]
                if isinstance(x, (ast.For, ast.While)):
                    # `if k in shapes: continue` earlier in the enclosing loop body
                    for sib in x.body:
                        if sib is child:
                            break
                        if isinstance(sib, ast.If) and sib.body and isinstance(sib.body[-1], ast.Continue):
                            tests += [c for c in ast.walk(sib.test) if isinstance(c, ast.Compare) and isinstance(c.ops[0], ast.In) and isinstance(c.comparators[0], ast.Name) and c.comparators[0].id in names]
            same_key = [c for c in tests if norm(c.left) == store_key]
            ctx.tri("3-whole-arrays", fn, st, bool(same_key), not same_key, f"`{norm(st)[:50]}`: a declared internal shape only fills what the caller left open",
                    (f"`{norm(st)[:60]}` stores the shape declared on the function under the key `{store_key}`, but the test that is meant to protect the caller's entries asks for `{norm(tests[0].left)}` "
                     "(the whole output name - a tuple for a multi-output function, which is never a key): " if tests else f"`{norm(st)[:60]}` stores the shape declared on the function unconditionally: ") +
                    "it overrides the `internal_shapes` the caller passed to map(), the output array is allocated with the declared size (a longer result is truncated silently, a shorter one raises IndexError)",
                    key=f"caller-shapes-win {fn.name}")
        for c in walk_no_nested(fn.node):  # the spelled-in form: shapes.setdefault(name, f.internal_shape)
            if isinstance(c, ast.Call) and isinstance(c.func, ast.Attribute) and c.func.attr == "setdefault" and isinstance(c.func.value, ast.Name) and c.func.value.id in names and len(c.args) == 2 \
                    and any("internal_shape" in norm(x_) for x_ in ast.walk(c.args[1]) if isinstance(x_, ast.Attribute)):
                n += 1
                ctx.add("3-whole-arrays", fn, c, True, f"`{norm(c)[:60]}`: a declared internal shape only fills what the caller left open", key=f"caller-shapes-win {fn.name}")
    ctx.floor("3-whole-arrays.declared-shape-stores", n, 1)


def check(ctx: Ctx) -> None:
    for rule in (rule_caller_shapes_win, rule_inputs_over_defaults, rule_rank_domain, rule_foreign_key, rule_whole_arrays, rule_topological, rule_outputs):
        ctx.run(rule)


R, M, S, B = "pipefunc/map/_run.py", "pipefunc/_pipeline/_mapspec.py", "pipefunc/map/_shapes.py", "pipefunc/map/_storage_array/_base.py"
MUTANTS = [
    Mutant("caller-shapes-guard-on-whole-output-name-F41", "pipefunc/map/_run_info.py",
           "        if f.internal_shape is None:\n            continue\n        for output_name in at_least_tuple(f.output_name):\n            if output_name in internal_shapes:  # provided by the caller, which takes precedence\n                continue\n            internal_shapes[output_name] = f.internal_shape\n",
           "        if f.output_name in internal_shapes:\n            continue\n        if f.internal_shape is None:\n            continue\n        for output_name in at_least_tuple(f.output_name):\n            internal_shapes[output_name] = f.internal_shape\n",
           ("C01.3-whole-arrays",), why="original F41"),
    Mutant("declared-shape-overrides-caller", "pipefunc/map/_run_info.py", "            if output_name in internal_shapes:  # provided by the caller, which takes precedence\n                continue\n", "", ("C01.3-whole-arrays",), why="round-4 seed C01/11"),
    Mutant("defaults-override-inputs-in-shapes", S, "    inputs_with_defaults = pipeline.defaults | inputs\n", "    inputs_with_defaults = inputs | pipeline.defaults\n", ("C01.3-whole-arrays",), why="round-2 seed C01/4"),
    Mutant("select-kwargs-full-shape", R, "    input_keys = func.mapspec.input_keys(external_shape, index)\n", "    input_keys = func.mapspec.input_keys(shape, index)\n", ("C01.1-rank-domain",)),
    Mutant("set-output-internal-for-external", R, "    external_shape = external_shape_from_mask(shape, shape_mask)\n    internal_shape = internal_shape_from_mask(shape, shape_mask)\n    external_index", "    external_shape = internal_shape_from_mask(shape, shape_mask)\n    internal_shape = internal_shape_from_mask(shape, shape_mask)\n    external_index", ("C01.1-rank-domain",)),
    Mutant("flat-index-swapped-operands", R, "    full_index = select_by_mask(shape_mask, external_index, internal_index)\n", "    full_index = select_by_mask(shape_mask, internal_index, external_index)\n", ("C01.1-rank-domain",)),
    Mutant("set-output-contiguous-slice", R, "        arr[flat_index] = output[internal_index]\n", "        arr[flat_index] = output[internal_index]\n    n = prod(internal_shape)\n    arr[linear_index * n : (linear_index + 1) * n] = np.asarray(output).ravel()\n", ("C01.1-rank-domain",), why="seeded C01/1"),
    Mutant("update-array-key-from-full-shape", R, "                external_shape = external_shape_from_mask(shape, shape_mask)\n                output_key", "                external_shape = shape\n                output_key", ("C01.1-rank-domain",)),
    Mutant("external-shape-wrong-polarity", S, "    return tuple(s for s, m in zip(shape, mask) if m)\n", "    return tuple(s for s, m in zip(shape, mask) if not m)\n", ("C01.1-rank-domain",)),
    Mutant("mask-fixed-axes-no-external-key", R, "    external_key = external_shape_from_mask(key, shape_mask)  # type: ignore[arg-type]\n", "    external_key = key\n", ("C01.1-rank-domain",)),
    Mutant("result-array-index-without-guard", R, "        if not all(mask):\n            _output = np.asarray(_output)  # In case _output is a list\n            _set_output(result_array, _output, index, shape, mask)\n        else:\n            result_array[index] = _output\n", "        result_array[index] = _output\n", ("C01.1-rank-domain",)),
    Mutant("init-arrays-full-shape", "pipefunc/map/_run_info.py", "    return [storage_class(path, external_shape, internal_shape, mask) for path in paths]\n", "    return [storage_class(path, shape, internal_shape, mask) for path in paths]\n", ("C01.1-rank-domain",)),
    Mutant("normalize-key-original-F01", B, "    key_mask = (True,) * expected_rank if for_dump else shape_mask\n", "    key_mask = shape_mask\n", ("C01.1-rank-domain",), why="original F01"),
    Mutant("foreign-key-original-F02", M, "                        if output_name in non_root_inputs:\n                            non_root_inputs[output_name][j] = new_axis\n", "                        non_root_inputs[output_name][j] = new_axis\n", ("C01.2-foreign-key",), why="original F02"),
    Mutant("select-does-not-load", R, "    _load_arrays(selected)\n    return selected\n", "    return selected\n", ("C01.3-whole-arrays",)),
    Mutant("single-does-not-load", R, "    # Otherwise, run the function\n    _load_arrays(kwargs)\n", "    # Otherwise, run the function\n", ("C01.3-whole-arrays",)),
    Mutant("map-shapes-listing-order", S, "    mapspec_funcs = [f for f in pipeline.sorted_functions if f.mapspec]\n", "    mapspec_funcs = [f for f in pipeline.functions if f.mapspec]\n", ("C01.4-topological",), why="seeded C01/3"),
    Mutant("run-map-listing-order", R, "        for gen in pipeline.topological_generations.function_lists:\n            _run_and_process_generation(\n", "        for gen in [pipeline.functions]:\n            _run_and_process_generation(\n", ("C01.4-topological",)),
    Mutant("pick-output-reversed", R, "        for output_name in at_least_tuple(func.output_name)\n    )\n\n\ndef _get_or_set_cache", "        for output_name in reversed(at_least_tuple(func.output_name))\n    )\n\n\ndef _get_or_set_cache", ("C01.5-outputs",)),
    Mutant("twin-select-kwargs-local", R, "    external_shape = external_shape_from_mask(shape, shape_mask)\n    input_keys = func.mapspec.input_keys(external_shape, index)\n", "    ext = external_shape_from_mask(shape, shape_mask)\n    input_keys = func.mapspec.input_keys(ext, index)\n", twin=True),
    Mutant("twin-set-output-inline-helper", R, "    external_index = _shape_to_key(external_shape, linear_index)\n    assert np.shape(output) == internal_shape\n", "    external_index = _shape_to_key(external_shape, linear_index)\n", twin=True),
]
