"""C01 - map results equal the MapSpec denotation (index-domain soundness of the map kernel, not the values).

  1 rank-domain  Rule K (sa/kinds.py): every position-wise pairing of shapes, masks, keys, and every linear index in the
                 map kernel stays within one index space (EXT / INT / FULL); no contiguity assumption on the flat result
  2 foreign-key  in MapSpec autogeneration a dict is only read with a key that iterates another mapping after `k in D`
  3 whole-arrays unsliced arguments are materialised (StorageBase -> array) before the user call; sliced ones are cut
                 with exactly the keys MapSpec.input_keys returns
  4 topological  work is submitted, shapes are inferred and learners are built along the topological order
  5 outputs      every output of a function gets its own picked value, array and result entry, in output-name order
"""

from __future__ import annotations

import ast

from ..cfg import ENTRY, EXIT
from ..loader import AnalysisError, dotted, norm, walk_no_nested
from ..report import Ctx
from ..selftest import Mutant
from . import kinds_driver

PROP = "C01"
RUN = "pipefunc.map._run"
EXPLANATION = (
    "Static analysis of the map kernel: a purpose-built rank-domain type system (external / internal / full index "
    "spaces, masks, linear indices) is inferred through _run.py, _shapes.py, _run_info.py, _mapspec.py and the storage "
    "API and every position-wise pairing is checked (Rule K), for all shapes and masks at once; plus def-use/guard rules "
    "for MapSpec autogeneration, must-pass-through of array materialisation, and the iteration source of every loop that "
    "depends on topological order."
)
TRUSTED = ["CPython ast parser", "seed kinds of sa/kinds.py (each justified by the line of pipefunc it was read from)", "numpy ravel/unravel are row-major by default"]
DECLINED = [
    "equality of each output element with the MapSpec denotation (value-level)",
    "zip vs outer product by index *name* (dict(zip(external_indices, key)) is right by an ordering argument about names: see C08.6)",
    "list-vs-ndarray input handling; behaviour of user functions",
]
KIND_MODULES = ("pipefunc.map._run", "pipefunc.map._shapes", "pipefunc.map._run_info", "pipefunc.map._mapspec", "pipefunc.map._storage_array._base")


def check(ctx: Ctx) -> None:  # noqa: C901, PLR0915
    P = ctx.prog
    # ------------------------------------------------------------ 1 rank-domain
    findings, stats = kinds_driver.analyse(ctx, KIND_MODULES)
    kinds_driver.emit(ctx, "1-rank-domain", findings, 60)
    ctx.note(f"kind analysis: {stats}")

    # ------------------------------------------------------------ 2 foreign-key
    n2 = 0
    targets = [*P.functions_in("pipefunc._pipeline._mapspec"), P.func("pipefunc._pipeline._base.Pipeline._autogen_mapspec_axes")]
    for fn in targets:
        par = {id(c): p for p in ast.walk(fn.node) for c in ast.iter_child_nodes(p)}
        for loop in [lp for lp in walk_no_nested(fn.node) if isinstance(lp, ast.For) and isinstance(lp.target, ast.Name)]:
            var = loop.target.id
            src_maps = {n.id for n in ast.walk(loop.iter) if isinstance(n, ast.Name)}
            # follow one level of local definitions: `missing = D.keys() & E.keys()`; `for p in missing`
            for nm in list(src_maps):
                for a in walk_no_nested(fn.node):
                    tg = a.targets[0] if isinstance(a, ast.Assign) else (a.target if isinstance(a, ast.AnnAssign) else None)
                    if tg is not None and isinstance(tg, ast.Name) and tg.id == nm and a.value is not None:
                        inter = isinstance(a.value, ast.BinOp) and isinstance(a.value.op, ast.BitAnd)
                        if inter:
                            src_maps |= {n.id for n in ast.walk(a.value) if isinstance(n, ast.Name)}
            for sub in [s for st in loop.body for s in ast.walk(st) if isinstance(s, ast.Subscript) and isinstance(s.ctx, ast.Load) and isinstance(s.value, ast.Name) and isinstance(s.slice, ast.Name) and s.slice.id == var]:
                d = sub.value.id
                if d in src_maps:
                    continue  # iterating the mapping itself (or something derived from its keys)
                n2 += 1
                guarded = False
                x: ast.AST = sub
                while id(x) in par and x is not loop:
                    child, x = x, par[id(x)]
                    if isinstance(x, ast.If) and child in x.body and norm(x.test) == f"{var} in {d}":
                        guarded = True
                ctx.add("2-foreign-key", fn, sub, guarded, f"`{d}[{var}]` is read under `if {var} in {d}`" if guarded else
                        f"`{d}[{var}]`: `{var}` iterates `{norm(loop.iter)}`, not `{d}`; a valid spec whose name is absent from `{d}` is refused with KeyError at construction", key=f"{d}[{var}] in {fn.name}")
    ctx.floor("2-foreign-key", n2, 1)
    fr = P.func("pipefunc._pipeline._mapspec.find_non_root_axes")
    ok = "if spec.name not in non_root_inputs" in norm(fr.node) and "non_root_inputs[spec.name] = spec.rank * [None]" in norm(fr.node)
    ctx.add("2-foreign-key", fr, fr.node, ok, "an entry is created before it is indexed" if ok else "find_non_root_axes indexes an entry it has not created", key="created-first")
    cm = P.func("pipefunc._pipeline._mapspec.create_missing_mapspecs")
    ok = "missing: set[str] = non_root_inputs.keys() & outputs_without_mapspec.keys()" in norm(cm.node) and "for p in missing" in norm(cm.node)
    ctx.add("2-foreign-key", cm, cm.node, ok, "only names present in both mappings are used as keys" if ok else "create_missing_mapspecs indexes with names not known to be in both mappings", key="intersection")

    # ------------------------------------------------------------ 3 whole-arrays
    sk = P.func(f"{RUN}._select_kwargs")
    cfg = ctx.cfg(sk)
    la = set(cfg.nodes(lambda s: isinstance(s, ast.Expr) and isinstance(s.value, ast.Call) and dotted(s.value.func) == "_load_arrays" and norm(s.value.args[0]) == "selected"))
    ok = bool(la) and cfg.must_pass(ENTRY, EXIT, la, normal_only=True)
    ctx.add("3-whole-arrays", sk, sk.node, ok, "unsliced arguments of a mapped call are materialised before they are returned" if ok else "_select_kwargs can hand storage handles (not arrays) to the user function", key="select-loads")
    src = norm(sk.node)
    ik_calls = [c for c in ast.walk(sk.node) if isinstance(c, ast.Call) and isinstance(c.func, ast.Attribute) and c.func.attr == "input_keys"]
    ok = len(ik_calls) == 1 and len(ik_calls[0].args) == 2 and norm(ik_calls[0].args[1]) == "index" and "normalized_keys = {k: v[0] if len(v) == 1 else v for k, v in input_keys.items()}" in src \
        and "selected = {k: v[normalized_keys[k]] if k in normalized_keys else v for k, v in kwargs.items()}" in src
    ctx.add("3-whole-arrays", sk, sk.node, ok, "each mapped argument is sliced with its own input key, all others pass whole" if ok else "the slicing of mapped arguments changed (keys, or which arguments are sliced)", key="slicing")
    es = P.func(f"{RUN}._execute_single")
    cfg = ctx.cfg(es)
    la = cfg.nodes(lambda s: isinstance(s, ast.Expr) and isinstance(s.value, ast.Call) and dotted(s.value.func) == "_load_arrays" and norm(s.value.args[0]) == "kwargs")
    runs = cfg.nodes(lambda s: isinstance(s, ast.Return) and "_get_or_set_cache" in norm(s))
    ok = bool(la) and bool(runs) and all(cfg.dominates(la[0], r) for r in runs)
    ctx.add("3-whole-arrays", es, cfg.stmt[la[0]] if la else es.node, ok, "a function without MapSpec receives whole arrays" if ok else "_execute_single calls the function with storage handles", key="single-loads")
    ml = P.func(f"{RUN}._maybe_load_array")
    ok = "isinstance(x, StorageBase)" in norm(ml.node) and "return x.to_array()" in norm(ml.node)
    ctx.add("3-whole-arrays", ml, ml.node, ok, "storage handles become arrays via to_array()" if ok else "_maybe_load_array changed", key="to-array")
    lar = P.func(f"{RUN}._load_arrays")
    ok = "for k, v in kwargs.items()" in norm(lar.node) and "kwargs[k] = _maybe_load_array(v)" in norm(lar.node)
    ctx.add("3-whole-arrays", lar, lar.node, ok, "every argument is materialised" if ok else "_load_arrays skips arguments", key="load-all")
    rip = P.func(f"{RUN}._run_iteration_and_process")
    src = norm(rip.node)
    ok = "selected = _select_kwargs_and_eval_resources(func, kwargs, shape, shape_mask, index)" in src and "output = _run_iteration(func, selected, cache)" in src and "outputs = _pick_output(func, output)" in src
    ctx.add("3-whole-arrays", rip, rip.node, ok, "element run: select -> call -> pick outputs" if ok else "_run_iteration_and_process pipeline changed", key="element-pipeline")
    sf = P.func(f"{RUN}._submit_func")
    tests = [norm(s.test) for s in walk_no_nested(sf.node) if isinstance(s, ast.If)]
    ok = "func.mapspec and func.mapspec.inputs" in tests
    ctx.add("3-whole-arrays", sf, sf.node, ok, "mapped iff the MapSpec has inputs; otherwise called once" if ok else "the mapped / single-call decision changed", key="map-or-single")
    for q in (f"{RUN}._process_task", f"{RUN}._process_task_async"):
        f = P.func(q)
        tests = [norm(s.test) for s in walk_no_nested(f.node) if isinstance(s, ast.If)]
        ok = "func.mapspec and func.mapspec.inputs" in tests
        ctx.add("3-whole-arrays", f, f.node, ok, "processing uses the same mapped / single decision as submission" if ok else "submission and processing disagree about which functions are mapped", key=f"map-or-single {f.name}")

    # ------------------------------------------------------------ 4 topological
    for q, it in ((f"{RUN}.run_map", "pipeline.topological_generations.function_lists"), (f"{RUN}.run_map_async._run_pipeline", "pipeline.topological_generations.function_lists"),
                  ("pipefunc.map.adaptive.create_learners", "pipeline.topological_generations.function_lists")):
        f = P.func(q)
        loops = [lp for lp in walk_no_nested(f.node) if isinstance(lp, ast.For) and ("generation" in norm(lp.iter) or "functions" in norm(lp.iter))]
        ok = bool(loops) and any(norm(lp.iter) == it for lp in loops)
        ctx.add("4-topological", f, loops[0] if loops else f.node, ok, "iterates topological generations" if ok else f"`{norm(loops[0].iter) if loops else '?'}` is not the topological generation order", key=f"generations {f.name}")
    ms = P.func("pipefunc.map._shapes.map_shapes")
    src = norm(ms.node)
    ok = "mapspec_funcs = [f for f in pipeline.sorted_functions if f.mapspec]" in src and "for func in mapspec_funcs" in src
    ctx.add("4-topological", ms, ms.node, ok, "shapes are inferred in topological order (producers before consumers)" if ok else
            "map_shapes no longer walks pipeline.sorted_functions: a consumer listed before its producer finds no input shape and a valid pipeline is refused", key="map-shapes-order")
    sfs = P.func("pipefunc._pipeline._base.Pipeline.sorted_functions")
    ok = "for gen in self.topological_generations.function_lists for f in gen" in norm(sfs.node)
    ctx.add("4-topological", sfs, sfs.node, ok, "sorted_functions flattens the generations" if ok else "sorted_functions is no longer derived from topological_generations", key="sorted-functions")
    ok = "input_shapes = {p: shapes[p] for p in func.mapspec.input_names if p in shapes}" in src and "func.mapspec.shape(input_shapes, output_shapes)" in src and "shapes[func.output_name] = output_shape" in src
    ctx.add("4-topological", ms, ms.node, ok, "each function's output shape feeds its consumers" if ok else "map_shapes no longer propagates output shapes to consumers", key="propagation")
    ok = "for output_name in func.output_name" in src and "shapes[output_name] = output_shape" in src and "masks[output_name] = mask" in src
    ctx.add("4-topological", ms, ms.node, ok, "every name of a tuple output gets the shape and mask" if ok else "tuple outputs do not get shapes per name", key="tuple-shapes")
    ok = "shapes: dict[OUTPUT_TYPE, tuple[int, ...]] = {p: array_shape(inputs_with_defaults[p], p) for p in input_parameters if p in pipeline.mapspec_names}" in src and "inputs_with_defaults = pipeline.defaults | inputs" in src
    ctx.add("4-topological", ms, ms.node, ok, "input shapes come from the supplied inputs (over defaults) of mapped root arguments" if ok else "root input shapes are taken from other sources", key="root-shapes")

    # ------------------------------------------------------------ 5 outputs
    po = P.func(f"{RUN}._pick_output")
    ok = "for output_name in at_least_tuple(func.output_name)" in norm(po.node) and "func.output_picker(output, output_name) if func.output_picker is not None else output" in norm(po.node)
    ctx.add("5-outputs", po, po.node, ok, "one picked value per output name, in output-name order" if ok else "_pick_output changed", key="pick")
    ua = P.func(f"{RUN}._update_array")
    ok = "for array, _output in zip(arrays, outputs)" in norm(ua.node)
    ctx.add("5-outputs", ua, ua.node, ok, "arrays and picked outputs are paired in the same order" if ok else "_update_array pairs arrays and outputs differently", key="pair-arrays")
    for q in (f"{RUN}._prepare_submit_map_spec", f"{RUN}._output_from_mapspec_task"):
        f = P.maybe_func(q)
        if f is None:
            continue
        ok = "[store[name] for name in at_least_tuple(func.output_name)]" in norm(f.node)
        ctx.add("5-outputs", f, f.node, ok, "arrays listed in output-name order" if ok else "arrays are not listed in output-name order", key=f"arrays-order {f.name}")
    ira = P.maybe_func(f"{RUN}._init_result_arrays")
    if ira is not None:
        ok = "np.empty(prod(shape), dtype=object) for _ in at_least_tuple(output_name)" in norm(ira.node)
        ctx.add("5-outputs", ira, ira.node, ok, "one flat object array of the FULL size per output" if ok else "_init_result_arrays changed", key="result-arrays")
    tr = P.func(f"{RUN}._to_result_dict")
    ok = "for output_name, _output in zip(at_least_tuple(func.output_name), output)" in norm(tr.node) and "store=store[output_name]" in norm(tr.node) and "output=_output" in norm(tr.node)
    ctx.add("5-outputs", tr, tr.node, ok, "each Result carries its own output and store" if ok else "_to_result_dict pairs names, outputs and stores differently", key="result-dict")
    ds = P.func(f"{RUN}._dump_single_output")
    ok = "for output_name in func.output_name" in norm(ds.node) and "_output = func.output_picker(output, output_name)" in norm(ds.node) and "_single_dump_single_output(_output, output_name, store)" in norm(ds.node)
    ctx.add("5-outputs", ds, ds.node, ok, "unmapped tuple outputs are stored per name" if ok else "_dump_single_output changed", key="single-dump")


R, M, S, B = "pipefunc/map/_run.py", "pipefunc/_pipeline/_mapspec.py", "pipefunc/map/_shapes.py", "pipefunc/map/_storage_array/_base.py"
MUTANTS = [
    Mutant("select-kwargs-full-shape", R, "    input_keys = func.mapspec.input_keys(external_shape, index)\n", "    input_keys = func.mapspec.input_keys(shape, index)\n", ("C01.1-rank-domain",)),
    Mutant("set-output-internal-for-external", R, "    external_shape = external_shape_from_mask(shape, shape_mask)\n    internal_shape = internal_shape_from_mask(shape, shape_mask)\n    external_index", "    external_shape = internal_shape_from_mask(shape, shape_mask)\n    internal_shape = internal_shape_from_mask(shape, shape_mask)\n    external_index", ("C01.1-rank-domain",)),
    Mutant("flat-index-swapped-operands", R, "    full_index = select_by_mask(shape_mask, external_index, internal_index)\n", "    full_index = select_by_mask(shape_mask, internal_index, external_index)\n", ("C01.1-rank-domain",)),
    Mutant("set-output-contiguous-slice", R, "        arr[flat_index] = output[internal_index]\n", "        arr[flat_index] = output[internal_index]\n    n = prod(internal_shape)\n    arr[linear_index * n : (linear_index + 1) * n] = np.asarray(output).ravel()\n", ("C01.1-rank-domain",), why="seeded C01/1"),
    Mutant("update-array-key-from-full-shape", R, "                external_shape = external_shape_from_mask(shape, shape_mask)\n                output_key", "                external_shape = shape\n                output_key", ("C01.1-rank-domain",)),
    Mutant("external-shape-wrong-polarity", S, "    return tuple(s for s, m in zip(shape, mask) if m)\n", "    return tuple(s for s, m in zip(shape, mask) if not m)\n", ("C01.1-rank-domain",)),
    Mutant("mask-fixed-axes-no-external-key", R, "    external_key = external_shape_from_mask(key, shape_mask)  # type: ignore[arg-type]\n", "    external_key = key\n", ("C01.1-rank-domain",)),
    Mutant("result-array-index-without-guard", R, "        if not all(mask):\n            _output = np.asarray(_output)  # In case _output is a list\n            _set_output(result_array, _output, index, shape, mask)\n        else:\n            result_array[index] = _output\n", "        result_array[index] = _output\n", ("C01.1-rank-domain",)),
    Mutant("init-arrays-full-shape", "pipefunc/map/_run_info.py", "    return [storage_class(path, external_shape, internal_shape, mask) for path in paths]\n", "    return [storage_class(path, shape, internal_shape, mask) for path in paths]\n", ("C01.1-rank-domain",)),
    Mutant("normalize-key-original-F01", B, "    key_mask = (True,) * expected_rank if for_dump else shape_mask\n", "    key_mask = shape_mask\n", ("C01.1-rank-domain",), why="original F01"),
    Mutant("foreign-key-original-F02", M, "                        if output_name in non_root_inputs:\n                            non_root_inputs[output_name][j] = new_axis\n", "                        non_root_inputs[output_name][j] = new_axis\n", ("C01.2-foreign-key",), why="original F02"),
    Mutant("select-does-not-load", R, "    _load_arrays(selected)\n    return selected\n", "    return selected\n", ("C01.3-whole-arrays",)),
    Mutant("single-does-not-load", R, "    # Otherwise, run the function\n    _load_arrays(kwargs)\n", "    # Otherwise, run the function\n", ("C01.3-whole-arrays",)),
    Mutant("map-shapes-listing-order", S, "    mapspec_funcs = [f for f in pipeline.sorted_functions if f.mapspec]\n", "    mapspec_funcs = [f for f in pipeline.functions if f.mapspec]\n", ("C01.4-topological",), why="seeded C01/3"),
    Mutant("run-map-listing-order", R, "        for gen in pipeline.topological_generations.function_lists:\n            _run_and_process_generation(\n", "        for gen in [pipeline.functions]:\n            _run_and_process_generation(\n", ("C01.4-topological",)),
    Mutant("pick-output-reversed", R, "        for output_name in at_least_tuple(func.output_name)\n    )\n\n\ndef _get_or_set_cache", "        for output_name in reversed(at_least_tuple(func.output_name))\n    )\n\n\ndef _get_or_set_cache", ("C01.5-outputs",)),
    Mutant("twin-select-kwargs-local", R, "    external_shape = external_shape_from_mask(shape, shape_mask)\n    input_keys = func.mapspec.input_keys(external_shape, index)\n", "    ext = external_shape_from_mask(shape, shape_mask)\n    input_keys = func.mapspec.input_keys(ext, index)\n", twin=True),
    Mutant("twin-set-output-inline-helper", R, "    external_index = _shape_to_key(external_shape, linear_index)\n    assert np.shape(output) == internal_shape\n", "    external_index = _shape_to_key(external_shape, linear_index)\n", twin=True),
]
