"""C07 - every storage backend behaves as a masked n-d object array (structural clauses).

  1 rank-domain  Rule K (sa/kinds.py) inside _base.py, _file.py, _dict.py: keys are bounded against their own axis,
                 FULL keys are split into EXT/INT parts by the mask, dump keys are EXT, file numbers are LIN(EXT),
                 StorageBase.strides/full_shape/size are over their declared spaces
  2 normaliser   in every backend that interprets keys itself, __getitem__ and dump reach normalize_key before the key
                 is used for anything else; normalize_key raises IndexError for wrong rank and out-of-range components
  3 interface    every class passed to register_storage overrides every abstract member of StorageBase with the same
                 parameter names and defines storage_id / requires_serialization
  4 row-major    linear indices enumerate range(size) over the external shape; no order= on ravel/unravel (rule 1);
                 file names are a function of the linear index only
  5 siblings     all backends convert a stored element with np.asarray before internal indexing and report a missing
                 element as masked
"""

from __future__ import annotations

import ast

from ..cfg import ENTRY
from ..loader import AnalysisError, dotted, norm, walk_no_nested
from ..report import Ctx
from ..selftest import Mutant
from . import kinds_driver

PROP = "C07"
SA = "pipefunc.map._storage_array"
EXPLANATION = (
    "Static analysis of the storage backends: the rank-domain type system of sa/kinds.py over _base.py, _file.py and "
    "_dict.py (both values of for_dump analysed separately), CFG dominance of the key normaliser over every other use of "
    "the key, an interface-conformance table for the registered classes, and sibling comparison of the element access paths."
)
TRUSTED = ["CPython ast parser", "seed kinds of sa/kinds.py", "numpy indexing semantics for slices"]
DECLINED = [
    "read-your-writes equality, masked-ness of unwritten elements and agreement of backends over operation histories (needs execution)",
    "the three zarr classes: they index zarr arrays directly and cannot be imported in this sandbox (they take part in clause 3 only)",
]
KEYED = (f"{SA}._file.FileArray", f"{SA}._dict.DictArray")


def check(ctx: Ctx) -> None:  # noqa: C901, PLR0915
    P = ctx.prog
    findings, stats = kinds_driver.analyse(ctx, (SA, "pipefunc.map._storage_array"))
    kinds_driver.emit(ctx, "1-rank-domain", [f for f in findings if f.fn.module.name.startswith(SA)], 60)
    ctx.note(f"kind analysis: {stats}")

    # ------------------------------------------------------------ 2 normaliser
    for cq in KEYED:
        cls = P.cls(cq)
        for mname in ("__getitem__", "dump"):
            fn = cls.methods[mname]
            cfg = ctx.cfg(fn)
            norm_nodes = cfg.nodes(lambda s: isinstance(s, ast.Assign) and isinstance(s.value, ast.Call) and dotted(s.value.func).rsplit(".", 1)[-1] in ("normalize_key", "_normalize_key")
                                   and s.value.args and norm(s.value.args[0]) == "key")
            if not norm_nodes:
                ctx.add("2-normaliser", fn, fn.node, False, f"{cls.name}.{mname} does not normalise its key", key=f"{cls.name}.{mname}")
                continue
            n0 = norm_nodes[0]
            call = cfg.stmt[n0].value
            fd = next((k.value.value for k in call.keywords if k.arg == "for_dump" and isinstance(k.value, ast.Constant)), False)
            want = mname == "dump"
            users = [n for n in cfg.nodes() if n != n0 and any(isinstance(x, ast.Name) and x.id == "key" and isinstance(x.ctx, ast.Load) for part in _parts(cfg.stmt[n]) for x in ast.walk(part))]
            dominated = all(cfg.dominates(n0, u) for u in users)
            ok = dominated and fd == want
            ctx.add("2-normaliser", fn, cfg.stmt[n0], ok, f"normalised (for_dump={fd}) before any other use of the key ({len(users)} later use(s))" if ok else (
                f"the key is used before/without normalisation in {cls.name}.{mname}: negative, out-of-range or wrong-rank keys behave differently from the other backends" if not dominated else
                f"{cls.name}.{mname} normalises with for_dump={fd}"), key=f"{cls.name}.{mname}")
    nk = P.func(f"{SA}._base.normalize_key")
    raises = [r for r in ast.walk(nk.node) if isinstance(r, ast.Raise)]
    ok = len(raises) >= 2 and all(r.exc is not None and norm(r.exc).startswith("IndexError(") for r in raises)
    ctx.add("2-normaliser", nk, raises[0] if raises else nk.node, ok, "wrong rank and out-of-range raise IndexError" if ok else "normalize_key does not raise IndexError for both wrong rank and out-of-range", key="indexerror")
    src = norm(nk.node)
    ok = "if len(key) != expected_rank" in src and "expected_rank = sum(shape_mask) if for_dump else len(shape_mask)" in src
    ctx.add("2-normaliser", nk, nk.node, ok, "rank: external axes when dumping, all axes when reading" if ok else "the expected rank of a key changed", key="rank")
    ok = "normalized_k = k if k >= 0 else k + axis_size" in src and "if not 0 <= normalized_k < axis_size" in src
    ctx.add("2-normaliser", nk, nk.node, ok, "negative components wrap once, then 0 <= k < axis size" if ok else "negative-index / bounds handling of normalize_key changed", key="bounds")
    ok = "if not isinstance(key, tuple)" in src and "key = (key,)" in src
    ctx.add("2-normaliser", nk, nk.node, ok, "a scalar key is a 1-tuple" if ok else "scalar keys are no longer wrapped", key="scalar-key")

    # ------------------------------------------------------------ 3 interface
    base = P.cls(f"{SA}._base.StorageBase")
    abstract = {n: m for n, m in base.methods.items() if any("abstractmethod" in d for d in m.decorators)}
    ctx.floor("3-interface.abstract", len(abstract), 9)
    registered = []
    for m in P.modules.values():
        if not m.name.startswith(SA):
            continue
        for c in ast.walk(m.tree):
            if isinstance(c, ast.Call) and dotted(c.func) == "register_storage" and c.args and isinstance(c.args[0], ast.Name):
                q = P.resolve_name(m, c.args[0].id)
                if q in P.classes:
                    registered.append(q)
    ctx.floor("3-interface.registered", len(registered), 6)
    for q in registered:
        cls = P.cls(q)
        missing, sigdiff = [], []
        for an, am in abstract.items():
            impl = P.find_method(q, an)
            if impl is None or impl.cls is base:
                missing.append(an)
                continue
            want = [p for p in am.param_names()]
            got = [p for p in impl.param_names()]
            if got[: len(want)] != want:
                sigdiff.append(f"{an}{tuple(got)} vs {tuple(want)}")
        attrs = {a for c in P.mro(q) if c is not base for a in c.class_assigns}
        need = {"storage_id", "requires_serialization"} - attrs
        ok = not missing and not sigdiff and not need
        ctx.add("3-interface", q, cls.loc, ok, f"{cls.name} implements all {len(abstract)} abstract members with the base signature" if ok else
                f"{cls.name}: missing {missing}, different parameters {sigdiff}, missing attributes {sorted(need)}", key=f"conforms {cls.name}")
    ids = {}
    for q in registered:
        for c in P.mro(q):
            if "storage_id" in c.class_assigns:
                ids.setdefault(norm(c.class_assigns["storage_id"]), []).append(q)
                break
    dup = {k: v for k, v in ids.items() if len(v) > 1}
    ctx.add("3-interface", SA, "", not dup, f"{len(ids)} distinct storage ids" if not dup else f"storage ids registered twice: {dup}", key="distinct-ids")
    gs = P.func(f"{SA}._base.get_storage_class")
    ok = "if storage not in storage_registry" in norm(gs.node) and any(isinstance(x, ast.Raise) for x in ast.walk(gs.node)) and "return storage_registry[storage]" in norm(gs.node)
    ctx.add("3-interface", gs, gs.node, ok, "unknown ids raise, known ids return the registered class" if ok else "get_storage_class changed", key="lookup")

    # ------------------------------------------------------------ 4 row-major
    fa = P.cls(f"{SA}._file.FileArray")
    ml = fa.methods["mask_linear"]
    ok = "for i in range(self.size)" in norm(ml.node) and "self.filename_template.format(i)" in norm(ml.node)
    ctx.add("4-row-major", ml, ml.node, ok, "mask_linear enumerates range(size) with the same file-name template" if ok else "mask_linear no longer enumerates range(size) with the file-name template", key="mask-linear")
    itf = fa.methods["_index_to_file"]
    ok = norm(itf.node.body[-1]) == "return self.folder / self.filename_template.format(index)"
    ctx.add("4-row-major", itf, itf.node, ok, "file name = template(linear index)" if ok else "_index_to_file changed", key="index-to-file")
    ktf = fa.methods["_key_to_file"]
    ok = "index = sum((k * s for k, s in zip(key, self.strides)))" in norm(ktf.node) and "return self._index_to_file(index)" in norm(ktf.node)
    ctx.add("4-row-major", ktf, ktf.node, ok, "linear index = sum(key * strides)" if ok else "_key_to_file no longer computes sum(key_i * stride_i)", key="key-to-file")
    da = P.cls(f"{SA}._dict.DictArray")
    dml = da.methods["mask_linear"]
    ok = "self.mask.data[:].flat" in norm(dml.node)
    ctx.add("4-row-major", dml, dml.node, ok, "DictArray.mask_linear flattens the external mask in C order" if ok else "DictArray.mask_linear changed", key="dict-mask-linear")
    fam = fa.methods["mask"]
    ok = ".reshape(self.shape)" in norm(fam.node)
    ctx.add("4-row-major", fam, fam.node, ok, "FileArray.mask reshapes the linear mask to the external shape" if ok else "FileArray.mask changed", key="file-mask")

    # ------------------------------------------------------------ 5 siblings
    for cq in KEYED:
        cls = P.cls(cq)
        for mname in ("__getitem__", "to_array"):
            fn = cls.methods[mname]
            subs = [s for s in walk_no_nested(fn.node) if isinstance(s, ast.Subscript) and isinstance(s.ctx, ast.Load) and norm(s.slice) in ("internal_index", "internal_indices", "internal_key")]
            for s in subs:
                base_name = norm(s.value)
                if "_internal_mask" in base_name:
                    continue
                cfg = ctx.cfg(fn)
                conv = cfg.nodes(lambda a, base_name=base_name: isinstance(a, ast.Assign) and norm(a.targets[0]) == base_name and "np.asarray(" in norm(a.value))
                use = cfg.node_containing(s)
                asarray = use is not None and any(cfg.dominates(c_, use) and c_ != use for c_ in conv)
                ctx.add("5-siblings", fn, s, asarray, f"`{base_name}` is converted with np.asarray before internal indexing" if asarray else
                        f"`{norm(s)}`: the stored element is indexed without np.asarray (a list element fails in this backend only)", key=f"asarray {cls.name}.{mname} {base_name}")
    fg = fa.methods["__getitem__"]
    ok = norm(fg.node).count("return np.ma.masked") == 1 and "sliced_data.append(np.ma.masked)" in norm(fg.node) and "if not file.is_file()" in norm(fg.node)
    ctx.add("5-siblings", fg, fg.node, ok, "FileArray: a missing element reads as masked" if ok else "FileArray.__getitem__ no longer reports missing elements as masked", key="file-missing")
    dg = da.methods["__getitem__"]
    ok = "return self._internal_mask()" in norm(dg.node) and norm(dg.node).count("external_key in self._dict") >= 3
    ctx.add("5-siblings", dg, dg.node, ok, "DictArray: a missing element reads as masked" if ok else "DictArray.__getitem__ no longer reports missing elements as masked", key="dict-missing")
    for cq, needle in ((f"{SA}._file.FileArray", "return self._index_to_file(index).is_file()"), (f"{SA}._dict.DictArray", "return np_index in self._dict")):
        fn = P.find_method(cq, "has_index")
        if fn is None or fn.cls is None or fn.cls.qualname != cq:
            continue  # reported by the interface rule
        ok = needle in norm(fn.node)
        ctx.add("5-siblings", fn, fn.node, ok, "has_index tests the presence of exactly that element" if ok else "has_index changed", key=f"has-index {cq.rsplit('.', 1)[-1]}")


def _parts(st: ast.AST):
    from ..cfg import header_parts

    return header_parts(st)


B, F, D = "pipefunc/map/_storage_array/_base.py", "pipefunc/map/_storage_array/_file.py", "pipefunc/map/_storage_array/_dict.py"
MUTANTS = [
    Mutant("normalize-key-original-F01", B, "    key_mask = (True,) * expected_rank if for_dump else shape_mask\n", "    key_mask = shape_mask\n", ("C07.1-rank-domain",), why="original F01"),
    Mutant("slice-indices-original-F01", F, "        key_mask = (True,) * len(normalized_key) if for_dump else self.shape_mask\n", "        key_mask = self.shape_mask\n", ("C07.1-rank-domain",), why="original F01"),
    Mutant("bound-against-wrong-axis", B, "        if mask:\n            axis_size = shape[shape_index]\n            shape_index += 1\n        else:\n            axis_size = internal_shape[internal_shape_index]\n            internal_shape_index += 1\n",
           "        if mask:\n            axis_size = internal_shape[shape_index]\n            shape_index += 1\n        else:\n            axis_size = shape[internal_shape_index]\n            internal_shape_index += 1\n", ("C07.1-rank-domain",)),
    Mutant("axis-sizes-concatenated", B, "    key_mask = (True,) * expected_rank if for_dump else shape_mask\n\n    for axis, (mask, k) in enumerate(zip(key_mask, key)):\n        if mask:\n            axis_size = shape[shape_index]\n            shape_index += 1\n        else:\n            axis_size = internal_shape[internal_shape_index]\n            internal_shape_index += 1\n",
           "    axis_sizes = shape if for_dump else (*shape, *internal_shape)\n\n    for axis, (axis_size, k) in enumerate(zip(axis_sizes, key)):\n", ("C07.1-rank-domain",), why="seeded C07/1"),
    Mutant("strides-over-full-shape", B, "        return shape_to_strides(self.shape)\n", "        return shape_to_strides(self.full_shape)\n", ("C07.1-rank-domain",), why="seeded C07/2"),
    Mutant("full-shape-swapped", B, "        return select_by_mask(self.shape_mask, self.shape, self.internal_shape)\n", "        return select_by_mask(self.shape_mask, self.internal_shape, self.shape)\n", ("C07.1-rank-domain",)),
    Mutant("select-by-mask-crossed-counters", B, "        if m:\n            result.append(tuple1[index1])\n            index1 += 1\n        else:\n            result.append(tuple2[index2])\n            index2 += 1\n",
           "        if m:\n            result.append(tuple2[index1])\n            index1 += 1\n        else:\n            result.append(tuple1[index2])\n            index2 += 1\n", ("C07.1-rank-domain",)),
    Mutant("file-key-from-full-index", F, "                file_key = tuple(i for i, m in zip(index, self.shape_mask) if m)\n", "                file_key = index\n", ("C07.1-rank-domain",)),
    Mutant("file-getitem-internal-polarity", F, "        external_indices = tuple(i for i, m in zip(normalized_key, self.shape_mask) if m)\n", "        external_indices = tuple(i for i, m in zip(normalized_key, self.shape_mask) if not m)\n", ("C07.1-rank-domain",)),
    Mutant("dict-unravel-full-shape", D, "        np_index = np.unravel_index(index, self.shape)\n        return self._dict[np_index]", "        np_index = np.unravel_index(index, self.full_shape)\n        return self._dict[np_index]", ("C07.1-rank-domain",)),
    Mutant("dict-unravel-fortran", D, "        np_index = np.unravel_index(index, self.shape)\n        return np_index in self._dict", "        np_index = np.unravel_index(index, self.shape, order=\"F\")\n        return np_index in self._dict", ("C07.1-rank-domain",)),
    Mutant("dict-dump-slices-full-shape", D, "            for external_index in itertools.product(*self._slice_indices(key, self.shape)):\n", "            for external_index in itertools.product(*self._slice_indices(key, self.full_shape)):\n", ("C07.1-rank-domain",)),
    Mutant("to-array-swapped-indices", F, "                for internal_index in iterate_shape_indices(self.internal_shape):\n                    full_index = select_by_mask(self.shape_mask, external_index, internal_index)\n                    arr[full_index] = sub_array[internal_index]\n",
           "                for internal_index in iterate_shape_indices(self.internal_shape):\n                    full_index = select_by_mask(self.shape_mask, internal_index, external_index)\n                    arr[full_index] = sub_array[internal_index]\n", ("C07.1-rank-domain",)),
    Mutant("dict-dump-fast-path", D, "        key = normalize_key(key, self.shape, self.internal_shape, self.shape_mask, for_dump=True)\n        if any(isinstance(k, slice) for k in key):\n",
           "        if isinstance(key, tuple) and all(type(k) is int for k in key):\n            self._dict[key] = value\n            return\n        key = normalize_key(key, self.shape, self.internal_shape, self.shape_mask, for_dump=True)\n        if any(isinstance(k, slice) for k in key):\n", ("C07.2-normaliser",), why="seeded C07/3"),
    Mutant("normalize-raises-valueerror", B, "                msg = f\"Index {k} is out of bounds for axis {axis} with size {axis_size}\"\n                raise IndexError(msg)\n", "                msg = f\"Index {k} is out of bounds for axis {axis} with size {axis_size}\"\n                raise ValueError(msg)\n", ("C07.2-normaliser",)),
    Mutant("no-upper-bound", B, "            if not (0 <= normalized_k < axis_size):\n", "            if not (0 <= normalized_k):\n", ("C07.2-normaliser",)),
    Mutant("backend-missing-has-index", D, "    def has_index(self, index: int) -> bool:\n        \"\"\"Return whether the given linear index exists.\"\"\"\n        np_index = np.unravel_index(index, self.shape)\n        return np_index in self._dict\n", "", ("C07.3-interface",)),
    Mutant("mask-linear-other-template", F, "        return [self.filename_template.format(i) not in existing_files for i in range(self.size)]\n", "        return [FILENAME_TEMPLATE.format(i) not in existing_files for i in range(self.size)]\n", ("C07.4-row-major",)),
    Mutant("file-getitem-no-asarray", F, "        if internal_indices:\n            sub_array = np.asarray(sub_array)\n            return sub_array[internal_indices]\n", "        if internal_indices:\n            return sub_array[internal_indices]\n", ("C07.5-siblings",)),
    Mutant("twin-normalize-local-rename", B, "    key_mask = (True,) * expected_rank if for_dump else shape_mask\n\n    for axis, (mask, k) in enumerate(zip(key_mask, key)):\n", "    km = (True,) * expected_rank if for_dump else shape_mask\n\n    for axis, (mask, k) in enumerate(zip(km, key)):\n", twin=True),
    Mutant("twin-key-to-file-comment", F, "        index = sum(k * s for k, s in zip(key, self.strides))\n", "        index = sum(k * s for k, s in zip(key, self.strides))  # row-major\n", twin=True),
]
