"""C07 - every storage backend behaves as a masked n-d object array (structural clauses).

  1 rank-domain  Rule K (sa/kinds.py) inside _base.py, _file.py, _dict.py: keys are bounded against their own axis,
                 FULL keys are split into EXT/INT parts by the mask, dump keys are EXT, file numbers are LIN(EXT),
                 StorageBase.strides/full_shape/size are over their declared spaces
  2 normaliser   in every backend that interprets keys itself, __getitem__ and dump reach normalize_key before the key
                 is used for anything else; normalize_key raises IndexError for wrong rank and out-of-range components
  3 interface    every class passed to register_storage overrides every abstract member of StorageBase with the same
                 parameter names and defines storage_id / requires_serialization
  4 row-major    linear indices enumerate range(size) over the external shape; no order= on ravel/unravel (rule 1);
                 file names are a function of the linear index only
  5 siblings     all backends convert a stored element with np.asarray before internal indexing and report a missing
                 element as masked
"""

from __future__ import annotations

import ast
import re

from ..cfg import header_parts
from ..cfg import ENTRY, EXIT
from ..flow import Defs, Scope, absence_by_none, iterations, rejections
from ..loader import FuncInfo, dotted, norm, walk_no_nested
from ..report import Ctx
from ..selftest import Mutant
from . import kinds_driver

PROP = "C07"
TECHNIQUE = "static analysis: rank-domain abstract interpretation of the storage backends + CFG dominance of key normalisation + reaching-definition classification of indexed elements + interface conformance table + two-sided rank comparison rule + raw-key hand-off rule (callee re-normalises) + shape-from-key rule (no axis-less squeeze, no value-inferred object arrays) + constructor must-pass load + reversed-key rule + slice-of-indices round-trip rule + masked placeholders for unwritten elements + absence decided by truthiness (`X.get(k) or default`)"
SA = "pipefunc.map._storage_array"
EXPLANATION = (
    "Static analysis of the storage backends: the rank-domain type system of sa/kinds.py over _base.py, _file.py and "
    "_dict.py (both values of for_dump analysed separately), CFG dominance of the key normaliser over every other use of "
    "the key, an interface-conformance table for the registered classes, and sibling comparison of the element access paths."
)
TRUSTED = ["CPython ast parser", "seed kinds of sa/kinds.py", "numpy indexing semantics for slices"]
DECLINED = [
    "read-your-writes equality, masked-ness of unwritten elements and agreement of backends over operation histories (needs execution)",
    "the three zarr classes: they index zarr arrays directly and cannot be imported in this sandbox (they take part in clause 3 only)",
]
KEYED = (f"{SA}._file.FileArray", f"{SA}._dict.DictArray")


def rule_rank_domain(ctx: Ctx) -> None:
    findings, stats = kinds_driver.analyse(ctx, (SA, "pipefunc.map._storage_array"))
    kinds_driver.emit(ctx, "1-rank-domain", [f for f in findings if f.fn.module.name.startswith(SA)], 60)
    ctx.note(f"kind analysis: {stats}")


def rule_normaliser(ctx: Ctx) -> None:  # noqa: C901
    P = ctx.prog
    # slice.indices(n) gives (start, stop, step) for range(): re-wrapped in a slice the stop -1 of a negative step ("down to and
    # including 0") means "up to the last element" - `slice(*s.indices(n))` is NOT s for s = [::-1], [2::-1], [::-2]
    n_ix = 0
    for m in P.modules.values():
        if not (m.name.startswith(SA) or m.name == "pipefunc.map._mapspec"):
            continue
        for c in ast.walk(m.tree):
            if isinstance(c, ast.Call) and isinstance(c.func, ast.Attribute) and c.func.attr == "indices" and len(c.args) == 1:
                n_ix += 1
        for c in ast.walk(m.tree):
            if isinstance(c, ast.Call) and dotted(c.func) == "slice" and len(c.args) == 1 and isinstance(c.args[0], ast.Starred) and isinstance(c.args[0].value, ast.Call) \
                    and isinstance(c.args[0].value.func, ast.Attribute) and c.args[0].value.func.attr == "indices":
                ctx.add("2-normaliser", m.name, f"{m.relpath}:{c.lineno}", False, f"`{norm(c)[:60]}` re-wraps slice.indices() in a slice: for a negative step that runs through index 0 the resolved stop is -1, which a slice reads as "
                        "\"the last element\" - `[::-1]`, `[2::-1]`, `[::-2]` select nothing (the array comes back empty or filled with None) where numpy and the other backends return the reversed data", key=f"slice-of-indices {m.name.rsplit('.', 1)[-1]}")
    ctx.add("2-normaliser", SA, "", True, f"{n_ix} slice.indices() resolution(s) examined: none is wrapped back into a slice", key="slice-of-indices-scan")
    # what stands in for an UNWRITTEN element is masked: np.ma.empty / np.ma.zeros give a masked array with NOTHING masked (its None
    # values are indistinguishable from stored ones); and where the written branch selects `[internal_key]`, the unwritten one does too
    n_ph = 0
    for m in P.modules.values():
        if not m.name.startswith(SA) or "zarr" in m.name:
            continue
        for f_ in P.functions_in(m.name):
            for c in walk_no_nested(f_.node):
                if isinstance(c, ast.Call) and dotted(c.func) in ("np.ma.empty", "numpy.ma.empty", "np.ma.zeros", "np.ma.ones", "np.ma.empty_like"):
                    n_ph += 1
                    ctx.add("5-siblings", f_, c, False, f"`{norm(c)[:50]}` is a masked array with NOTHING masked: used as the stand-in for an unwritten element it reads back as an unmasked block of None - "
                            "`arr[i, j]` of a missing element is not `masked`, and the other backends (and the masked NumPy reference) disagree", key=f"placeholder-masked {f_.name}")
            if f_.name == "__getitem__":
                picks = [x for x in walk_no_nested(f_.node) if isinstance(x, ast.Subscript) and isinstance(x.slice, ast.Name) and x.slice.id == "internal_key" and isinstance(x.ctx, ast.Load)]
                bare = [r for r in walk_no_nested(f_.node) if isinstance(r, ast.Return) and isinstance(r.value, ast.Call) and norm(r.value.func).endswith("_internal_mask") ]
                if picks:
                    n_ph += 1
                    ctx.add("5-siblings", f_, bare[0] if bare else f_.node, not bare, "the stand-in for an unwritten element is indexed by the internal key like a written one" if not bare else
                            f"`{norm(bare[0])}` hands back the WHOLE internal block for an unwritten element although the key names one position in it (the written branch returns `arr[internal_key]`): "
                            "the result has the wrong shape and is not `masked`", key=f"placeholder-indexed {f_.cls.name if f_.cls else f_.name}")
    ctx.add("5-siblings", SA, "", True, f"{n_ph} placeholder construct(s) for unwritten elements examined", key="placeholder-scan")
    for cq in KEYED:
        cls = P.cls(cq)
        for mname in ("__getitem__", "dump"):
            fn = cls.methods[mname]
            keyp = [p for p in fn.param_names() if p != "self"][0]
            cfg = ctx.cfg(fn)
            norm_nodes = cfg.nodes(lambda s, keyp=keyp: isinstance(s, (ast.Assign, ast.AnnAssign)) and isinstance(s.value, ast.Call) and dotted(s.value.func).rsplit(".", 1)[-1] in ("normalize_key", "_normalize_key")
                                   and s.value.args and norm(s.value.args[0]) == keyp)
            if not norm_nodes:
                via_helper = any(c.args and any(norm(a_) == keyp for a_ in c.args) for f_, c in Scope(ctx, fn).calls("normalize_key", "_normalize_key") if f_ is not fn) or \
                    any("normalize_key" in norm(f_.node) for f_ in Scope(ctx, fn).funcs[1:])
                ctx.tri("2-normaliser", fn, fn.node, False, not via_helper, "", f"{cls.name}.{mname} never normalises its key: negative, out-of-range or wrong-rank keys behave differently from the other backends",
                        "the key is normalised in a helper; ordering not decided", key=f"{cls.name}.{mname}")
                continue
            n0 = norm_nodes[0]
            call = cfg.stmt[n0].value
            fd = next((k.value.value for k in call.keywords if k.arg == "for_dump" and isinstance(k.value, ast.Constant)), False)
            want = mname == "dump"
            users = [n for n in cfg.nodes() if n not in norm_nodes and any(isinstance(x, ast.Name) and x.id == keyp and isinstance(x.ctx, ast.Load) for part in header_parts(cfg.stmt[n]) for x in ast.walk(part))]
            raw = [u for u in users if not any(cfg.dominates(n_, u) for n_ in norm_nodes)]
            ctx.add("2-normaliser", fn, cfg.stmt[raw[0]] if raw else cfg.stmt[n0], not raw and fd == want, f"normalised (for_dump={fd}) before any other use of the key ({len(users)} later use(s))" if not raw and fd == want else (
                f"`{norm(cfg.stmt[raw[0]])[:60]}` uses the key before/without normalisation in {cls.name}.{mname}: negative, out-of-range or wrong-rank keys behave differently from the other backends" if raw else
                f"{cls.name}.{mname} normalises with for_dump={fd}"), key=f"{cls.name}.{mname}")
    # the RAW key may still be handed on after the normalised copy was made; whoever receives it must normalise it again before
    # using it (FileArray.__getitem__ hands its raw key to _slice_indices) - otherwise negative integers reach the index arithmetic
    from ..flow import bind_args

    n_raw = 0
    for cq in KEYED:
        cls = P.cls(cq)
        for mname in ("__getitem__", "dump"):
            fn = cls.methods[mname]
            keyp = [p for p in fn.param_names() if p != "self"][0]
            fcfg = ctx.cfg(fn)
            rebinds = fcfg.nodes(lambda st, keyp=keyp: isinstance(st, (ast.Assign, ast.AnnAssign)) and isinstance(st.value, ast.Call) and dotted(st.value.func).rsplit(".", 1)[-1] in ("normalize_key", "_normalize_key")
                                 and st.value.args and norm(st.value.args[0]) == keyp and any(isinstance(t, ast.Name) and t.id == keyp for t in (st.targets if isinstance(st, ast.Assign) else [st.target])))
            for s_ in ctx.cg.sites.get(fn.qualname, []):
                if s_.kind != "call":
                    continue
                sn = fcfg.node_containing(s_.node)
                if sn is not None and any(fcfg.dominates(r_, sn) for r_ in rebinds):
                    continue  # `key = normalize_key(key, ...)`: the name holds the normalised key from here on
                for callee in s_.callees:
                    if callee.name in ("normalize_key", "_normalize_key") or not callee.module.name.startswith(SA):
                        continue
                    for prm, a_ in bind_args(s_.node, callee).items():
                        if not (isinstance(a_, ast.Name) and a_.id == keyp):
                            continue
                        n_raw += 1
                        ccfg = ctx.cfg(callee)
                        nn = ccfg.nodes(lambda st, prm=prm: isinstance(st, (ast.Assign, ast.AnnAssign)) and isinstance(st.value, ast.Call) and dotted(st.value.func).rsplit(".", 1)[-1] in ("normalize_key", "_normalize_key")
                                        and st.value.args and norm(st.value.args[0]) == prm)
                        uses = [u for u in ccfg.nodes() if u not in nn and any(isinstance(x, ast.Name) and x.id == prm and isinstance(x.ctx, ast.Load) for part in header_parts(ccfg.stmt[u]) for x in ast.walk(part))]
                        consuming = [u for u in uses if not any(ccfg.dominates(n_, u) for n_ in nn) and not isinstance(ccfg.stmt[u], (ast.Assert, ast.Raise))
                                     and not (isinstance(ccfg.stmt[u], ast.If) and all(isinstance(c_, ast.Call) and dotted(c_.func) == "isinstance" for c_ in ast.walk(ccfg.stmt[u].test) if isinstance(c_, ast.Call)) and "isinstance" in norm(ccfg.stmt[u].test))]
                        ctx.add("2-normaliser", callee, ccfg.stmt[consuming[0]] if consuming else callee.node, not consuming, f"{callee.name} normalises the raw key it receives from {cls.name}.{mname} before using it" if not consuming else
                                f"{cls.name}.{mname} hands its RAW key to {callee.name}, where `{norm(ccfg.stmt[consuming[0]])[:60]}` uses it without normalising it: a negative integer next to a slice addresses non-existent elements "
                                "(written elements read back masked; the backends disagree)", key=f"raw-key {cls.name}.{mname}->{callee.name}")
    ctx.floor("2-normaliser.raw-key-handoffs", n_raw, 1)
    nk = P.func(f"{SA}._base.normalize_key")
    rej = []
    for f_ in Scope(ctx, nk).funcs:
        rej += [r for r in rejections(ctx.cfg(f_), f_.node, Defs(f_)) if not r["dead"]]
    kinds_ = [norm(r["node"].exc).split("(")[0] if r["node"].exc is not None else "" for r in rej]
    other = [k for k in kinds_ if k and k[0].isupper() and k != "IndexError"]
    ctx.tri("2-normaliser", nk, rej[0]["node"] if rej else nk.node, len(rej) >= 2 and all(k == "IndexError" for k in kinds_), bool(other) or not rej,
            "wrong rank and out-of-range raise IndexError", f"normalize_key raises {other or 'nothing'}: callers (and the sibling backends) rely on IndexError for bad keys", f"raised {kinds_}", key="indexerror")
    lower = upper = False
    for r in rej:
        for t, truth in r["tests"]:
            for c in [c for c in ast.walk(t) if isinstance(c, ast.Compare)]:
                operands = [c.left, *c.comparators]
                for (l_, op, r_) in zip(operands, c.ops, operands[1:]):
                    zl, zr = (isinstance(l_, ast.Constant) and l_.value == 0), (isinstance(r_, ast.Constant) and r_.value == 0)
                    if isinstance(op, (ast.Lt, ast.LtE, ast.Gt, ast.GtE)):
                        if zl or zr:
                            lower = True
                        elif not isinstance(l_, ast.Call) and not isinstance(r_, ast.Call):
                            upper = True
    rank = any("len(" in c_ for r in rej for c_ in r["conds"])
    ctx.tri("2-normaliser", nk, nk.node, lower and upper, lower and not upper, "each component is checked against 0 and against the axis size",
            "normalize_key checks the lower bound only: an index beyond the axis is accepted (a file/dict entry outside the array is created or read)", "bounds checks not recognised", key="bounds")
    # the rank test is two-sided: a key with too FEW indices is as wrong as one with too many
    rank_cmps = [(c, truth) for r in rej for t, truth in r["tests"] for c in ast.walk(t) if isinstance(c, ast.Compare) and len(c.ops) == 1 and "len(" in norm(c) and ("rank" in norm(c) or "shape_mask" in norm(c))]
    two_sided = [c for c, truth in rank_cmps if (isinstance(c.ops[0], ast.NotEq) and truth) or (isinstance(c.ops[0], ast.Eq) and not truth)]
    one_sided = [c for c, _truth in rank_cmps if isinstance(c.ops[0], (ast.Gt, ast.GtE, ast.Lt, ast.LtE))]
    both_dirs = len({type(c.ops[0]) in (ast.Gt, ast.GtE) for c in one_sided}) == 2
    ctx.tri("2-normaliser", nk, (one_sided or two_sided or [nk.node])[0], rank and (bool(two_sided) or both_dirs), bool(one_sided) and not two_sided and not both_dirs, "a key of the wrong rank (too many or too few indices) is rejected",
            f"the rank of the key is only checked in one direction (`{norm(one_sided[0]) if one_sided else ''}`): a key with too {'few' if one_sided and isinstance(one_sided[0].ops[0], (ast.Gt, ast.GtE)) else 'many'} indices is accepted and silently addresses another element",
            "rank check not recognised", key="rank")


def rule_interface(ctx: Ctx) -> None:  # noqa: C901
    P = ctx.prog
    # ------------------------------------------------------------ 3 interface
    base = P.cls(f"{SA}._base.StorageBase")
    abstract = {n: m for n, m in base.methods.items() if any("abstractmethod" in d for d in m.decorators)}
    ctx.floor("3-interface.abstract", len(abstract), 9)
    registered = []
    for m in P.modules.values():
        if not m.name.startswith(SA):
            continue
        for c in ast.walk(m.tree):
            if isinstance(c, ast.Call) and dotted(c.func) == "register_storage" and c.args and isinstance(c.args[0], ast.Name):
                q = P.resolve_name(m, c.args[0].id)
                if q in P.classes:
                    registered.append(q)
    ctx.floor("3-interface.registered", len(registered), 6)
    for q in registered:
        cls = P.cls(q)
        missing, sigdiff = [], []
        for an, am in abstract.items():
            impl = P.find_method(q, an)
            if impl is None or impl.cls is base:
                missing.append(an)
                continue
            want = [p for p in am.param_names()]
            got = [p for p in impl.param_names()]
            if got[: len(want)] != want:
                sigdiff.append(f"{an}{tuple(got)} vs {tuple(want)}")
        attrs = {a for c in P.mro(q) if c is not base for a in c.class_assigns}
        need = {"storage_id", "requires_serialization"} - attrs
        ok = not missing and not sigdiff and not need
        ctx.add("3-interface", q, cls.loc, ok, f"{cls.name} implements all {len(abstract)} abstract members with the base signature" if ok else
                f"{cls.name}: missing {missing}, different parameters {sigdiff}, missing attributes {sorted(need)}", key=f"conforms {cls.name}")
    ids = {}
    for q in registered:
        for c in P.mro(q):
            if "storage_id" in c.class_assigns:
                ids.setdefault(norm(c.class_assigns["storage_id"]), []).append(q)
                break
    dup = {k: v for k, v in ids.items() if len(v) > 1}
    ctx.add("3-interface", SA, "", not dup, f"{len(ids)} distinct storage ids" if not dup else f"storage ids registered twice: {dup}", key="distinct-ids")
    gs = P.func(f"{SA}._base.get_storage_class")
    rj = [r for r in rejections(ctx.cfg(gs), gs.node) if not r["dead"]]
    ctx.tri("3-interface", gs, gs.node, bool(rj) and "storage_registry" in norm(gs.node), not rj, "unknown ids raise, known ids return the registered class", "get_storage_class never raises for an unknown id", key="lookup")


def _templates(ctx: Ctx, fn: FuncInfo) -> set[str]:
    """What the file names are formatted from: the (resolved) receivers of `.format(...)` in `fn` and the methods it calls."""
    out = set()
    for f in Scope(ctx, fn, wide=True).funcs:
        d = Defs(f)
        out |= {norm(d.resolve(c.func.value)) for c in ast.walk(f.node) if isinstance(c, ast.Call) and isinstance(c.func, ast.Attribute) and c.func.attr == "format"}
    return out


def rule_row_major(ctx: Ctx) -> None:
    P = ctx.prog
    fa = P.cls(f"{SA}._file.FileArray")
    ml, itf, ktf = fa.methods["mask_linear"], fa.methods["_index_to_file"], fa.methods["_key_to_file"]
    t_ml, t_itf = _templates(ctx, ml), _templates(ctx, itf)
    ctx.tri("4-row-major", ml, ml.node, bool(t_ml) and t_ml == t_itf, bool(t_ml) and bool(t_itf) and t_ml != t_itf, "mask_linear enumerates the files with the template that names them",
            f"mask_linear looks for files named by {sorted(t_ml)} but elements are written under {sorted(t_itf)}: existing elements are reported missing", "file-name templates not recognised", key="mask-linear")
    its = [it for it in iterations(ml.node) if "range(" in norm(it["iter"])]
    whole = [it for it in its if norm(it["iter"]) in ("range(self.size)", "range(prod(self.shape))")]
    ctx.tri("4-row-major", ml, ml.node, bool(whole), False, "one entry per linear index of the external shape", "", "enumeration of the linear indices not recognised", key="mask-linear-range")
    d = Defs(ktf)
    t = " ".join(norm(d.resolve(r.value)) for r in walk_no_nested(ktf.node) if isinstance(r, ast.Return) and r.value is not None)
    ctx.tri("4-row-major", ktf, ktf.node, "self.strides" in t and "_index_to_file(" in t, False, "linear index = sum(key * strides), named by _index_to_file", "", "_key_to_file not recognised", key="key-to-file")


def _classify_base(fn: FuncInfo, cfg, use: int, e: ast.AST, depth: int = 3) -> bool | None:
    """True: `e` is an ndarray (np.asarray / masked array / np constructor); False: a raw stored element; None: unknown."""
    t = norm(e)
    if isinstance(e, ast.Call) and any(w in norm(e.func) for w in ("np.asarray", "np.array", "np.ma.", "_internal_mask", "np.empty", "np.zeros")):
        return True
    if isinstance(e, ast.Call) and (norm(e.func).endswith(("load", ".get")) or "read" in norm(e.func)):
        return False
    if isinstance(e, ast.Subscript) and "_dict" in norm(e.value):
        return False
    if isinstance(e, ast.Name) and depth:
        defs_ = cfg.nodes(lambda s: isinstance(s, (ast.Assign, ast.AnnAssign)) and s.value is not None and any(isinstance(t_, ast.Name) and t_.id == e.id for t_ in (s.targets if isinstance(s, ast.Assign) else [s.target])))
        reach = [n for n in defs_ if n != use and use in cfg.reachable_from(n, without=set(defs_) - {n, use})]  # reaching definitions
        verdicts = [_classify_base(fn, cfg, n, cfg.stmt[n].value, depth - 1) for n in reach]
        if verdicts and all(v is True for v in verdicts):
            return True
        if any(v is False for v in verdicts):
            return False
    _ = t
    return None


def rule_siblings(ctx: Ctx) -> None:
    P = ctx.prog
    n = 0
    for cq in KEYED:
        cls = P.cls(cq)
        for mname in ("__getitem__", "to_array"):
            fn = cls.methods[mname]
            cfg = ctx.cfg(fn)
            subs = [s_ for s_ in walk_no_nested(fn.node) if isinstance(s_, ast.Subscript) and isinstance(s_.ctx, ast.Load) and isinstance(s_.slice, ast.Name) and "internal" in s_.slice.id]
            for s_ in subs:
                use = cfg.node_containing(s_)
                if use is None:
                    continue
                n += 1
                v = _classify_base(fn, cfg, use, s_.value)
                ctx.tri("5-siblings", fn, s_, v is True, v is False, f"`{norm(s_.value)[:30]}` is an ndarray when it is indexed with the internal index",
                        f"`{norm(s_)}`: the stored element is indexed without np.asarray (a list element fails in this backend only)", f"origin of `{norm(s_.value)[:30]}` not traced", key=f"asarray {cls.name}.{mname} {norm(s_.value)[:30]}")
    ctx.floor("5-siblings", n, 4)
    fa, da = P.cls(f"{SA}._file.FileArray"), P.cls(f"{SA}._dict.DictArray")
    for mname, fn in da.methods.items():
        sites = absence_by_none(fn.node, ("_dict",))
        if sites or mname in ("__getitem__", "to_array", "get_from_index", "has_index", "mask"):
            ctx.add("5-siblings", fn, sites[0][0] if sites else fn.node, not sites, "presence of an element is decided by key membership" if not sites else
                    f"`{sites[0][1]}.get(...)` compared with None (or taken by its truth value) decides whether an element exists: an element whose stored value IS None (or falsy) reads back as masked in this backend only (FileArray returns None)", key=f"none-is-a-value DictArray.{mname}")
    fg = fa.methods["__getitem__"]
    t = norm(fg.node)
    ctx.tri("5-siblings", fg, fg.node, "np.ma.masked" in t and "is_file()" in t, "np.ma.masked" not in t, "FileArray: a missing element reads as masked", "FileArray.__getitem__ never yields np.ma.masked: a missing element raises instead of reading as masked", key="file-missing")
    dg = da.methods["__getitem__"]
    t = norm(dg.node)
    ctx.tri("5-siblings", dg, dg.node, "_internal_mask()" in t and "in self._dict" in t, "_internal_mask()" not in t and "np.ma.masked" not in t, "DictArray: a missing element reads as masked",
            "DictArray.__getitem__ never yields a masked value: a missing element raises KeyError instead of reading as masked", key="dict-missing")


def rule_ctor_loads(ctx: Ctx) -> None:
    """A storage object that keeps its elements in memory and persists them to one file reads that file back whenever it is
    constructed on a folder - on EVERY path through the constructor, whatever mapping the caller hands in (SharedMemoryDictArray
    always passes a fresh manager dict): otherwise persist-then-reopen yields an all-masked array for that backend only."""
    P = ctx.prog
    n = 0
    for cq in KEYED:
        cls = P.cls(cq)
        if "load" not in cls.methods or "persist" not in cls.methods or "__init__" not in cls.methods:
            continue
        # only classes whose persist() really writes (FileArray's elements are files already)
        if not any(isinstance(c, ast.Call) and dotted(c.func).rsplit(".", 1)[-1] == "dump" for c in ast.walk(cls.methods["persist"].node)):
            continue
        n += 1
        init = cls.methods["__init__"]
        cfg = ctx.cfg(init)
        loads = set(cfg.nodes(lambda s_: isinstance(s_, ast.Expr) and isinstance(s_.value, ast.Call) and norm(s_.value.func) == "self.load"))
        ok = bool(loads) and cfg.must_pass(ENTRY, EXIT, loads, normal_only=True)
        w = None if ok else cfg.witness_path(ENTRY, EXIT, loads)
        ctx.add("5-siblings", init, cfg.stmt[sorted(loads)[0]] if loads else init.node, ok, f"{cls.name}.__init__ reads the persisted elements back on every path" if ok else
                f"{cls.name}.__init__ can finish without `self.load()` ({'; '.join(cfg.describe(w, init.module.relpath))[:120] if w else 'no load call'}): a backend whose constructor is given a mapping (the shared-memory dict always is) "
                "never sees what was persisted - reopened after persist() it reports every element as missing", key=f"ctor-loads {cls.name}")
    ctx.floor("5-siblings.persisting-backends", n, 1)
    # a key assembled while walking the shape BACKWARDS (last axis first) comes out reversed: unless it is reversed again the linear index
    # is decomposed column-major and get_from_index / has_index address the transposed element
    bad = []
    for fn in P.functions.values():
        if not fn.module.name.startswith(SA) or fn.module.name.endswith("_zarr"):
            continue
        for lp in [x for x in walk_no_nested(fn.node) if isinstance(x, ast.For)]:
            it = norm(lp.iter)
            if not (re.search(r"reversed\(.*shape", it) or re.search(r"shape\[::-1\]", it)):
                continue
            apps = [c.func.value.id for c in ast.walk(lp) if isinstance(c, ast.Call) and isinstance(c.func, ast.Attribute) and c.func.attr == "append" and isinstance(c.func.value, ast.Name)]
            for nm in set(apps):
                uses = [norm(r.value) for r in walk_no_nested(fn.node) if isinstance(r, ast.Return) and r.value is not None and any(isinstance(x, ast.Name) and x.id == nm for x in ast.walk(r.value))]
                fixed = any("reversed(" in u or "[::-1]" in u for u in uses) or any(isinstance(c, ast.Call) and isinstance(c.func, ast.Attribute) and c.func.attr == "reverse" and norm(c.func.value) == nm for c in ast.walk(fn.node))
                if uses and not fixed:
                    bad.append((fn, lp, nm))
    ctx.add("4-row-major", bad[0][0] if bad else SA, bad[0][1] if bad else "", not bad, "no key is assembled last-axis-first without being reversed" if not bad else
            f"{bad[0][0].name} walks the shape backwards and appends to `{bad[0][2]}`, which it returns without reversing: the linear index is decomposed in column-major order - elements are found under the transposed key "
            "(KeyError / wrong element for rank >= 2), the backends disagree", key="no-reversed-key")


def rule_shape_from_key(ctx: Ctx) -> None:
    """The shape of what a read returns is decided by the KEY (one axis per slice), never by the stored values or the lengths of
    the axes.  Two NumPy operations decide it from the data instead:
      * `x.squeeze()` / `np.squeeze(x)` without `axis=` drops EVERY axis of length 1 - also a sliced axis that happens to have
        one element (a 0-d array instead of shape (1,));
      * `np.array(values, dtype=object)` / `np.asarray(..., dtype=object)` inspects the values: equal-length sequences become extra
        dimensions (the element container has to be allocated with np.empty and filled by assignment)."""
    P = ctx.prog
    bad: list[tuple[FuncInfo, ast.AST, str]] = []
    n = 0
    for fn in P.functions.values():
        if not (fn.module.name.startswith(SA) or fn.module.name in ("pipefunc.map._run", "pipefunc.map.adaptive")) or fn.module.name.endswith("_zarr"):
            continue  # the storage backends and the kernel that slices the inputs / collects the results
        n += 1
        for c in walk_no_nested(fn.node):
            if not isinstance(c, ast.Call):
                continue
            nm = dotted(c.func)
            if ((isinstance(c.func, ast.Attribute) and c.func.attr == "squeeze" and nm not in ("np.squeeze", "numpy.squeeze") and not c.args) or (nm in ("np.squeeze", "numpy.squeeze") and len(c.args) == 1)) \
                    and not any(k.arg == "axis" for k in c.keywords):
                bad.append((fn, c, f"`{norm(c)[:50]}` drops every axis of length 1: a slice over an axis with a single element no longer yields an axis (shape () instead of (1,)), the rank of the result depends on the axis lengths"))
            if nm in ("np.array", "np.asarray", "numpy.array", "numpy.asarray", "np.ma.array", "np.ma.asarray") and c.args and not isinstance(c.args[0], ast.Constant) \
                    and any(k.arg == "dtype" and norm(k.value) in ("object", "'object'", "np.object_", "'O'") for k in c.keywords):
                bad.append((fn, c, f"`{norm(c)[:60]}` lets NumPy infer the shape from the stored VALUES: when the selected elements are equal-length sequences (tuples, lists, arrays) they become extra dimensions and the mask no longer fits "
                            "(MaskError / wrong shape); allocate with np.empty(n, dtype=object) and assign"))
    ctx.add("5-siblings", bad[0][0] if bad else SA, bad[0][1] if bad else "", not bad, f"no read path derives the shape of its result from the data ({n} storage functions: no axis-less squeeze, no np.array(values, dtype=object))" if not bad else bad[0][2],
            key="shape-from-key")


def check(ctx: Ctx) -> None:
    for rule in (rule_rank_domain, rule_normaliser, rule_interface, rule_row_major, rule_siblings, rule_ctor_loads, rule_shape_from_key):
        ctx.run(rule)


B, F, D = "pipefunc/map/_storage_array/_base.py", "pipefunc/map/_storage_array/_file.py", "pipefunc/map/_storage_array/_dict.py"
MUTANTS = [
    Mutant("dict-get-or-masked", "pipefunc/map/_storage_array/_dict.py", "                    if external_key in self._dict:\n                        value = self._dict[external_key]\n                    else:\n                        value = self._internal_mask()\n", "                    value = self._dict.get(external_key) or self._internal_mask()\n", ("C07.5-siblings",), why="round-8 seed C07/22"),
    Mutant("slice-of-indices", "pipefunc/map/_storage_array/_dict.py", "                len(range(*k.indices(s))) if isinstance(k, slice) else 1\n", "                len(range(*slice(*k.indices(s)).indices(s))) if isinstance(k, slice) else 1\n", ("C07.2-normaliser",), why="round-6 seed C07/17 (expected count zero: positive example)"),
    Mutant("mask-linear-slices-0d-mask-F46", "pipefunc/map/_storage_array/_dict.py", "        return list(self.mask.data.flat)", "        return list(self.mask.data[:].flat)", ("C07.1-rank-domain",), why="original F46"),
    Mutant("axisless-squeeze", "pipefunc/map/_storage_array/_dict.py", "            return data.reshape(new_shape)\n", "            return data.squeeze()\n", ("C07.5-siblings",), why="round-4 seed C01/10"),
    Mutant("object-array-from-values", "pipefunc/map/_storage_array/_file.py", "            sliced_array: np.ndarray = np.empty(len(sliced_data), dtype=object)\n            sliced_array[:] = sliced_data\n", "            sliced_array: np.ndarray = np.array(sliced_data, dtype=object)\n", ("C07.5-siblings",), why="round-4 seed C07/11"),
    Mutant("slice-indices-trusts-raw-key", "pipefunc/map/_storage_array/_file.py", "        normalized_key = self._normalize_key(key, for_dump=for_dump)\n", "        normalized_key = key if isinstance(key, tuple) else (key,)\n", ("C07.2-normaliser",), why="round-4 seed C07/10"),
    Mutant("normalize-key-original-F01", B, "    key_mask = (True,) * expected_rank if for_dump else shape_mask\n", "    key_mask = shape_mask\n", ("C07.1-rank-domain",), why="original F01"),
    Mutant("slice-indices-original-F01", F, "        key_mask = (True,) * len(normalized_key) if for_dump else self.shape_mask\n", "        key_mask = self.shape_mask\n", ("C07.1-rank-domain",), why="original F01"),
    Mutant("bound-against-wrong-axis", B, "        if mask:\n            axis_size = shape[shape_index]\n            shape_index += 1\n        else:\n            axis_size = internal_shape[internal_shape_index]\n            internal_shape_index += 1\n",
           "        if mask:\n            axis_size = internal_shape[shape_index]\n            shape_index += 1\n        else:\n            axis_size = shape[internal_shape_index]\n            internal_shape_index += 1\n", ("C07.1-rank-domain",)),
    Mutant("axis-sizes-concatenated", B, "    key_mask = (True,) * expected_rank if for_dump else shape_mask\n\n    for axis, (mask, k) in enumerate(zip(key_mask, key)):\n        if mask:\n            axis_size = shape[shape_index]\n            shape_index += 1\n        else:\n            axis_size = internal_shape[internal_shape_index]\n            internal_shape_index += 1\n",
           "    axis_sizes = shape if for_dump else (*shape, *internal_shape)\n\n    for axis, (axis_size, k) in enumerate(zip(axis_sizes, key)):\n", ("C07.1-rank-domain",), why="seeded C07/1"),
    Mutant("strides-over-full-shape", B, "        return shape_to_strides(self.shape)\n", "        return shape_to_strides(self.full_shape)\n", ("C07.1-rank-domain",), why="seeded C07/2"),
    Mutant("full-shape-swapped", B, "        return select_by_mask(self.shape_mask, self.shape, self.internal_shape)\n", "        return select_by_mask(self.shape_mask, self.internal_shape, self.shape)\n", ("C07.1-rank-domain",)),
    Mutant("select-by-mask-crossed-counters", B, "        if m:\n            result.append(tuple1[index1])\n            index1 += 1\n        else:\n            result.append(tuple2[index2])\n            index2 += 1\n",
           "        if m:\n            result.append(tuple2[index1])\n            index1 += 1\n        else:\n            result.append(tuple1[index2])\n            index2 += 1\n", ("C07.1-rank-domain",)),
    Mutant("file-key-from-full-index", F, "                file_key = tuple(i for i, m in zip(index, self.shape_mask) if m)\n", "                file_key = index\n", ("C07.1-rank-domain",)),
    Mutant("file-getitem-internal-polarity", F, "        external_indices = tuple(i for i, m in zip(normalized_key, self.shape_mask) if m)\n", "        external_indices = tuple(i for i, m in zip(normalized_key, self.shape_mask) if not m)\n", ("C07.1-rank-domain",)),
    Mutant("dict-unravel-full-shape", D, "        np_index = np.unravel_index(index, self.shape)\n        return self._dict[np_index]", "        np_index = np.unravel_index(index, self.full_shape)\n        return self._dict[np_index]", ("C07.1-rank-domain",)),
    Mutant("dict-unravel-fortran", D, "        np_index = np.unravel_index(index, self.shape)\n        return np_index in self._dict", "        np_index = np.unravel_index(index, self.shape, order=\"F\")\n        return np_index in self._dict", ("C07.1-rank-domain",)),
    Mutant("dict-dump-slices-full-shape", D, "            for external_index in itertools.product(*self._slice_indices(key, self.shape)):\n", "            for external_index in itertools.product(*self._slice_indices(key, self.full_shape)):\n", ("C07.1-rank-domain",)),
    Mutant("to-array-swapped-indices", F, "                for internal_index in iterate_shape_indices(self.internal_shape):\n                    full_index = select_by_mask(self.shape_mask, external_index, internal_index)\n                    arr[full_index] = sub_array[internal_index]\n",
           "                for internal_index in iterate_shape_indices(self.internal_shape):\n                    full_index = select_by_mask(self.shape_mask, internal_index, external_index)\n                    arr[full_index] = sub_array[internal_index]\n", ("C07.1-rank-domain",)),
    Mutant("dict-dump-fast-path", D, "        key = normalize_key(key, self.shape, self.internal_shape, self.shape_mask, for_dump=True)\n        if any(isinstance(k, slice) for k in key):\n",
           "        if isinstance(key, tuple) and all(type(k) is int for k in key):\n            self._dict[key] = value\n            return\n        key = normalize_key(key, self.shape, self.internal_shape, self.shape_mask, for_dump=True)\n        if any(isinstance(k, slice) for k in key):\n", ("C07.2-normaliser",), why="seeded C07/3"),
    Mutant("normalize-raises-valueerror", B, "                msg = f\"Index {k} is out of bounds for axis {axis} with size {axis_size}\"\n                raise IndexError(msg)\n", "                msg = f\"Index {k} is out of bounds for axis {axis} with size {axis_size}\"\n                raise ValueError(msg)\n", ("C07.2-normaliser",)),
    Mutant("no-upper-bound", B, "            if not (0 <= normalized_k < axis_size):\n", "            if not (0 <= normalized_k):\n", ("C07.2-normaliser",)),
    Mutant("backend-missing-has-index", D, "    def has_index(self, index: int) -> bool:\n        \"\"\"Return whether the given linear index exists.\"\"\"\n        np_index = np.unravel_index(index, self.shape)\n        return np_index in self._dict\n", "", ("C07.3-interface",)),
    Mutant("mask-linear-other-template", F, "        return [self.filename_template.format(i) not in existing_files for i in range(self.size)]\n", "        return [FILENAME_TEMPLATE.format(i) not in existing_files for i in range(self.size)]\n", ("C07.4-row-major",)),
    Mutant("file-getitem-no-asarray", F, "        if internal_indices:\n            sub_array = np.asarray(sub_array)\n            return sub_array[internal_indices]\n", "        if internal_indices:\n            return sub_array[internal_indices]\n", ("C07.5-siblings",)),
    Mutant("twin-normalize-local-rename", B, "    key_mask = (True,) * expected_rank if for_dump else shape_mask\n\n    for axis, (mask, k) in enumerate(zip(key_mask, key)):\n", "    km = (True,) * expected_rank if for_dump else shape_mask\n\n    for axis, (mask, k) in enumerate(zip(km, key)):\n", twin=True),
    Mutant("twin-key-to-file-comment", F, "        index = sum(k * s for k, s in zip(key, self.strides))\n", "        index = sum(k * s for k, s in zip(key, self.strides))  # row-major\n", twin=True),
]
