"""C10 - structural rewrites preserve what a pipeline computes (structural clauses).

  1 copy-carries   every field a public mutator can change is forwarded (or re-applied) by the class's copy()
  2 no-inplace     dicts that copies share by reference (_renames, _defaults, _bound, cache_kwargs) are never mutated in
                   place, neither directly nor by a helper they are passed to
  3 result-keys    the writer of the per-call results provides every single output name (reader: NestedPipeFunc wrapper)
  4 sort-keys      ordering of output names (str | tuple[str, ...]) always goes through at_least_tuple / _sort_key
  5 pickle-state   every attribute transformed or dropped by __getstate__ is restored by __setstate__
  6 foreign-writes MapSpec writes from outside a PipeFunc happen only where the pipeline invalidates afterwards or before
                   any MapSpec-dependent cached property can have been read
  7 fresh-objects  functions enter a pipeline only as copies (Pipeline.add), and every rewrite builds through it
  9 name-space     lookups in _defaults/_bound use renamed parameter names; _flatten_scopes keeps every entry
  8 details        scope prefixes are matched with their dot; simplified_pipeline keeps outputs needed by ANY other group
"""

from __future__ import annotations

import ast
import re

from ..cfg import ENTRY, EXIT
from ..flow import Defs, Scope, iterations
from ..loader import FuncInfo, dotted, norm, walk_no_nested
from ..report import Ctx
from ..selftest import Mutant

PROP = "C10"
TECHNIQUE = "static analysis: copy()/constructor wiring tables + alias/mutation scan of dicts shared by copies (incl. parameter-mutating callees) + typed sort-key rule + who-writes/who-appends scans + CFG invalidation-after-write rules + name-space rule (original vs renamed parameter / output names) + guard-fact rule for bound parameters in add_mapspec_axis + one-name-space rule for collected parameter/output names + scope-entry filter tracing + replace-not-merge rule in NestedPipeFunc.copy + subclass attribute parity (NestedPipeFunc vs what the package reads from a function) + internal-name result picking and declared output order + pickling back-reference re-registration + root-argument restriction of scoped inputs + registration on every appending path"
PFM = "pipefunc._pipefunc"
BASE = "pipefunc._pipeline._base"
EXPLANATION = (
    "Static analysis of the rewrite machinery: mutator-written fields versus what copy() forwards, an alias/mutation scan "
    "for the dicts copies share by reference (direct stores and parameter-mutating callees), annotation-typed detection of "
    "raw str|tuple sort keys, symmetry of __getstate__/__setstate__, a who-writes scan for foreign MapSpec assignments with "
    "their invalidation context, and who-appends-functions."
)
TRUSTED = ["CPython ast parser", "annotation-driven types (OUTPUT_TYPE = str | tuple[str, ...])", "call graph resolution"]
DECLINED = [
    "value equality of rewritten and original pipelines; the pointwise-lifting law of add_mapspec_axis (value-level)",
    "correctness of _identify_combinable_nodes / _combine_nodes",
]

SHARED = ("_renames", "_defaults", "_bound")
MUTATING = {"update", "setdefault", "pop", "popitem", "clear", "__setitem__", "__delitem__", "add", "append", "extend", "insert", "remove", "discard", "sort", "reverse"}
STATE = ("_defaults", "_bound", "_renames", "mapspec")


def _param_mutations(fn: FuncInfo) -> dict[str, ast.AST]:
    """Parameters of `fn` that its body mutates in place (subscript store / del / mutating method)."""
    out: dict[str, ast.AST] = {}
    params = set(fn.param_names())
    # a parameter only stops aliasing the caller's object when it is rebound unconditionally (top-level statement)
    rebound = {t.id for s in fn.node.body if isinstance(s, ast.Assign) and not isinstance(s.value, ast.Name) for t in s.targets if isinstance(t, ast.Name)}
    # locals that are plain aliases of a parameter
    for s in walk_no_nested(fn.node):
        if isinstance(s, ast.Assign) and isinstance(s.value, ast.Name) and s.value.id in params and s.value.id not in rebound:
            for t in s.targets:
                if isinstance(t, ast.Name) and t.id not in params:
                    params = params | {t.id}
    for n in walk_no_nested(fn.node):
        tg: list[ast.AST] = []
        if isinstance(n, ast.Assign):
            tg = n.targets
        elif isinstance(n, (ast.AugAssign,)):
            tg = [n.target]
        elif isinstance(n, ast.Delete):
            tg = n.targets
        for t in tg:
            if isinstance(t, ast.Subscript) and isinstance(t.value, ast.Name) and t.value.id in params and t.value.id not in rebound:
                out.setdefault(t.value.id, n)
        if isinstance(n, ast.Call) and isinstance(n.func, ast.Attribute) and n.func.attr in MUTATING and isinstance(n.func.value, ast.Name) and n.func.value.id in params and n.func.value.id not in rebound:
            out.setdefault(n.func.value.id, n)
    return out


def _wiring(ctx: Ctx, cp: FuncInfo, d: ast.Dict | None, init_params: list[str], who: str) -> None:
    """Each constructor argument of copy() is taken from the attribute of the same name (not from another one, not dropped)."""
    if d is None:
        ctx.add("1-copy-carries", cp, cp.node, None, f"UNDECIDED: {who}.copy has no explicit argument table", key=f"{who}.wiring")
        return
    vals = {k.value: v for k, v in zip(d.keys, d.values) if isinstance(k, ast.Constant)}
    cross, dropped = [], []
    for k, v in vals.items():
        t = norm(v)
        attrs = {a.attr.lstrip("_") for a in ast.walk(v) if isinstance(a, ast.Attribute) and isinstance(a.value, ast.Name) and a.value.id == "self"}
        if isinstance(v, ast.Constant) and v.value is None:
            dropped.append(k)
        elif attrs and k not in attrs and attrs & (set(init_params) - {k}):
            cross.append((k, t))
    ctx.add("1-copy-carries", cp, d, not cross and not dropped, f"{who}.copy takes every argument from the matching attribute" if not cross and not dropped else
            f"{who}.copy wires {cross or dropped}: " + ("the argument is taken from another attribute" if cross else "the attribute is replaced by None, the copy loses it"), key=f"{who}.wiring")


def _table_driven_dict(fn: FuncInfo) -> ast.Dict | None:
    """`{arg: getattr(self, attr) for arg, attr in TABLE.items()}` with TABLE a module-level dict of string literals, spelled out
    as the dict literal `{"arg": self.attr, ...}` it denotes."""
    for dc in [x for x in ast.walk(fn.node) if isinstance(x, ast.DictComp) and len(x.generators) == 1 and not x.generators[0].ifs]:
        g = dc.generators[0]
        if not (isinstance(g.target, ast.Tuple) and len(g.target.elts) == 2 and all(isinstance(e, ast.Name) for e in g.target.elts)):
            continue
        a_, b_ = g.target.elts[0].id, g.target.elts[1].id
        it = g.iter
        if not (isinstance(it, ast.Call) and isinstance(it.func, ast.Attribute) and it.func.attr == "items" and isinstance(it.func.value, ast.Name)):
            continue
        table = fn.module.assigns.get(it.func.value.id)
        if not (isinstance(table, ast.Dict) and all(isinstance(k, ast.Constant) and isinstance(v, ast.Constant) and isinstance(v.value, str) for k, v in zip(table.keys, table.values))):
            continue
        if not (isinstance(dc.key, ast.Name) and dc.key.id == a_ and isinstance(dc.value, ast.Call) and dotted(dc.value.func) == "getattr" and len(dc.value.args) == 2
                and norm(dc.value.args[0]) == "self" and isinstance(dc.value.args[1], ast.Name) and dc.value.args[1].id == b_):
            continue
        out = ast.Dict(keys=[ast.Constant(value=k.value) for k in table.keys], values=[ast.Attribute(value=ast.Name(id="self", ctx=ast.Load()), attr=v.value, ctx=ast.Load()) for v in table.values])
        return ast.copy_location(ast.fix_missing_locations(out), dc)
    return None


def rule_copy_carries(ctx: Ctx) -> None:
    P = ctx.prog
    pf, npf, pl = P.cls(f"{PFM}.PipeFunc"), P.cls(f"{PFM}.NestedPipeFunc"), P.cls(f"{BASE}.Pipeline")
    for cls in (pf, npf):
        cp = cls.methods["copy"]
        td = _table_driven_dict(cp)
        src = norm(cp.node) + (" " + norm(td) if td is not None else "")
        explicit = any(isinstance(x, ast.Dict) and any(isinstance(k, ast.Constant) for k in x.keys) for x in ast.walk(cp.node)) or f"{cls.name}(" in src
        for fld in STATE:
            ok = f"self.{fld}" in src
            ctx.tri("1-copy-carries", cp, cp.node, ok, not ok and explicit, f"copy() carries `{fld}`", f"{cls.name}.copy() drops `{fld}` (set through update_*): adding the function to a pipeline copies it and loses that configuration",
                    "copy() is not built from explicit constructor arguments", key=f"{cls.name}.{fld}")
    cp = pf.methods["copy"]
    init_params = [p for p in pf.methods["__init__"].param_names() if p not in ("self", "scope")]
    d = next((x for x in ast.walk(cp.node) if isinstance(x, ast.Dict) and any(isinstance(k, ast.Constant) for k in x.keys)), None) or _table_driven_dict(cp)
    keys = [k.value for k in d.keys if isinstance(k, ast.Constant)] if d else []
    ok = set(keys) == set(init_params)
    ctx.add("1-copy-carries", cp, d if d is not None else cp.node, ok, f"every constructor argument ({len(init_params)}) is forwarded" if ok else f"PipeFunc.copy forwards {sorted(set(keys) ^ set(init_params))} differently from __init__", key="PipeFunc.ctor-args")
    _wiring(ctx, cp, d, init_params, "PipeFunc")
    ctx.tri("1-copy-carries", cp, cp.node, "PipeFunc(**" in norm(cp.node), False, "overrides are applied, then the constructor (and its validation) runs", "", "PipeFunc.copy does not visibly rebuild through PipeFunc(**kwargs)", key="PipeFunc.rebuild")
    pcp = pl.methods["copy"]
    d = next((x for x in ast.walk(pcp.node) if isinstance(x, ast.Dict)), None)
    _wiring(ctx, pcp, d, [p_ for p_ in pl.methods["__init__"].param_names() if p_ not in ("self", "scope")], "Pipeline")
    ncp = npf.methods["copy"]
    src = norm(ncp.node)
    ctx.tri("1-copy-carries", ncp, ncp.node, "update_defaults(" in src and "update_bound(" in src, "NestedPipeFunc(" in src and not ("update_defaults(" in src and "update_bound(" in src),
            "defaults and bound are re-applied on the copy (they are not constructor arguments)", "NestedPipeFunc.copy does not re-apply defaults / bound, which its constructor does not take: the copy loses them", key="Nested.reapply")


    # ... and they REPLACE what the constructor derived from the inner functions: a merge (overwrite not True) keeps the inner
    # functions' entries the source had removed - the copy then has a default the original does not have (or default and bound clash)
    reapplied = [c for c in ast.walk(ncp.node) if isinstance(c, ast.Call) and isinstance(c.func, ast.Attribute) and c.func.attr in ("update_defaults", "update_bound") and not (isinstance(c.func.value, ast.Name) and c.func.value.id == "self")]
    merges = [c for c in reapplied if not any(k.arg == "overwrite" and isinstance(k.value, ast.Constant) and k.value.value is True for k in c.keywords)]
    if reapplied:
        ctx.add("1-copy-carries", ncp, merges[0] if merges else reapplied[0], not merges, "the copy's defaults / bound are replaced by the source's (overwrite=True)" if not merges else
                f"`{norm(merges[0])[:60]}` merges the source's entries into what the constructor derived from the inner functions instead of replacing them: an entry the source had removed comes back in every copy "
                "(pipeline.copy(), `|`, join, pickling copies) - values change or the copy fails with 'both defaults and bound'", key="Nested.reapply-replaces")


def rule_no_inplace(ctx: Ctx) -> None:  # noqa: C901
    P, cg = ctx.prog, ctx.cg
    pf = P.cls(f"{PFM}.PipeFunc")
    n2 = 0
    for fn in P.functions.values():
        if not fn.module.name.startswith(("pipefunc._pipefunc", "pipefunc._pipeline", "pipefunc.map", "pipefunc._utils")):
            continue
        for n in walk_no_nested(fn.node):
            tg: list[ast.AST] = []
            if isinstance(n, ast.Assign):
                tg = n.targets
            elif isinstance(n, ast.AugAssign):
                tg = [n.target]
            elif isinstance(n, ast.Delete):
                tg = n.targets
            for t in tg:
                if isinstance(t, ast.Subscript) and isinstance(t.value, ast.Attribute) and t.value.attr in SHARED:
                    n2 += 1
                    ctx.add("2-no-inplace", fn, n, False, f"`{norm(n)[:70]}` writes into `{t.value.attr}`, a dict that every copy of the function shares by reference: the change leaks into the original and all other copies")
            if isinstance(n, ast.AugAssign) and isinstance(n.target, ast.Attribute) and n.target.attr in SHARED and isinstance(n.op, ast.BitOr):
                n2 += 1
                ctx.add("2-no-inplace", fn, n, False, f"`{norm(n)[:70]}` updates the shared dict `{n.target.attr}` in place")
            if isinstance(n, ast.Call) and isinstance(n.func, ast.Attribute) and n.func.attr in MUTATING and isinstance(n.func.value, ast.Attribute) and n.func.value.attr in SHARED:
                n2 += 1
                ctx.add("2-no-inplace", fn, n, False, f"`{norm(n)[:70]}` mutates `{n.func.value.attr}` in place; copies share that dict by reference (copy() forwards it as is), so the original function/pipeline changes too")
            if isinstance(n, ast.Call):
                # passing a shared dict to a callee that mutates the parameter
                for i, a in enumerate(n.args):
                    if isinstance(a, ast.Attribute) and a.attr in (*SHARED, "_cache_kwargs"):
                        for callee in cg.resolve_callable(fn, n.func):
                            ps = [p for p in callee.param_names() if p not in ("self", "cls")]
                            if i < len(ps) and ps[i] in _param_mutations(callee):
                                n2 += 1
                                ctx.add("2-no-inplace", fn, n, False, f"`{norm(a)}` is passed to {callee.name}, which mutates its parameter `{ps[i]}` in place: the dict is shared by reference with copies")
    ctx.add("2-no-inplace", "pipefunc", "", True, f"scanned the package for in-place writes to {SHARED} ({n2} found)", key="scan")
    for q, arg in ((f"{PFM}._pydantic_defaults", "defaults"), ("pipefunc._pipeline._cache.create_cache", "cache_kwargs")):
        f = P.func(q)
        m = _param_mutations(f)
        aliases = {t.id for s_ in walk_no_nested(f.node) if isinstance(s_, ast.Assign) and isinstance(s_.value, ast.Name) and s_.value.id == arg for t in s_.targets if isinstance(t, ast.Name)}
        hit = [k for k in (arg, *aliases) if k in m]
        ok = not hit
        ctx.add("2-no-inplace", f, m.get(hit[0], f.node) if hit else f.node, ok, f"{f.name} does not mutate its `{arg}` argument" if ok else f"{f.name} mutates the `{arg}` dict it is given (the caller's / the shared one)", key=f"param {f.name}.{arg}")
    for meth in ("update_defaults", "update_bound", "update_renames"):
        f = pf.methods[meth]
        asg = [s for s in walk_no_nested(f.node) if isinstance(s, ast.Assign) and isinstance(s.targets[0], ast.Attribute) and s.targets[0].attr in SHARED]
        ctx.tri("2-no-inplace", f, asg[0] if asg else f.node, bool(asg), False, f"{meth} rebinds the dict", "", f"{meth}: no rebinding of the shared dict found (in-place writes are reported by the scan above)", key=f"rebind {meth}")


def rule_result_keys(ctx: Ctx) -> None:
    from .c02 import rule_routing

    sub = Ctx(ctx.prog, "C10", ctx.tier)
    sub._typer, sub._cg = ctx._typer, ctx._cg
    rule_routing(sub)
    for o in sub.obs:
        if o.key in ("all-names",):
            ctx.obs.append(type(o)("C10.3-result-keys", o.instance, o.loc, o.ok, o.detail.replace("readers indexing by name (NestedPipeFunc wrapper, full_output) fail", "nested pipelines with a multi-output leaf fail"), o.key, o.path))


def rule_sort_keys(ctx: Ctx) -> None:
    P = ctx.prog
    n4 = 0
    for fn in P.functions.values():
        if not fn.module.name.startswith(("pipefunc._pipeline", "pipefunc._pipefunc", "pipefunc.sweep", "pipefunc.map._prepare")):
            continue
        for c in [c for c in walk_no_nested(fn.node) if isinstance(c, ast.Call) and (dotted(c.func) in ("sorted", "min", "max") or (isinstance(c.func, ast.Attribute) and c.func.attr == "sort"))]:
            key = next((k.value for k in c.keywords if k.arg == "key"), None)
            if key is None or not isinstance(key, ast.Lambda):
                continue
            body = key.body
            if not (isinstance(body, ast.Attribute) and body.attr == "output_name"):
                if not any(isinstance(x, ast.Attribute) and x.attr == "output_name" for x in ast.walk(body)):
                    continue
            n4 += 1
            raw = isinstance(body, ast.Attribute) and body.attr == "output_name"
            ctx.add("4-sort-keys", fn, c, not raw, "output names are normalised (at_least_tuple / join) before ordering" if not raw else
                    "functions are ordered by raw `output_name` (str | tuple[str, ...]): mixing single- and multi-output functions raises TypeError", key=f"sort in {fn.name}")
    ctx.floor("4-sort-keys", n4, 1)
    tg = P.func(f"{BASE}._traverse_graph")
    srt = [c for _f, c in Scope(ctx, tg).walk() if isinstance(c, ast.Call) and dotted(c.func) == "sorted"]
    raw = [c for c in srt if not any(k.arg == "key" for k in c.keywords)]
    ctx.tri("4-sort-keys", tg, (raw or srt or [tg.node])[0], bool(srt) and not raw, bool(raw), "dependency listings are ordered through a key function (at_least_tuple)",
            "_traverse_graph sorts raw output names (str | tuple[str, ...]): mixing single- and multi-output functions raises TypeError", "no sorted() call found", key="traverse")
    ot = ctx.typer.attr_type(f"{PFM}.PipeFunc", "output_name")
    ok = {"str", "tuple"} <= ot.scalars()
    ctx.add("4-sort-keys", f"{PFM}.PipeFunc.output_name", "", ok, f"declared type of output_name is {ot}" if ok else f"output_name is no longer declared str | tuple ({ot}); the sort-key rule's premise changed", key="premise")


def rule_pickle_state(ctx: Ctx) -> None:
    P = ctx.prog
    pf = P.cls(f"{PFM}.PipeFunc")
    gs, ss = pf.methods["__getstate__"], pf.methods["__setstate__"]
    excluded = set()
    for c in ast.walk(gs.node):
        if isinstance(c, ast.Compare) and isinstance(c.ops[0], ast.NotIn) and isinstance(c.comparators[0], ast.Tuple):
            excluded |= {e.value for e in c.comparators[0].elts if isinstance(e, ast.Constant)}
    stored = {t.slice.value for s in walk_no_nested(gs.node) if isinstance(s, ast.Assign) for t in s.targets if isinstance(t, ast.Subscript) and norm(t.value) == "state" and isinstance(t.slice, ast.Constant)}
    restored = {t.attr for s in walk_no_nested(ss.node) if isinstance(s, ast.Assign) for t in s.targets if isinstance(t, ast.Attribute) and norm(t.value) == "self"}
    # ... or through a working copy of the state that is installed as a whole (`restored["func"] = loads(...)`; `self.__dict__.update(restored)`)
    installed = {norm(c.args[0]) for c in ast.walk(ss.node) if isinstance(c, ast.Call) and isinstance(c.func, ast.Attribute) and c.func.attr == "update" and norm(c.func.value) in ("self.__dict__", "vars(self)") and len(c.args) == 1 and isinstance(c.args[0], ast.Name)}
    installed |= {norm(lp.iter.func.value) for lp in ast.walk(ss.node) if isinstance(lp, ast.For) and isinstance(lp.iter, ast.Call) and isinstance(lp.iter.func, ast.Attribute) and lp.iter.func.attr == "items" and isinstance(lp.iter.func.value, ast.Name)
                  and any(isinstance(c, ast.Call) and dotted(c.func) in ("setattr", "object.__setattr__") for c in ast.walk(lp))}
    via_copy = {t.slice.value: s.value for s in walk_no_nested(ss.node) if isinstance(s, ast.Assign) for t in s.targets if isinstance(t, ast.Subscript) and isinstance(t.slice, ast.Constant) and norm(t.value) in installed}
    restored |= set(via_copy)
    lost = sorted((excluded | stored) - restored)
    ctx.tri("5-pickle-state", ss, ss.node, bool(excluded) and not lost, bool(lost), f"{sorted(excluded)} are dropped/encoded by __getstate__ and restored by __setstate__",
            f"__getstate__ drops/encodes {sorted(excluded | stored)} but __setstate__ never restores {lost}: an unpickled function lacks them", "state handling not recognised", key="PipeFunc")
    enc = {k: norm(v) for s in walk_no_nested(gs.node) if isinstance(s, ast.Assign) for t in s.targets if isinstance(t, ast.Subscript) and isinstance(t.slice, ast.Constant) for k, v in [(t.slice.value, s.value)]}
    dec = {t.attr: norm(s.value) for s in walk_no_nested(ss.node) if isinstance(s, ast.Assign) for t in s.targets if isinstance(t, ast.Attribute)}
    dec.update({k: norm(v) for k, v in via_copy.items()})
    asym = [k for k in set(enc) | set(dec) if ("dumps" in enc.get(k, "")) != ("loads" in dec.get(k, "")) and (k in enc or "loads" in dec.get(k, ""))]
    ctx.tri("5-pickle-state", gs, gs.node, bool(enc) and not asym, bool(asym), "what is dumps()-encoded on the way out is loads()-decoded on the way in", f"{sorted(asym)}: encoded with dumps but not decoded with loads (or the reverse)", "codec not recognised", key="PipeFunc.codec")
    # `_pipelines` (the back-references through which a function invalidates the caches of the pipelines that contain it) is not
    # pickled and starts EMPTY in the restored function: the restored PIPELINE has to register itself again
    resets = [s_ for s_ in walk_no_nested(ss.node) if isinstance(s_, ast.Assign) and any(isinstance(t, ast.Attribute) and t.attr == "_pipelines" and norm(t.value) == "self" for t in s_.targets)]
    if "_pipelines" in excluded or resets:
        pl_cls = P.cls(f"{BASE}.Pipeline")
        hooks = [m for nm, m in dict.items(pl_cls.methods) if nm in ("__setstate__", "__reduce__", "__reduce_ex__")]
        relink = [c for m in hooks for f_ in Scope(ctx, m).funcs for c in ast.walk(f_.node) if isinstance(c, ast.Call) and isinstance(c.func, ast.Attribute) and c.func.attr in ("add", "update") and norm(c.func.value).endswith("._pipelines")]
        ctx.tri("5-pickle-state", hooks[0] if hooks else pl_cls.qualname, (relink[0] if relink else hooks[0].node) if hooks else pl_cls.loc, bool(relink), not hooks,
                "the restored Pipeline registers itself with its functions again (`f._pipelines.add(self)`)",
                "PipeFunc restores with an EMPTY `_pipelines` and Pipeline has no __setstate__ that registers itself again: after a pickle round-trip (or deepcopy) `pipeline[name].update_defaults / update_renames / update_bound` "
                "change the function but never invalidate the pipeline's cached defaults, root arguments and graph - the round-tripped pipeline answers from the state before the update",
                "Pipeline has a pickling hook, but no `._pipelines.add(...)` was found in it", key="Pipeline.relink")
    paf = P.cls(f"{BASE}._PipelineAsFunc")
    g2, s2 = paf.methods["__getstate__"], paf.methods["__setstate__"]
    ctx.tri("5-pickle-state", s2, s2.node, "__slots__" in norm(g2.node) and "__slots__" in norm(s2.node), False, "_PipelineAsFunc saves and restores every slot", "", "_PipelineAsFunc state handling not recognised", key="PipelineAsFunc")


def rule_foreign_writes(ctx: Ctx) -> None:
    P = ctx.prog
    pl = P.cls(f"{BASE}.Pipeline")
    ALLOWED = {
        "pipefunc._pipeline._mapspec.add_mapspec_axis": "called from Pipeline.add_mapspec_axis, which clears and re-validates afterwards (checked below)",
        "pipefunc._pipeline._mapspec.create_missing_mapspecs": "runs inside Pipeline._validate right after _clear_internal_cache; _autogen_mapspec_axes reads no MapSpec-dependent cached property (checked below)",
        f"{PFM}.NestedPipeFunc.__init__": "the children are private copies made in this constructor",
        f"{PFM}.PipeFunc.__init__": "construction",
        f"{PFM}.PipeFunc.update_renames": "own state, followed by _clear_internal_cache (C02.6)",
    }
    n6 = 0
    for fn in P.functions.values():
        for s in walk_no_nested(fn.node):
            if isinstance(s, ast.Assign) and any(isinstance(t, ast.Attribute) and t.attr == "mapspec" for t in s.targets):
                n6 += 1
                ok = fn.qualname in ALLOWED
                ctx.add("6-foreign-writes", fn, s, ok, f"MapSpec write: {ALLOWED.get(fn.qualname)}" if ok else f"`{norm(s)[:60]}` writes a function's MapSpec from a place where cached pipeline views are not invalidated", key=f"writer {fn.qualname.rsplit('.', 1)[-1]}")
    ctx.floor("6-foreign-writes", n6, 4)
    am = pl.methods["add_mapspec_axis"]
    cfg = ctx.cfg(am)
    w = cfg.nodes(lambda s: any(isinstance(c, ast.Call) and dotted(c.func) == "add_mapspec_axis" for c in ast.walk(s)))
    clears = set(cfg.nodes(lambda s: isinstance(s, ast.Expr) and isinstance(s.value, ast.Call) and norm(s.value.func) == "self._clear_internal_cache"))
    vals = set(cfg.nodes(lambda s: isinstance(s, ast.Expr) and isinstance(s.value, ast.Call) and norm(s.value.func) == "self._validate"))
    ok = bool(w) and bool(clears) and bool(vals) and all(cfg.must_pass(x, EXIT, clears, normal_only=True) and cfg.must_pass(x, EXIT, vals, normal_only=True) for x in w)
    ctx.add("6-foreign-writes", am, am.node, ok, "Pipeline.add_mapspec_axis clears the cached views and re-validates after rewriting MapSpecs" if ok else "Pipeline.add_mapspec_axis does not invalidate / re-validate after rewriting MapSpecs", key="add-axis-clears")
    t = norm(am.node)
    ctx.tri("6-foreign-writes", am, am.node, "sorted_functions" in t or "topological" in t, "functions=self.functions" in t, "the new axis is propagated along the topological order",
            "add_mapspec_axis walks self.functions (listing order): an axis added to a producer listed after its consumer is not propagated", key="add-axis-order")
    MAPSPEC_DEPENDENT = {"mapspec_names", "mapspecs_as_strings", "mapspec_dimensions", "mapspec_axes"}
    au = pl.methods["_autogen_mapspec_axes"]
    reads = {a.attr for a in ast.walk(au.node) if isinstance(a, ast.Attribute) and norm(a.value) == "self"}
    ok = not (reads & MAPSPEC_DEPENDENT)
    ctx.add("6-foreign-writes", au, au.node, ok, "no MapSpec-dependent cached property is read before MapSpecs are generated" if ok else f"_autogen_mapspec_axes reads {sorted(reads & MAPSPEC_DEPENDENT)} (cached) before it writes MapSpecs: stale afterwards", key="autogen-reads")
    ad = pl.methods["add"]
    cfg = ctx.cfg(ad)
    app = cfg.nodes(lambda s: isinstance(s, ast.Expr) and isinstance(s.value, ast.Call) and norm(s.value.func) == "self.functions.append")
    clears = set(cfg.nodes(lambda s: isinstance(s, ast.Expr) and isinstance(s.value, ast.Call) and norm(s.value.func) == "self._clear_internal_cache"))
    vals = cfg.nodes(lambda s: isinstance(s, ast.Expr) and isinstance(s.value, ast.Call) and norm(s.value.func) == "self._validate")
    if app and vals:
        ok = bool(clears) and all(any(cfg.dominates(c, v) for c in clears) for v in vals) and all(any(cfg.dominates(a, c) for a in app) for c in clears)
        ctx.add("6-foreign-writes", ad, ad.node, ok, "add: append, clear the cached views, then validate (which may generate MapSpecs)" if ok else "Pipeline.add validates (and generates MapSpecs) without clearing the cached views after the append", key="add-order")


def rule_bound_not_mapped(ctx: Ctx) -> None:
    """A bound parameter has a fixed value: add_mapspec_axis never maps a function over it (it would get `p[k]` as an input
    although the bound value wins, and its outputs would gain an axis that nothing feeds)."""
    from ..flow import guard_facts

    fn = ctx.prog.func("pipefunc._pipeline._mapspec.add_mapspec_axis")
    cfg = ctx.cfg(fn)
    d = Defs(fn)
    p0 = fn.param_names()[0]
    writes = cfg.nodes(lambda s_: isinstance(s_, ast.Assign) and any(isinstance(t, ast.Attribute) and t.attr == "mapspec" for t in s_.targets))
    if not writes:
        ctx.add("6-foreign-writes", fn, fn.node, None, "UNDECIDED: no MapSpec write found in add_mapspec_axis", key="bound-not-mapped")
        return
    for w in writes:
        facts = guard_facts(cfg, d, w)
        excluded = any(re.fullmatch(rf"{re.escape(p0)} in \w+\._bound", t) and not pol for t, pol in facts)
        in_fn = "_bound" in norm(fn.node)
        in_helpers = "_bound" in Scope(ctx, fn, wide=True).text()
        # violated when the function itself tests `_bound` but not on the way to this write, or when nothing it calls looks at `_bound`
        ctx.tri("6-foreign-writes", fn, cfg.stmt[w], excluded, not excluded and (in_fn or not in_helpers),
                "a function's MapSpec is only extended for a parameter that is not bound", f"`{norm(cfg.stmt[w])[:60]}` is reached although `{p0}` may be bound in the function: its MapSpec gets `{p0}[...]` as input and a new output axis, while the bound value is what the function receives",
                "exclusion of bound parameters not recognised", key="bound-not-mapped")


def rule_fresh_objects(ctx: Ctx) -> None:
    P = ctx.prog
    pl, npf = P.cls(f"{BASE}.Pipeline"), P.cls(f"{PFM}.NestedPipeFunc")
    appenders = sorted({fn.qualname for fn in P.functions.values() for c in walk_no_nested(fn.node) if isinstance(c, ast.Call) and isinstance(c.func, ast.Attribute) and c.func.attr in ("append", "extend", "insert") and norm(c.func.value).endswith(".functions")})
    # ... or where the appended object is, like in add(), a copy made on the spot that is registered with the pipeline
    def like_add(q: str) -> bool:
        fn = P.functions[q]
        if fn.cls is None or fn.cls.qualname != pl.qualname:
            return False
        for c in walk_no_nested(fn.node):
            if isinstance(c, ast.Call) and isinstance(c.func, ast.Attribute) and c.func.attr == "append" and norm(c.func.value) == "self.functions" and c.args and isinstance(c.args[0], ast.Name):
                nm = c.args[0].id
                copied = any(isinstance(a_, (ast.Assign, ast.AnnAssign)) and any(isinstance(t, ast.Name) and t.id == nm for t in (a_.targets if isinstance(a_, ast.Assign) else [a_.target])) and isinstance(a_.value, ast.Call)
                             and (norm(a_.value.func).endswith(".copy") or dotted(a_.value.func).rsplit(".", 1)[-1] == "PipeFunc") for a_ in walk_no_nested(fn.node))
                registered = any(isinstance(r_, ast.Call) and isinstance(r_.func, ast.Attribute) and r_.func.attr == "add" and norm(r_.func.value) == f"{nm}._pipelines" for r_ in walk_no_nested(fn.node))
                if not (copied and registered):
                    return False
            elif isinstance(c, ast.Call) and isinstance(c.func, ast.Attribute) and c.func.attr in ("extend", "insert") and norm(c.func.value).endswith(".functions"):
                return False
        return True

    extra = [a for a in appenders if a != f"{BASE}.Pipeline.add" and not like_add(a)]
    # ... and EVERY function that is appended is registered: the registration sits on every normal path that appends (a plain
    # callable that Pipeline wraps itself needs it just like a PipeFunc that was copied)
    from ..cfg import ENTRY as _EN, EXIT as _EX

    for q in appenders:
        fn_ = P.functions[q]
        if fn_.cls is None or fn_.cls.qualname != pl.qualname:
            continue
        cfg_ = ctx.cfg(fn_)
        app = cfg_.nodes(lambda s_: any(isinstance(c, ast.Call) and isinstance(c.func, ast.Attribute) and c.func.attr == "append" and norm(c.func.value) == "self.functions" for c in ast.walk(s_)) and not isinstance(s_, (ast.If, ast.For, ast.While, ast.With, ast.Try)))
        reg = set(cfg_.nodes(lambda s_: any(isinstance(c, ast.Call) and isinstance(c.func, ast.Attribute) and c.func.attr == "add" and norm(c.func.value).endswith("._pipelines") for c in ast.walk(s_)) and not isinstance(s_, (ast.If, ast.For, ast.While, ast.With, ast.Try))))
        if not app:
            continue
        ok_ = bool(reg) and all(cfg_.must_pass(_EN, a_, reg, normal_only=True) or cfg_.must_pass(a_, _EX, reg, normal_only=True) for a_ in app)
        ctx.tri("7-fresh-objects", fn_, cfg_.stmt[app[0]], ok_, bool(reg) and not ok_, f"{fn_.name}: every appended function is registered with the pipeline (`f._pipelines.add(self)`)",
                f"{fn_.name} appends a function on a path that does not register the pipeline with it (`_pipelines.add(self)` only happens on some branches): `pipeline[name].update_renames / update_defaults / update_bound` "
                "on such a member never clears the pipeline's caches - a rename collision or an inconsistent default introduced that way is not rejected before user functions run", "registration not found", key=f"registered {fn_.name}")
    ctx.add("7-fresh-objects", f"{BASE}.Pipeline.functions", "", not extra, "functions are appended only in Pipeline.add" if not extra else f"functions are also appended in {extra}: they enter a pipeline without the copy / registration / validation of Pipeline.add", key="appenders")
    ad = pl.methods["add"]
    cfg = ctx.cfg(ad)
    fparam = [p_ for p_ in ad.param_names() if p_ != "self"][0]
    app = cfg.nodes(lambda s: isinstance(s, ast.Expr) and isinstance(s.value, ast.Call) and norm(s.value.func) == "self.functions.append")
    if app:
        val = cfg.stmt[app[0]].value.args[0]
        def fresh(v: ast.AST) -> bool:
            return any(isinstance(c, ast.Call) and ((isinstance(c.func, ast.Attribute) and c.func.attr == "copy") or (isinstance(c.func, ast.Name) and c.func.id[:1].isupper())) for c in [v] if isinstance(v, ast.Call))

        copies = cfg.nodes(lambda s: isinstance(s, (ast.Assign, ast.AnnAssign)) and s.value is not None and fresh(s.value) and any(norm(t) == norm(val) for t in (s.targets if isinstance(s, ast.Assign) else [s.target])))
        inline = isinstance(val, ast.Call) and fresh(val)

        def leaves(name: str, seen: frozenset = frozenset()) -> list[ast.AST]:
            """Every value that can end up in `name` (through plain aliases), `None` placeholders ignored."""
            out: list[ast.AST] = []
            for a_ in walk_no_nested(ad.node):
                if isinstance(a_, (ast.Assign, ast.AnnAssign)) and a_.value is not None and any(isinstance(t, ast.Name) and t.id == name for t in (a_.targets if isinstance(a_, ast.Assign) else [a_.target])):
                    v_ = a_.value
                    if isinstance(v_, ast.Constant) and v_.value is None:
                        continue
                    if isinstance(v_, ast.Name) and v_.id not in seen and v_.id not in ad.param_names():
                        out += leaves(v_.id, seen | {name})
                    else:
                        out.append(v_)
            return out

        # `f = member` where everything `member` can hold is fresh: a rebinding that replaces the caller's object by a copy
        copies = sorted(set(copies) | set(cfg.nodes(lambda s: isinstance(s, ast.Assign) and isinstance(s.value, ast.Name) and any(norm(t) == norm(val) for t in s.targets)
                                                    and bool(leaves(s.value.id)) and all(fresh(v_) for v_ in leaves(s.value.id)))))
        lv = leaves(val.id) if isinstance(val, ast.Name) and val.id not in ad.param_names() else []  # a parameter also holds the caller's object
        all_fresh = bool(lv) and all(fresh(v_) for v_ in lv)
        copied = inline or all_fresh or (bool(copies) and cfg.must_pass(ENTRY, app[0], set(copies), normal_only=True))
        ctx.add("7-fresh-objects", ad, cfg.stmt[app[0]], copied, "add() appends a copy of the function" if copied else
                f"Pipeline.add can append the caller's own object `{norm(val)}` (no copy on some path): later updates through the pipeline change the caller's function and other pipelines", key="add-copies")
    ni = npf.methods["__init__"]
    t = norm(ni.node)
    shares = re.search(r"Pipeline\((\w+)", t)
    pparam = [p_ for p_ in ni.param_names() if p_ != "self"][0]
    ctx.tri("7-fresh-objects", ni, ni.node, ".copy(" in t, bool(shares) and shares.group(1) == pparam and ".copy(" not in t, "a NestedPipeFunc owns copies of its functions",
            "NestedPipeFunc builds its pipeline from the caller's function objects", key="nested-copies")
    for nm in ("join", "split_disconnected"):
        f = pl.methods[nm]
        ctx.tri("7-fresh-objects", f, f.node, ".copy(" in norm(f.node), False, f"{nm} builds new pipelines from copies", "", f"{nm}: no copy recognised", key=nm)


def rule_details(ctx: Ctx) -> None:
    P = ctx.prog
    pf = P.cls(f"{PFM}.PipeFunc")
    pn = P.func(f"{PFM}._prepend_name_with_scope")
    d = Defs(pn)
    sw = [c for c in ast.walk(pn.node) if isinstance(c, ast.Call) and isinstance(c.func, ast.Attribute) and c.func.attr == "startswith" and c.args]
    sparam = [p_ for p_ in pn.param_names() if "scope" in p_]
    if sw and sparam:
        a0 = d.resolve(sw[0].args[0])
        dotted_ = any(isinstance(x, ast.Constant) and isinstance(x.value, str) and "." in x.value for x in ast.walk(a0))
        ctx.tri("8-details", pn, sw[0], dotted_, isinstance(a0, ast.Name) and a0.id == sparam[0], "a name counts as scoped only if it starts with `scope.` (with the dot)",
                "the already-scoped test lost its dot: names that merely start with the scope text (x0 under scope x) stay unscoped", f"prefix `{norm(a0)[:30]}`", key="scope-dot")
    on = P.func("pipefunc._pipeline._simplify._output_name")
    its = [it for it in iterations(on.node) if "nested_funcs" in norm(it["iter"])]
    sliced = [it for it in its if any(isinstance(x, ast.Subscript) and isinstance(x.slice, ast.Slice) for x in ast.walk(it["iter"]))]
    ctx.tri("8-details", on, (sliced or its or [{"node": on.node}])[0]["node"], bool(its) and not sliced, bool(sliced), "a nested group exposes every output that ANY other group or remaining function needs",
            f"only `{norm(sliced[0]['iter']) if sliced else ''}` of the other groups is considered when deciding which intermediate outputs to expose: an output needed by an earlier group is hidden", "iteration over the groups not recognised", key="simplify-outputs")
    us = pf.methods["update_scope"]
    ctx.tri("8-details", us, us.node, "update_renames(" in norm(us.node) and "_prepend_name_with_scope(" in norm(us.node), False, "update_scope is a rename of exactly the selected names", "", "update_scope not recognised", key="scope-is-rename")


def rule_scope_outputs_are_single_names(ctx: Ctx) -> None:
    """The names a pipeline scopes are SINGLE names (`outputs={"std"}`, all_output_names): the names a function owns have to be
    spelled out with at_least_tuple(f.output_name) - `{f.output_name}` holds the tuple itself for a multi-output function and
    matches none of them: the producer keeps its names while its consumers are renamed."""
    fn = ctx.prog.func("pipefunc._pipeline._base.Pipeline.update_scope")
    whole = [x for x in ast.walk(fn.node) if isinstance(x, ast.Set) and any(isinstance(e, ast.Attribute) and e.attr == "output_name" for e in x.elts)]
    whole += [x for x in ast.walk(fn.node) if isinstance(x, ast.Call) and dotted(x.func) in ("set", "frozenset") and x.args and isinstance(x.args[0], (ast.List, ast.Tuple)) and any(isinstance(e, ast.Attribute) and e.attr == "output_name" for e in x.args[0].elts)]
    ctx.add("1-name-space", fn, whole[0] if whole else fn.node, not whole, "a function's own names are spelled out with at_least_tuple before they are compared with the scoped names" if not whole else
            f"`{norm(whole[0])}` holds the WHOLE output name: for a multi-output function that is the tuple, which is none of the single names being scoped - the producer of ('mean', 'std') stays unscoped "
            "while every consumer is renamed to s.mean / s.std (the edge is cut: defaults are used silently, or the call fails)", key="scope-outputs-single-names")


def rule_scope_inputs_are_root_args(ctx: Ctx) -> None:
    """Pipeline.update_scope(inputs={...}) scopes ROOT arguments only: a name in the set that some function produces is an edge
    of the graph - renaming it on the consumer's side alone cuts the edge (the consumer silently falls back to its default)."""
    from ..flow import guard_facts

    fn = ctx.prog.func("pipefunc._pipeline._base.Pipeline.update_scope")
    cfg = ctx.cfg(fn)
    d = Defs(fn)
    calls = [c for c in ast.walk(fn.node) if isinstance(c, ast.Call) and isinstance(c.func, ast.Attribute) and c.func.attr == "update_scope" and norm(c.func.value) != "self"]
    n = 0
    for c in calls:
        arg = next((k.value for k in c.keywords if k.arg == "inputs"), c.args[1] if len(c.args) > 1 else None)
        if arg is None:
            continue
        n += 1
        r = d.resolve(arg)

        def expansions(name: str) -> list[str]:
            """Texts of the definitions of `name` that apply when the caller passed an explicit set (not the '*' shorthand)."""
            out = []
            for nd in cfg.nodes():
                st = cfg.stmt[nd]
                if isinstance(st, ast.Assign) and any(isinstance(t, ast.Name) and t.id == name for t in st.targets):
                    if any(pol and re.search(r"==\s*'\*'", t_) for t_, pol in guard_facts(cfg, Defs(ast.Module(body=[], type_ignores=[])), nd)):
                        continue  # only on the `inputs == "*"` path
                    out.append(norm(d.resolve(st.value)))
            return out

        texts = [norm(r)]
        for nm in {x.id for x in ast.walk(r) if isinstance(x, ast.Name)}:
            texts += expansions(nm)
        from_caller = any(isinstance(x, ast.Name) and x.id == "inputs" for x in ast.walk(r))
        restricted = any("root_args" in t for t in texts)
        ctx.tri("1-name-space", fn, c, restricted, from_caller and not restricted, "the names scoped as inputs are intersected with the root arguments",
                f"`{norm(arg)[:40]}` = `{norm(r)[:80]}` scopes every name the caller lists in `inputs`, also one that another function produces: the consumer's parameter is renamed, the producer's output is not - "
                "the edge is cut and the consumer silently uses its default (or a root argument appears that nobody asked for)", "the names handed on as inputs were not recognised", key="scope-inputs-root-args")
    if not n:
        ctx.add("1-name-space", fn, fn.node, None, "UNDECIDED: the per-function update_scope call was not found", key="scope-inputs-root-args")


def rule_nested_is_a_pipefunc(ctx: Ctx) -> None:
    """A NestedPipeFunc stands wherever a PipeFunc stands (nest_funcs puts it into the pipeline).  Its constructor does not chain
    to PipeFunc.__init__, so every attribute that the rest of the package reads from "a function of the pipeline" has to be created
    there too - map() reads `internal_shape` from every function while it prepares the run.  And the results of its internal
    pipeline are picked by the INTERNAL names: the (renamable, scopable) `output_name` is what the outside calls them."""
    from ..flow import subclass_missing_attrs

    P = ctx.prog
    miss = subclass_missing_attrs(P, f"{PFM}.PipeFunc", f"{PFM}.NestedPipeFunc")
    nf = P.cls(f"{PFM}.NestedPipeFunc")
    in_map = {a: [(f, x) for f, x in reads if f.module.name.startswith("pipefunc.map.") and "resources" not in a] for a, reads in miss.items()}
    in_map = {a: r for a, r in in_map.items() if r}
    first = next(iter(in_map.items()), None)
    ctx.add("9-details", first[1][0][0] if first else nf.qualname, first[1][0][1] if first else nf.loc, not in_map,
            f"NestedPipeFunc.__init__ creates every attribute that pipefunc.map reads from the functions of a pipeline ({len(miss)} attribute(s) of PipeFunc.__init__ are not created: {sorted(miss)}; none of them is read there)" if not in_map else
            f"`{norm(first[1][0][1])}` is read from every function of the pipeline, but NestedPipeFunc.__init__ (which does not call PipeFunc.__init__) never creates `{first[0]}`: "
            "Pipeline.map raises AttributeError for every pipeline that contains a NestedPipeFunc - nest_funcs is value-preserving under pipeline(...) only", key="nested-has-map-attributes")
    # the parameter names of the nested function are the (possibly SCOPED, i.e. dotted) names of the internal pipeline's inputs;
    # inspect.Parameter only accepts identifiers
    op = dict.get(nf.methods, "original_parameters")
    if op is not None:
        mk = [c for c in ast.walk(op.node) if isinstance(c, ast.Call) and dotted(c.func) in ("inspect.Parameter", "Parameter") and c.args]
        d_op = Defs(op)
        from_inner = [c for c in mk if isinstance(c.args[0], ast.Name) and any(w in Scope(ctx, op).text() for w in ("_all_inputs", ".parameters", "root_args"))]
        ctx.add("9-details", op, from_inner[0] if from_inner else op.node, not from_inner, "the parameter table of a NestedPipeFunc does not require identifier names" if not from_inner else
                f"`{norm(from_inner[0])[:60]}` is built from the input names of the internal pipeline, which are dotted after update_scope: inspect.Parameter rejects them - "
                "update_scope followed by nest_funcs raises ValueError(\"'s.a' is not a valid parameter name\"), the composition cannot be constructed", key="nested-parameter-names")
    # the tuple a nested function hands back follows its DECLARED output order; the result dict of the internal pipeline is in
    # computation order
    wrap = P.classes.get(f"{PFM}._NestedFuncWrapper")
    wc = dict.get(wrap.methods, "__call__") if wrap is not None else None
    if wc is not None:
        d_w = Defs(wc)
        comps = [x for r in walk_no_nested(wc.node) if isinstance(r, ast.Return) and r.value is not None for x in ast.walk(d_w.resolve(r.value)) if isinstance(x, (ast.GeneratorExp, ast.ListComp))]
        over_dict = [x for x in comps if any(isinstance(g.iter, ast.Call) and isinstance(g.iter.func, ast.Attribute) and g.iter.func.attr in ("items", "values", "keys") for g in x.generators)]
        over_names = [x for x in comps if any("output_name" in norm(d_w.resolve(g.iter)) for g in x.generators)]
        ctx.tri("9-details", wc, (over_dict or over_names or [wc.node])[0], bool(over_names) and not over_dict, bool(over_dict), "the outputs are handed back in the declared order (`for name in self.output_name`)",
                f"`{norm(over_dict[0])[:70] if over_dict else ''}` takes the outputs in the order of the result dict - the order in which the internal pipeline computed them - not in the declared `output_name` order: "
                "whenever the two differ the values land on the wrong output names", "how the output tuple is assembled was not recognised", key="nested-declared-order")
    # what a nested function asks of its caller are the ROOT ARGUMENTS of its internal pipeline - "all inputs minus all outputs"
    # also lists a parameter that the one inner function taking it has bound (the inner pipeline never asks for it)
    if op is not None:
        t_op = norm(op.node)
        by_root = "root_args" in t_op
        by_diff = "_all_inputs" in t_op and "_all_outputs" in t_op and "_bound" not in t_op and not by_root
        ctx.tri("9-details", op, op.node, by_root, by_diff, "the parameters of a nested function are the root arguments of its internal pipeline",
                "NestedPipeFunc takes `all inputs - all outputs` of its inner functions for its parameters: a parameter that is BOUND in the inner function that takes it becomes a required argument of the nested function - "
                "nest_funcs over a function with a bound parameter makes pipeline(...) raise 'Missing value' for it", "how the parameters of a nested function are derived was not recognised", key="nested-parameters-are-root-args")
    # ... and the type of an output is what the producing inner function declares: the wrapped callable (call_full_output) returns the
    # dict of ALL results, its return annotation is not the output's
    oa = dict.get(nf.methods, "output_annotation")
    base_oa = P.func(f"{PFM}.PipeFunc.output_annotation")
    unwraps = [c for c in ast.walk(base_oa.node) if isinstance(c, ast.Call) and dotted(c.func) == "isinstance" and len(c.args) == 2 and "_NestedFuncWrapper" in norm(c.args[1])]
    ctx.tri("9-details", oa if oa is not None else base_oa, (oa or base_oa).node, oa is not None and "pipeline" in norm(oa.node), oa is None and bool(unwraps),
            "NestedPipeFunc.output_annotation comes from the inner functions that produce the outputs",
            "the output annotation of a NestedPipeFunc is read off the wrapped `call_full_output`, which returns the dict of all results: a nested function with ONE output is annotated `dict[...]`, "
            "so nest_funcs over annotated functions is refused with 'Inconsistent type annotations' although every edge of the original pipeline is compatible", "output annotation of nested functions not recognised", key="nested-output-annotation")
    fn = dict.get(nf.methods, "func")
    if fn is None:
        ctx.add("9-details", nf.qualname, nf.loc, None, "UNDECIDED: NestedPipeFunc.func not found", key="nested-picks-internal-names")
        return
    picks = [c for c in ast.walk(fn.node) if isinstance(c, ast.Call) and dotted(c.func).rsplit(".", 1)[-1] == "_NestedFuncWrapper" and len(c.args) >= 2]
    if not picks:
        ctx.add("9-details", fn, fn.node, None, "UNDECIDED: how NestedPipeFunc.func picks the results of the internal pipeline was not recognised", key="nested-picks-internal-names")
        return
    a1 = norm(Defs(fn).resolve(picks[0].args[1]))
    ctx.tri("9-details", fn, picks[0], a1 in ("self._output_name",) or "pipeline" in a1, a1 == "self.output_name", "the results of the internal pipeline are picked by its own output names",
            "`self.output_name` - the name AFTER update_renames / update_scope - selects from the results of the internal pipeline, which are keyed by the internal names: nest_funcs followed by a rename or a scope of that output "
            "constructs fine and raises KeyError at the first call", f"selection by `{a1[:40]}` not recognised", key="nested-picks-internal-names")


def rule_name_space(ctx: Ctx) -> None:
    """`_defaults` and `_bound` are keyed by the RENAMED parameter names (update_renames re-keys them and `_validate_update`
    checks them against `self.parameters`); the signature / dataclass fields / pydantic fields give ORIGINAL names.  Where a
    function computes the defaults, every lookup in those dicts must use the renamed name (`renames.get(original, original)`):
    a lookup under the original name works until a parameter is renamed or scoped, then the override silently disappears."""
    P = ctx.prog
    n = 0
    for q, conts in ((f"{PFM}.PipeFunc.defaults", ("self._defaults", "self._bound")), (f"{PFM}._pydantic_defaults", ("defaults",))):
        fn = P.func(q)
        d = Defs(fn)
        for x in ast.walk(fn.node):
            key = None
            if isinstance(x, ast.Subscript) and norm(x.value) in conts and isinstance(x.ctx, ast.Load):
                key = x.slice
            elif isinstance(x, ast.Compare) and len(x.ops) == 1 and isinstance(x.ops[0], (ast.In, ast.NotIn)) and norm(x.comparators[0]) in conts:
                key = x.left
            if key is None:
                continue
            n += 1
            r = d.resolve(key)
            if isinstance(r, ast.Name):  # several definitions in the function (one per branch): take the one of the enclosing block
                par_ = {id(c): p_ for p_ in ast.walk(fn.node) for c in ast.iter_child_nodes(p_)}
                y: ast.AST = x
                while id(y) in par_ and isinstance(r, ast.Name):
                    y = par_[id(y)]
                    for body in [getattr(y, "body", None), getattr(y, "orelse", None)]:
                        if isinstance(body, list):
                            for st in body:
                                if isinstance(st, ast.Assign) and len(st.targets) == 1 and isinstance(st.targets[0], ast.Name) and st.targets[0].id == r.id and st.lineno < x.lineno:
                                    r = st.value
                                    break
            renamed = isinstance(r, ast.Call) and isinstance(r.func, ast.Attribute) and r.func.attr == "get" and "renames" in norm(r.func.value)
            original = (isinstance(r, ast.Attribute) and r.attr == "name") or (isinstance(r, ast.Name) and any(it["kind"] == "loop" and any(isinstance(t, ast.Name) and t.id == r.id for t in ast.walk(it["target"]))
                                                                                                       and re.search(r"(fields|parameters|model_fields)\b", norm(d.resolve(it["iter"]))) for it in iterations(fn.node)))
            ctx.tri("9-name-space", fn, x, renamed, original and not renamed, f"`{norm(x)[:40]}` uses the renamed parameter name",
                    f"`{norm(x)[:50]}` looks up `{norm(x.value) if isinstance(x, ast.Subscript) else norm(x.comparators[0])}` under the ORIGINAL parameter name `{norm(key)}`; the dict is keyed by renamed names, so after update_renames / update_scope the overridden default is silently lost",
                    f"name space of `{norm(key)}` not recognised", key=f"{fn.name} {norm(x)[:40]}")
    ctx.floor("9-name-space", n, 4)
    # `_output_name` is the ORIGINAL output name, `output_name` the renamed one that the pipeline wires by: apart from the
    # rename itself, validation against the original parameters, type checks and the constructor arguments of copy(),
    # nothing that the pipeline consumes (annotations per output, the default picker) may be keyed by the original names
    pfc = P.cls(f"{PFM}.PipeFunc")
    m = 0
    for mname, fn in pfc.methods.items():
        par_ = {id(c): p_ for p_ in ast.walk(fn.node) for c in ast.iter_child_nodes(p_)}
        for x in [x for x in ast.walk(fn.node) if isinstance(x, ast.Attribute) and x.attr == "_output_name" and isinstance(x.value, ast.Name) and x.value.id == "self" and isinstance(x.ctx, ast.Load)]:
            m += 1
            chain = []
            y: ast.AST = x
            while id(y) in par_ and not isinstance(y, ast.stmt):
                y = par_[id(y)]
                chain.append(y)
            stmt_text = norm(y)
            try:
                resolved_text = " ".join(norm(Defs(fn).resolve(part)) for part in ast.iter_child_nodes(y) if isinstance(part, ast.expr))
            except Exception:  # noqa: BLE001
                resolved_text = stmt_text
            stmt_text = stmt_text + " " + resolved_text
            allowed = (any(isinstance(c, ast.Call) and dotted(c.func).rsplit(".", 1)[-1] in ("_rename_output_name", "isinstance", "type", "_validate_output_name") for c in chain)
                       or "original_parameters" in stmt_text
                       or any(isinstance(c, ast.Dict) and any(isinstance(k, ast.Constant) and k.value == "output_name" and v is x for k, v in zip(c.keys, c.values)) for c in chain)
                       or any(isinstance(c, ast.keyword) and c.arg == "output_name" and isinstance(par_.get(id(c)), ast.Call) and dotted(par_[id(c)].func).rsplit(".", 1)[-1] in ("PipeFunc", "NestedPipeFunc", "cls", "type(self)") for c in chain)
                       or isinstance(y, ast.Raise) or "msg" in stmt_text[:8])
            also_renamed = any(isinstance(z, ast.Attribute) and z.attr == "output_name" and isinstance(z.value, ast.Name) and z.value.id == "self" for z in ast.walk(fn.node))
            ctx.tri("9-name-space", fn, x, allowed, not allowed and also_renamed, f"`self._output_name` in {mname}: original-name context",
                    f"`{norm(y)[:70]}` uses the ORIGINAL output name(s) `self._output_name` in {mname}, which otherwise works with the renamed `self.output_name`: after update_renames / update_scope on the outputs the two differ, "
                    "so annotations are keyed (or tuple elements picked) by names the pipeline does not use", f"`self._output_name` in {mname}: context not recognised", key=f"output-name-space {mname} {norm(y)[:30]}")
    ctx.floor("9-name-space.output", m, 3)
    # one collection of names is drawn from ONE name space: original parameter names go with the original output name
    # (`original_parameters`, `_output_name`), renamed ones with the renamed (`parameters`, `output_name`)
    mixed, n_cat = [], 0
    for fn in P.functions.values():
        if not fn.module.name.startswith(("pipefunc._pipefunc", "pipefunc._pipeline")):
            continue
        for b in walk_no_nested(fn.node):
            if not (isinstance(b, ast.BinOp) and isinstance(b.op, (ast.Add, ast.BitOr))):
                continue
            by_recv: dict[str, set[str]] = {}
            for x in ast.walk(b):
                if isinstance(x, ast.Attribute) and x.attr in ("parameters", "output_name", "original_parameters", "_output_name") and isinstance(x.value, ast.Name):
                    by_recv.setdefault(x.value.id, set()).add(x.attr)
            for recv, at in by_recv.items():
                if len(at) >= 2:
                    n_cat += 1
                    if {"original_parameters", "output_name"} <= at or {"parameters", "_output_name"} <= at:
                        mixed.append((fn, b, recv, at))
    ctx.add("9-name-space", mixed[0][0] if mixed else fs_owner(P), mixed[0][1] if mixed else fs_owner(P).node, not mixed, f"parameter and output names that are collected together come from one name space ({n_cat} collection(s))" if not mixed else
            f"`{norm(mixed[0][1])[:80]}` collects {sorted(mixed[0][3])} of `{mixed[0][2]}`: original parameter names together with the RENAMED output name (or the reverse) - after an output was renamed once, "
            "a rename addressed by its original name no longer reaches the producer while the consumers are renamed: the edge is cut and the consumer silently runs on its default", key="one-name-space")
    ctx.floor("9-name-space.collections", n_cat, 2)
    fs = P.func(f"{PFM}.PipeFunc._flatten_scopes")
    all_its = iterations(fs.node)
    outer_targets = {x.id for it in all_its for x in ast.walk(it["target"]) if isinstance(x, ast.Name)}
    # ... and locals computed from them (`scoped = {...for name, value in v.items()}`): an iteration over those is still one over the scope's entries
    for _ in range(3):
        for a in ast.walk(fs.node):
            if isinstance(a, ast.Assign) and any(isinstance(x, ast.Name) and x.id in outer_targets for x in ast.walk(a.value)):
                outer_targets |= {t.id for t in a.targets if isinstance(t, ast.Name)}
    # the iteration over ONE scope's `{name: value}` dict: its source is a loop variable of the iteration over the keywords
    its = [it for it in all_its if any(isinstance(x, ast.Name) and x.id in outer_targets for x in ast.walk(it["iter"]))]
    def about_entry(text: str, it: dict) -> bool:
        names = {y.id for y in ast.walk(it["target"]) if isinstance(y, ast.Name)}
        return any(re.search(rf"\b{re.escape(nm)}\b", text) for nm in names)

    filt = [it for it in its if [f_ for f_ in it["filters"] if about_entry(f_[0], it)]]
    ctx.tri("9-name-space", fs, filt[0]["node"] if filt else fs.node, bool(its) and not filt, bool(filt), "_flatten_scopes turns every entry of a scope dict into a dotted keyword",
            f"_flatten_scopes drops entries of a scope dict (`if {filt[0]['filters'][0][0][:50] if filt else ''}`): in a scope shared by several functions the arguments of the other functions are lost and silently replaced by defaults", key="flatten-total")


def fs_owner(P):
    return P.func(f"{PFM}.PipeFunc._flatten_scopes")


def check(ctx: Ctx) -> None:
    for rule in (rule_name_space, rule_nested_is_a_pipefunc, rule_scope_inputs_are_root_args, rule_scope_outputs_are_single_names, rule_bound_not_mapped, rule_copy_carries, rule_no_inplace, rule_result_keys, rule_sort_keys, rule_pickle_state, rule_foreign_writes, rule_fresh_objects, rule_details):
        ctx.run(rule)


PF, B, S, C = "pipefunc/_pipefunc.py", "pipefunc/_pipeline/_base.py", "pipefunc/_pipeline/_simplify.py", "pipefunc/_pipeline/_cache.py"
MUTANTS = [
    Mutant("original-params-with-renamed-output", "pipefunc/_pipeline/_base.py", "                else tuple(f.original_parameters) + at_least_tuple(f._output_name),\n", "                else tuple(f.original_parameters) + at_least_tuple(f.output_name),\n", ("C10.9-name-space",), why="round-4 seed C10/10"),
    Mutant("nested-copy-merges-defaults", "pipefunc/_pipefunc.py", "        f.update_defaults(self._defaults, overwrite=True)\n", "        f.update_defaults(self._defaults)\n", ("C10.1-copy-carries",), why="round-4 seed C10/12"),
    Mutant("nested-copy-original-F18", PF, "        f = NestedPipeFunc(**kwargs)  # type: ignore[arg-type]\n        # `defaults` and `bound` are not constructor arguments, so carry them over explicitly\n        f.update_defaults(self._defaults, overwrite=True)\n        f.update_bound(self._bound, overwrite=True)\n        return f\n",
           "        return NestedPipeFunc(**kwargs)  # type: ignore[arg-type]\n", ("C10.1-copy-carries",), why="original F18"),
    Mutant("copy-drops-bound", PF, "            \"bound\": self._bound,\n            \"profile\": self._profile,", "            \"bound\": None,\n            \"profile\": self._profile,", ("C10.1-copy-carries",)),
    Mutant("pipeline-copy-drops-cache-kwargs", B, "            \"cache_kwargs\": self._cache_kwargs,\n", "            \"cache_kwargs\": None,\n", ("C10.1-copy-carries",)),
    Mutant("update-bound-in-place", PF, "            self._bound = dict(self._bound, **bound)\n", "            self._bound.update(bound)\n", ("C10.2-no-inplace",), why="seeded C10/1"),
    Mutant("pydantic-defaults-original-F19a", PF, "    new_defaults = {}  # do not mutate `defaults`, it is shared with copies of the PipeFunc\n", "    new_defaults = defaults\n", ("C10.2-no-inplace",), why="original F19a"),
    Mutant("store-into-defaults", PF, "        self._validate_update(defaults, \"defaults\", self.parameters)\n        if overwrite:\n", "        self._validate_update(defaults, \"defaults\", self.parameters)\n        for _k, _v in defaults.items():\n            self._defaults[_k] = _v\n        if overwrite:\n", ("C10.2-no-inplace",)),
    Mutant("create-cache-original-F19b", C, "    cache_kwargs = {} if cache_kwargs is None else dict(cache_kwargs)\n", "    if cache_kwargs is None:\n        cache_kwargs = {}\n", ("C10.2-no-inplace",), why="original F19b"),
    Mutant("routing-original-F10", B, "    if isinstance(func.output_name, tuple):\n        # Function produces multiple outputs, make each of them available by its own name\n", "    if isinstance(func.output_name, tuple) and not isinstance(output_name, tuple):\n        # Function produces multiple outputs, make each of them available by its own name\n", ("C10.3-result-keys",), why="original F10"),
    Mutant("sort-original-F09", S, "    return sorted(funcs, key=lambda f: at_least_tuple(f.output_name))\n", "    return sorted(funcs, key=lambda f: f.output_name)\n", ("C10.4-sort-keys",), why="original F09"),
    Mutant("setstate-forgets-resources", PF, "        self.resources = cloudpickle.loads(self.resources) if self.resources is not None else None\n", "", ("C10.5-pickle-state",)),
    Mutant("foreign-mapspec-write", B, "        f = self._add(f, mapspec)\n        self._validate()\n        return f\n", "        f = self._add(f, mapspec)\n        self._validate()\n        f.mapspec = f.mapspec\n        return f\n", ("C10.6-foreign-writes",)),
    Mutant("add-axis-no-clear", B, "            add_mapspec_axis(p, dims={}, axis=axis, functions=self.sorted_functions)\n        self._clear_internal_cache()\n", "            add_mapspec_axis(p, dims={}, axis=axis, functions=self.sorted_functions)\n", ("C10.6-foreign-writes",)),
    Mutant("add-without-copy", B, "            f: PipeFunc = f.copy(  # type: ignore[no-redef]\n                resources=resources,\n                mapspec=f.mapspec if mapspec is None else _maybe_mapspec(mapspec),\n            )\n", "            f.resources = resources\n", ("C10.7-fresh-objects",)),
    Mutant("scope-prefix-no-dot", PF, "    if name.startswith(f\"{scope}.\"):\n", "    if name.startswith(scope):\n", ("C10.8-details",), why="seeded C10/3"),
    Mutant("simplify-later-groups-only", S, "        p for j, fs in enumerate(nested_funcs) if j != i for f in fs for p in f.parameters\n", "        p for fs in nested_funcs[i + 1 :] for f in fs for p in f.parameters\n", ("C10.8-details",), why="seeded C10/2"),
    Mutant("twin-copy-comment", PF, "        assert_complete_kwargs(kwargs, PipeFunc, skip={\"self\", \"scope\"})\n", "        assert_complete_kwargs(kwargs, PipeFunc, skip={\"self\", \"scope\"})  # runtime counterpart\n", twin=True),
]
