"""C10 - structural rewrites preserve what a pipeline computes (structural clauses).

  1 copy-carries   every field a public mutator can change is forwarded (or re-applied) by the class's copy()
  2 no-inplace     dicts that copies share by reference (_renames, _defaults, _bound, cache_kwargs) are never mutated in
                   place, neither directly nor by a helper they are passed to
  3 result-keys    the writer of the per-call results provides every single output name (reader: NestedPipeFunc wrapper)
  4 sort-keys      ordering of output names (str | tuple[str, ...]) always goes through at_least_tuple / _sort_key
  5 pickle-state   every attribute transformed or dropped by __getstate__ is restored by __setstate__
  6 foreign-writes MapSpec writes from outside a PipeFunc happen only where the pipeline invalidates afterwards or before
                   any MapSpec-dependent cached property can have been read
  7 fresh-objects  functions enter a pipeline only as copies (Pipeline.add), and every rewrite builds through it
  8 details        scope prefixes are matched with their dot; simplified_pipeline keeps outputs needed by ANY other group
"""

from __future__ import annotations

import ast

from ..cfg import EXIT
from ..loader import AnalysisError, FuncInfo, dotted, norm, walk_no_nested
from ..report import Ctx
from ..selftest import Mutant

PROP = "C10"
PFM = "pipefunc._pipefunc"
BASE = "pipefunc._pipeline._base"
EXPLANATION = (
    "Static analysis of the rewrite machinery: mutator-written fields versus what copy() forwards, an alias/mutation scan "
    "for the dicts copies share by reference (direct stores and parameter-mutating callees), annotation-typed detection of "
    "raw str|tuple sort keys, symmetry of __getstate__/__setstate__, a who-writes scan for foreign MapSpec assignments with "
    "their invalidation context, and who-appends-functions."
)
TRUSTED = ["CPython ast parser", "annotation-driven types (OUTPUT_TYPE = str | tuple[str, ...])", "call graph resolution"]
DECLINED = [
    "value equality of rewritten and original pipelines; the pointwise-lifting law of add_mapspec_axis (value-level)",
    "correctness of _identify_combinable_nodes / _combine_nodes",
]

SHARED = ("_renames", "_defaults", "_bound")
MUTATING = {"update", "setdefault", "pop", "popitem", "clear", "__setitem__", "__delitem__"}
STATE = ("_defaults", "_bound", "_renames", "mapspec")


def _param_mutations(fn: FuncInfo) -> dict[str, ast.AST]:
    """Parameters of `fn` that its body mutates in place (subscript store / del / mutating method)."""
    out: dict[str, ast.AST] = {}
    params = set(fn.param_names())
    # a parameter only stops aliasing the caller's object when it is rebound unconditionally (top-level statement)
    rebound = {t.id for s in fn.node.body if isinstance(s, ast.Assign) and not isinstance(s.value, ast.Name) for t in s.targets if isinstance(t, ast.Name)}
    # locals that are plain aliases of a parameter
    for s in walk_no_nested(fn.node):
        if isinstance(s, ast.Assign) and isinstance(s.value, ast.Name) and s.value.id in params and s.value.id not in rebound:
            for t in s.targets:
                if isinstance(t, ast.Name) and t.id not in params:
                    params = params | {t.id}
    for n in walk_no_nested(fn.node):
        tg: list[ast.AST] = []
        if isinstance(n, ast.Assign):
            tg = n.targets
        elif isinstance(n, (ast.AugAssign,)):
            tg = [n.target]
        elif isinstance(n, ast.Delete):
            tg = n.targets
        for t in tg:
            if isinstance(t, ast.Subscript) and isinstance(t.value, ast.Name) and t.value.id in params and t.value.id not in rebound:
                out.setdefault(t.value.id, n)
        if isinstance(n, ast.Call) and isinstance(n.func, ast.Attribute) and n.func.attr in MUTATING and isinstance(n.func.value, ast.Name) and n.func.value.id in params and n.func.value.id not in rebound:
            out.setdefault(n.func.value.id, n)
    return out


def check(ctx: Ctx) -> None:  # noqa: C901, PLR0912, PLR0915
    P, cg = ctx.prog, ctx.cg
    pf, npf, pl = P.cls(f"{PFM}.PipeFunc"), P.cls(f"{PFM}.NestedPipeFunc"), P.cls(f"{BASE}.Pipeline")

    # ------------------------------------------------------------ 1 copy-carries
    for cls in (pf, npf):
        cp = cls.methods["copy"]
        src = norm(cp.node)
        for fld in STATE:
            ok = f"self.{fld}" in src
            ctx.add("1-copy-carries", cp, cp.node, ok, f"copy() carries `{fld}`" if ok else f"{cls.name}.copy() drops `{fld}` (set through update_*): adding the function to a pipeline copies it and loses that configuration", key=f"{cls.name}.{fld}")
    cp = pf.methods["copy"]
    init_params = [p for p in pf.methods["__init__"].param_names() if p not in ("self", "scope")]
    d = next((x for x in ast.walk(cp.node) if isinstance(x, ast.Dict)), None)
    keys = [k.value for k in d.keys if isinstance(k, ast.Constant)] if d else []
    ok = set(keys) == set(init_params)
    ctx.add("1-copy-carries", cp, d if d is not None else cp.node, ok, f"every constructor argument ({len(init_params)}) is forwarded" if ok else f"PipeFunc.copy forwards {sorted(set(keys) ^ set(init_params))} differently from __init__", key="PipeFunc.ctor-args")
    vals = {k.value: norm(v) for k, v in zip(d.keys, d.values) if isinstance(k, ast.Constant)} if d else {}
    want = {"func": "self.func", "output_name": "self._output_name", "output_picker": "self._output_picker", "renames": "self._renames", "defaults": "self._defaults", "bound": "self._bound",
            "mapspec": "self.mapspec", "internal_shape": "self.internal_shape", "resources": "self.resources", "cache": "self.cache"}
    bad = {k: vals.get(k) for k, v in want.items() if vals.get(k) != v}
    ctx.add("1-copy-carries", cp, cp.node, not bad, "each argument is taken from the matching attribute" if not bad else f"copy() wires {bad}", key="PipeFunc.wiring")
    ok = "kwargs.update(update)" in norm(cp.node) and "return PipeFunc(**kwargs)" in norm(cp.node)
    ctx.add("1-copy-carries", cp, cp.node, ok, "overrides are applied, then the constructor (and its validation) runs" if ok else "PipeFunc.copy no longer rebuilds through the constructor", key="PipeFunc.rebuild")
    pcp = pl.methods["copy"]
    d = next((x for x in ast.walk(pcp.node) if isinstance(x, ast.Dict)), None)
    vals = {k.value: norm(v) for k, v in zip(d.keys, d.values) if isinstance(k, ast.Constant)} if d else {}
    want = {"functions": "self.functions", "lazy": "self.lazy", "debug": "self._debug", "profile": "self._profile", "cache_type": "self._cache_type", "cache_kwargs": "self._cache_kwargs",
            "default_resources": "self._default_resources", "validate_type_annotations": "self.validate_type_annotations"}
    init_params = [p for p in pl.methods["__init__"].param_names() if p not in ("self", "scope")]
    ok = vals == want and set(vals) == set(init_params)
    ctx.add("1-copy-carries", pcp, pcp.node, ok, "Pipeline.copy forwards every constructor argument from its attribute" if ok else f"Pipeline.copy wiring differs: {sorted(set(vals.items()) ^ set(want.items()))[:3]}", key="Pipeline.wiring")
    ncp = npf.methods["copy"]
    src = norm(ncp.node)
    ok = "'pipefuncs': self.pipeline.functions" in src and "'mapspec': self.mapspec" in src and "'renames': self._renames" in src and "'resources': self.resources" in src and "'output_name': self._output_name" in src
    ctx.add("1-copy-carries", ncp, ncp.node, ok, "NestedPipeFunc.copy forwards functions, output name, renames, mapspec, resources" if ok else "NestedPipeFunc.copy constructor arguments changed", key="Nested.ctor-args")
    ok = "update_defaults(self._defaults, overwrite=True)" in src and "update_bound(self._bound, overwrite=True)" in src
    ctx.add("1-copy-carries", ncp, ncp.node, ok, "defaults and bound are re-applied on the copy (they are not constructor arguments)" if ok else "NestedPipeFunc.copy does not re-apply defaults / bound", key="Nested.reapply")

    # ------------------------------------------------------------ 2 no-inplace
    n2 = 0
    for fn in P.functions.values():
        if not fn.module.name.startswith(("pipefunc._pipefunc", "pipefunc._pipeline", "pipefunc.map", "pipefunc._utils")):
            continue
        for n in walk_no_nested(fn.node):
            tg: list[ast.AST] = []
            if isinstance(n, ast.Assign):
                tg = n.targets
            elif isinstance(n, ast.AugAssign):
                tg = [n.target]
            elif isinstance(n, ast.Delete):
                tg = n.targets
            for t in tg:
                if isinstance(t, ast.Subscript) and isinstance(t.value, ast.Attribute) and t.value.attr in SHARED:
                    n2 += 1
                    ctx.add("2-no-inplace", fn, n, False, f"`{norm(n)[:70]}` writes into `{t.value.attr}`, a dict that every copy of the function shares by reference: the change leaks into the original and all other copies")
            if isinstance(n, ast.AugAssign) and isinstance(n.target, ast.Attribute) and n.target.attr in SHARED and isinstance(n.op, ast.BitOr):
                n2 += 1
                ctx.add("2-no-inplace", fn, n, False, f"`{norm(n)[:70]}` updates the shared dict `{n.target.attr}` in place")
            if isinstance(n, ast.Call) and isinstance(n.func, ast.Attribute) and n.func.attr in MUTATING and isinstance(n.func.value, ast.Attribute) and n.func.value.attr in SHARED:
                n2 += 1
                ctx.add("2-no-inplace", fn, n, False, f"`{norm(n)[:70]}` mutates `{n.func.value.attr}` in place; copies share that dict by reference (copy() forwards it as is), so the original function/pipeline changes too")
            if isinstance(n, ast.Call):
                # passing a shared dict to a callee that mutates the parameter
                for i, a in enumerate(n.args):
                    if isinstance(a, ast.Attribute) and a.attr in (*SHARED, "_cache_kwargs"):
                        for callee in cg.resolve_callable(fn, n.func):
                            ps = [p for p in callee.param_names() if p not in ("self", "cls")]
                            if i < len(ps) and ps[i] in _param_mutations(callee):
                                n2 += 1
                                ctx.add("2-no-inplace", fn, n, False, f"`{norm(a)}` is passed to {callee.name}, which mutates its parameter `{ps[i]}` in place: the dict is shared by reference with copies")
    ctx.add("2-no-inplace", "pipefunc", "", True, f"scanned the package for in-place writes to {SHARED} ({n2} found)", key="scan")
    for q, arg in ((f"{PFM}._pydantic_defaults", "defaults"), ("pipefunc._pipeline._cache.create_cache", "cache_kwargs")):
        f = P.func(q)
        m = _param_mutations(f)
        aliases = {t.id for s_ in walk_no_nested(f.node) if isinstance(s_, ast.Assign) and isinstance(s_.value, ast.Name) and s_.value.id == arg for t in s_.targets if isinstance(t, ast.Name)}
        hit = [k for k in (arg, *aliases) if k in m]
        ok = not hit
        ctx.add("2-no-inplace", f, m.get(hit[0], f.node) if hit else f.node, ok, f"{f.name} does not mutate its `{arg}` argument" if ok else f"{f.name} mutates the `{arg}` dict it is given (the caller's / the shared one)", key=f"param {f.name}.{arg}")
    for meth in ("update_defaults", "update_bound", "update_renames"):
        f = pf.methods[meth]
        asg = [s for s in walk_no_nested(f.node) if isinstance(s, ast.Assign) and isinstance(s.targets[0], ast.Attribute) and s.targets[0].attr in SHARED]
        ok = bool(asg) and all(norm(s.value).startswith(("dict(", "{")) or norm(s.value).endswith(".copy()") or isinstance(s.value, ast.Name) for s in asg)
        ctx.add("2-no-inplace", f, asg[0] if asg else f.node, ok, f"{meth} rebinds the dict to a fresh one" if ok else f"{meth} does not rebind to a fresh dict", key=f"rebind {meth}")

    # ------------------------------------------------------------ 3 result-keys (writer side; the reader is checked in C02.3)
    ur = P.func(f"{BASE}._update_all_results")
    top = [s for s in ur.node.body if isinstance(s, ast.If)]
    ok = bool(top) and norm(top[0].test) == "isinstance(func.output_name, tuple)" and any(isinstance(s, ast.For) and norm(s.iter) == "func.output_name" for s in top[0].body)
    ctx.add("3-result-keys", ur, top[0] if top else ur.node, ok, "every single name of a tuple output is written" if ok else "single names are written only for single-name requests: nested pipelines with a multi-output leaf fail", key="all-names")

    # ------------------------------------------------------------ 4 sort-keys
    n4 = 0
    for fn in P.functions.values():
        if not fn.module.name.startswith(("pipefunc._pipeline", "pipefunc._pipefunc", "pipefunc.sweep", "pipefunc.map._prepare")):
            continue
        for c in [c for c in walk_no_nested(fn.node) if isinstance(c, ast.Call) and (dotted(c.func) in ("sorted", "min", "max") or (isinstance(c.func, ast.Attribute) and c.func.attr == "sort"))]:
            key = next((k.value for k in c.keywords if k.arg == "key"), None)
            if key is None or not isinstance(key, ast.Lambda):
                continue
            body = key.body
            if not (isinstance(body, ast.Attribute) and body.attr == "output_name"):
                if not any(isinstance(x, ast.Attribute) and x.attr == "output_name" for x in ast.walk(body)):
                    continue
            n4 += 1
            raw = isinstance(body, ast.Attribute) and body.attr == "output_name"
            ctx.add("4-sort-keys", fn, c, not raw, "output names are normalised (at_least_tuple / join) before ordering" if not raw else
                    "functions are ordered by raw `output_name` (str | tuple[str, ...]): mixing single- and multi-output functions raises TypeError", key=f"sort in {fn.name}")
    ctx.floor("4-sort-keys", n4, 1)
    tg = P.func(f"{BASE}._traverse_graph")
    ok = "sorted(_traverse(start), key=at_least_tuple)" in norm(tg.node)
    ctx.add("4-sort-keys", tg, tg.node, ok, "dependency listings are ordered by at_least_tuple" if ok else "_traverse_graph orders raw output names", key="traverse")
    ot = ctx.typer.attr_type(f"{PFM}.PipeFunc", "output_name")
    ok = {"str", "tuple"} <= ot.scalars()
    ctx.add("4-sort-keys", f"{PFM}.PipeFunc.output_name", "", ok, f"declared type of output_name is {ot}" if ok else f"output_name is no longer declared str | tuple ({ot}); the sort-key rule's premise changed", key="premise")

    # ------------------------------------------------------------ 5 pickle-state
    gs, ss = pf.methods["__getstate__"], pf.methods["__setstate__"]
    excluded = set()
    for c in ast.walk(gs.node):
        if isinstance(c, ast.Compare) and isinstance(c.ops[0], ast.NotIn) and isinstance(c.comparators[0], ast.Tuple):
            excluded |= {e.value for e in c.comparators[0].elts if isinstance(e, ast.Constant)}
    stored = {t.slice.value for s in walk_no_nested(gs.node) if isinstance(s, ast.Assign) for t in s.targets if isinstance(t, ast.Subscript) and norm(t.value) == "state" and isinstance(t.slice, ast.Constant)}
    restored = {t.attr for s in walk_no_nested(ss.node) if isinstance(s, ast.Assign) for t in s.targets if isinstance(t, ast.Attribute) and norm(t.value) == "self"}
    ok = bool(excluded) and excluded <= restored and stored <= restored and "self.__dict__.update(state)" in norm(ss.node)
    ctx.add("5-pickle-state", ss, ss.node, ok, f"{sorted(excluded)} are dropped/encoded by __getstate__ and restored by __setstate__" if ok else f"__getstate__ drops/encodes {sorted(excluded | stored)} but __setstate__ restores only {sorted(restored)}", key="PipeFunc")
    enc = {k: norm(v) for s in walk_no_nested(gs.node) if isinstance(s, ast.Assign) for t in s.targets if isinstance(t, ast.Subscript) and isinstance(t.slice, ast.Constant) for k, v in [(t.slice.value, s.value)]}
    dec = {t.attr: norm(s.value) for s in walk_no_nested(ss.node) if isinstance(s, ast.Assign) for t in s.targets if isinstance(t, ast.Attribute)}
    ok = all("cloudpickle.dumps" in enc.get(k, "") and "cloudpickle.loads" in dec.get(k, "") for k in ("func", "resources"))
    ctx.add("5-pickle-state", gs, gs.node, ok, "func and resources: dumps on the way out, loads on the way in" if ok else "encode/decode of func/resources is not a dumps/loads pair", key="PipeFunc.codec")
    paf = P.cls(f"{BASE}._PipelineAsFunc")
    g2, s2 = paf.methods["__getstate__"], paf.methods["__setstate__"]
    ok = "for slot in self.__slots__" in norm(g2.node) and "for slot in self.__slots__" in norm(s2.node) and "setattr(self, slot, state[slot])" in norm(s2.node)
    ctx.add("5-pickle-state", s2, s2.node, ok, "_PipelineAsFunc saves and restores every slot" if ok else "_PipelineAsFunc state handling is asymmetric", key="PipelineAsFunc")

    # ------------------------------------------------------------ 6 foreign-writes
    ALLOWED = {
        "pipefunc._pipeline._mapspec.add_mapspec_axis": "called from Pipeline.add_mapspec_axis, which clears and re-validates afterwards (checked below)",
        "pipefunc._pipeline._mapspec.create_missing_mapspecs": "runs inside Pipeline._validate right after _clear_internal_cache; _autogen_mapspec_axes reads no MapSpec-dependent cached property (checked below)",
        f"{PFM}.NestedPipeFunc.__init__": "the children are private copies made in this constructor",
        f"{PFM}.PipeFunc.__init__": "construction",
        f"{PFM}.PipeFunc.update_renames": "own state, followed by _clear_internal_cache (C02.6)",
    }
    n6 = 0
    for fn in P.functions.values():
        for s in walk_no_nested(fn.node):
            if isinstance(s, ast.Assign) and any(isinstance(t, ast.Attribute) and t.attr == "mapspec" for t in s.targets):
                n6 += 1
                ok = fn.qualname in ALLOWED
                ctx.add("6-foreign-writes", fn, s, ok, f"MapSpec write: {ALLOWED.get(fn.qualname)}" if ok else f"`{norm(s)[:60]}` writes a function's MapSpec from a place where cached pipeline views are not invalidated", key=f"writer {fn.qualname.rsplit('.', 1)[-1]}")
    ctx.floor("6-foreign-writes", n6, 4)
    am = pl.methods["add_mapspec_axis"]
    cfg = ctx.cfg(am)
    w = cfg.nodes(lambda s: any(isinstance(c, ast.Call) and dotted(c.func) == "add_mapspec_axis" for c in ast.walk(s)))
    clears = set(cfg.nodes(lambda s: isinstance(s, ast.Expr) and isinstance(s.value, ast.Call) and norm(s.value.func) == "self._clear_internal_cache"))
    vals = set(cfg.nodes(lambda s: isinstance(s, ast.Expr) and isinstance(s.value, ast.Call) and norm(s.value.func) == "self._validate"))
    ok = bool(w) and bool(clears) and bool(vals) and all(cfg.must_pass(x, EXIT, clears, normal_only=True) and cfg.must_pass(x, EXIT, vals, normal_only=True) for x in w)
    ctx.add("6-foreign-writes", am, am.node, ok, "Pipeline.add_mapspec_axis clears the cached views and re-validates after rewriting MapSpecs" if ok else "Pipeline.add_mapspec_axis does not invalidate / re-validate after rewriting MapSpecs", key="add-axis-clears")
    ok = "functions=self.sorted_functions" in norm(am.node)
    ctx.add("6-foreign-writes", am, am.node, ok, "the new axis is propagated along the topological order" if ok else "add_mapspec_axis no longer walks the functions in topological order", key="add-axis-order")
    MAPSPEC_DEPENDENT = {"mapspec_names", "mapspecs_as_strings", "mapspec_dimensions", "mapspec_axes"}
    au = pl.methods["_autogen_mapspec_axes"]
    reads = {a.attr for a in ast.walk(au.node) if isinstance(a, ast.Attribute) and norm(a.value) == "self"}
    ok = not (reads & MAPSPEC_DEPENDENT)
    ctx.add("6-foreign-writes", au, au.node, ok, "no MapSpec-dependent cached property is read before MapSpecs are generated" if ok else f"_autogen_mapspec_axes reads {sorted(reads & MAPSPEC_DEPENDENT)} (cached) before it writes MapSpecs: stale afterwards", key="autogen-reads")
    ad = pl.methods["add"]
    cfg = ctx.cfg(ad)
    app = cfg.nodes(lambda s: isinstance(s, ast.Expr) and isinstance(s.value, ast.Call) and norm(s.value.func) == "self.functions.append")
    clears = set(cfg.nodes(lambda s: isinstance(s, ast.Expr) and isinstance(s.value, ast.Call) and norm(s.value.func) == "self._clear_internal_cache"))
    vals = cfg.nodes(lambda s: isinstance(s, ast.Expr) and isinstance(s.value, ast.Call) and norm(s.value.func) == "self._validate")
    ok = bool(app) and bool(clears) and bool(vals) and all(cfg.dominates(c, v) for c in clears for v in vals) and all(cfg.dominates(a, c) for a in app for c in clears)
    ctx.add("6-foreign-writes", ad, ad.node, ok, "add: append, clear the cached views, then validate (which may generate MapSpecs)" if ok else "Pipeline.add no longer clears before validating", key="add-order")

    # ------------------------------------------------------------ 7 fresh-objects
    appenders = sorted({fn.qualname for fn in P.functions.values() for c in walk_no_nested(fn.node) if isinstance(c, ast.Call) and isinstance(c.func, ast.Attribute) and c.func.attr in ("append", "extend", "insert") and norm(c.func.value).endswith(".functions")})
    ok = appenders == [f"{BASE}.Pipeline.add"]
    ctx.add("7-fresh-objects", f"{BASE}.Pipeline.functions", "", ok, "functions are appended only in Pipeline.add" if ok else f"functions are appended in {appenders}", key="appenders")
    src = norm(ad.node)
    ok = "f: PipeFunc = f.copy(" in src and "self.functions.append(f)" in src and "f._pipelines.add(self)" in src
    ctx.add("7-fresh-objects", ad, ad.node, ok, "add() appends a copy and registers the pipeline on it" if ok else "Pipeline.add appends the caller's object (no copy) or does not register itself", key="add-copies")
    jn = pl.methods["join"]
    ok = "f.copy(resources=f.resources)" in norm(jn.node) and "pipeline.copy()" in norm(jn.node) and "return self.copy(functions=functions, default_resources=None)" in norm(jn.node)
    ctx.add("7-fresh-objects", jn, jn.node, ok, "join builds a new pipeline from copies" if ok else "Pipeline.join changed", key="join")
    sd = pl.methods["split_disconnected"]
    ok = "x.copy() for x in xs if isinstance(x, PipeFunc)" in norm(sd.node) and "Pipeline(pfs, **pipeline_kwargs)" in norm(sd.node)
    ctx.add("7-fresh-objects", sd, sd.node, ok, "split_disconnected builds new pipelines from copies" if ok else "split_disconnected changed", key="split")
    nf = pl.methods["nest_funcs"]
    ok = "self.drop(f=f)" in norm(nf.node) and "NestedPipeFunc(funcs, output_name=new_output_name)" in norm(nf.node) and "self.add(nested_func)" in norm(nf.node)
    ctx.add("7-fresh-objects", nf, nf.node, ok, "nest_funcs drops the functions and adds one NestedPipeFunc of them" if ok else "nest_funcs changed", key="nest")
    ni = npf.methods["__init__"]
    ok = "functions = [f.copy(resources=self.resources) for f in pipefuncs]" in norm(ni.node) and "self.pipeline = Pipeline(functions)" in norm(ni.node)
    ctx.add("7-fresh-objects", ni, ni.node, ok, "a NestedPipeFunc owns copies of its functions" if ok else "NestedPipeFunc shares its functions with the caller", key="nested-copies")

    # ------------------------------------------------------------ 8 details
    pn = P.func(f"{PFM}._prepend_name_with_scope")
    tests = [norm(s.test) for s in pn.node.body if isinstance(s, ast.If)]
    ok = "name.startswith(f'{scope}.')" in tests
    ctx.add("8-details", pn, pn.node, ok, "a name counts as scoped only if it starts with `scope.` (with the dot)" if ok else "the already-scoped test lost its dot: names that merely start with the scope text (x0 under scope x) stay unscoped", key="scope-dot")
    on = P.func("pipefunc._pipeline._simplify._output_name")
    oi = [s for s in walk_no_nested(on.node) if isinstance(s, ast.Assign) and norm(s.targets[0]) == "other_inputs"]
    ok = bool(oi) and "for j, fs in enumerate(nested_funcs) if j != i" in norm(oi[0].value) and "| all_inputs" in norm(oi[0].value)
    ctx.add("8-details", on, oi[0] if oi else on.node, ok, "a nested group exposes every output that ANY other group or remaining function needs" if ok else "only some of the other groups are considered when deciding which intermediate outputs to expose", key="simplify-outputs")
    us = pf.methods["update_scope"]
    ok = "renames = {name: _prepend_name_with_scope(name, scope) for name in all_parameters}" in norm(us.node) and "self.update_renames(renames, update_from='current')" in norm(us.node)
    ctx.add("8-details", us, us.node, ok, "update_scope is a rename of exactly the selected names" if ok else "update_scope changed", key="scope-is-rename")


PF, B, S, C = "pipefunc/_pipefunc.py", "pipefunc/_pipeline/_base.py", "pipefunc/_pipeline/_simplify.py", "pipefunc/_pipeline/_cache.py"
MUTANTS = [
    Mutant("nested-copy-original-F18", PF, "        f = NestedPipeFunc(**kwargs)  # type: ignore[arg-type]\n        # `defaults` and `bound` are not constructor arguments, so carry them over explicitly\n        f.update_defaults(self._defaults, overwrite=True)\n        f.update_bound(self._bound, overwrite=True)\n        return f\n",
           "        return NestedPipeFunc(**kwargs)  # type: ignore[arg-type]\n", ("C10.1-copy-carries",), why="original F18"),
    Mutant("copy-drops-bound", PF, "            \"bound\": self._bound,\n            \"profile\": self._profile,", "            \"bound\": None,\n            \"profile\": self._profile,", ("C10.1-copy-carries",)),
    Mutant("pipeline-copy-drops-cache-kwargs", B, "            \"cache_kwargs\": self._cache_kwargs,\n", "            \"cache_kwargs\": None,\n", ("C10.1-copy-carries",)),
    Mutant("update-bound-in-place", PF, "            self._bound = dict(self._bound, **bound)\n", "            self._bound.update(bound)\n", ("C10.2-no-inplace",), why="seeded C10/1"),
    Mutant("pydantic-defaults-original-F19a", PF, "    new_defaults = {}  # do not mutate `defaults`, it is shared with copies of the PipeFunc\n", "    new_defaults = defaults\n", ("C10.2-no-inplace",), why="original F19a"),
    Mutant("store-into-defaults", PF, "        self._validate_update(defaults, \"defaults\", self.parameters)\n        if overwrite:\n", "        self._validate_update(defaults, \"defaults\", self.parameters)\n        for _k, _v in defaults.items():\n            self._defaults[_k] = _v\n        if overwrite:\n", ("C10.2-no-inplace",)),
    Mutant("create-cache-original-F19b", C, "    cache_kwargs = {} if cache_kwargs is None else dict(cache_kwargs)\n", "    if cache_kwargs is None:\n        cache_kwargs = {}\n", ("C10.2-no-inplace",), why="original F19b"),
    Mutant("routing-original-F10", B, "    if isinstance(func.output_name, tuple):\n        # Function produces multiple outputs, make each of them available by its own name\n", "    if isinstance(func.output_name, tuple) and not isinstance(output_name, tuple):\n        # Function produces multiple outputs, make each of them available by its own name\n", ("C10.3-result-keys",), why="original F10"),
    Mutant("sort-original-F09", S, "    return sorted(funcs, key=lambda f: at_least_tuple(f.output_name))\n", "    return sorted(funcs, key=lambda f: f.output_name)\n", ("C10.4-sort-keys",), why="original F09"),
    Mutant("setstate-forgets-resources", PF, "        self.resources = cloudpickle.loads(self.resources) if self.resources is not None else None\n", "", ("C10.5-pickle-state",)),
    Mutant("foreign-mapspec-write", B, "        self._clear_internal_cache()  # reset cache\n        self._validate()\n        return f\n", "        self._clear_internal_cache()  # reset cache\n        self._validate()\n        f.mapspec = f.mapspec\n        return f\n", ("C10.6-foreign-writes",)),
    Mutant("add-axis-no-clear", B, "            add_mapspec_axis(p, dims={}, axis=axis, functions=self.sorted_functions)\n        self._clear_internal_cache()\n", "            add_mapspec_axis(p, dims={}, axis=axis, functions=self.sorted_functions)\n", ("C10.6-foreign-writes",)),
    Mutant("add-without-copy", B, "            f: PipeFunc = f.copy(  # type: ignore[no-redef]\n                resources=resources,\n                mapspec=f.mapspec if mapspec is None else _maybe_mapspec(mapspec),\n            )\n", "            f.resources = resources\n", ("C10.7-fresh-objects",)),
    Mutant("scope-prefix-no-dot", PF, "    if name.startswith(f\"{scope}.\"):\n", "    if name.startswith(scope):\n", ("C10.8-details",), why="seeded C10/3"),
    Mutant("simplify-later-groups-only", S, "        p for j, fs in enumerate(nested_funcs) if j != i for f in fs for p in f.parameters\n", "        p for fs in nested_funcs[i + 1 :] for f in fs for p in f.parameters\n", ("C10.8-details",), why="seeded C10/2"),
    Mutant("twin-copy-comment", PF, "        assert_complete_kwargs(kwargs, PipeFunc, skip={\"self\", \"scope\"})\n", "        assert_complete_kwargs(kwargs, PipeFunc, skip={\"self\", \"scope\"})  # runtime counterpart\n", twin=True),
]
