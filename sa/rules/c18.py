"""C18 - lazy pipelines evaluate to the eager result, at most once per node (structural clauses).

  1 deferred   on the lazy arm of _execute_func / _update_all_results nothing user-supplied is called
  2 memo       _LazyFunction.evaluate: the call is dominated by the `_evaluated` early return, its arguments come
               from evaluate_lazy, and `_result`/`_evaluated` are stored after the call on every path to the return
  3 shared     per-name lazy outputs of one tuple-output function wrap the same deferred result
  4 recursion  evaluate_lazy recurses into dict/tuple/list/set; PipeFunc.__call__ resolves lazy args before the call
  5 dag        construct_dag: an edge producer -> consumer for every lazy argument (args and kwargs, one level of
               containers), ids assigned increasingly, global reset in `finally`
"""

from __future__ import annotations

import ast

from ..cfg import ENTRY, EXIT
from ..loader import AnalysisError, dotted, norm, walk_no_nested
from ..report import Ctx
from ..selftest import Mutant

PROP = "C18"
EXPLANATION = (
    "Static analysis of pipefunc/lazy.py and of the lazy arms in _pipeline/_base.py and _pipefunc.py: CFG dominance and "
    "must-pass-through queries for the memoisation typestate of _LazyFunction.evaluate, def-use of the call arguments, "
    "branch inspection of the lazy arms, and pattern rules for container recursion and task-graph edge registration."
)
TRUSTED = ["CPython ast parser", "networkx DiGraph.add_edge semantics"]
DECLINED = ["equality of evaluate() and the eager value (value-level)", "acyclicity for graphs built outside construct_dag"]

LZ = "pipefunc.lazy"


def check(ctx: Ctx) -> None:  # noqa: C901, PLR0915
    P = ctx.prog
    # ------------------------------------------------------------ 1 deferred
    ef = P.func("pipefunc._pipeline._base._execute_func")
    cfg = ctx.cfg(ef)
    lazy_ifs = cfg.nodes(lambda s: isinstance(s, ast.If) and norm(s.test) == "lazy")
    calls = cfg.nodes(lambda s: isinstance(s, ast.Return) and s.value is not None and norm(s.value).startswith("func("))
    if not lazy_ifs or not calls:
        raise AnalysisError("_execute_func: lazy test or eager call not found")
    lazy_if = cfg.stmt[lazy_ifs[0]]
    ok = isinstance(lazy_if.body[-1], ast.Return) and "_LazyFunction(func, kwargs=func_args)" in norm(lazy_if.body[-1]) and all(cfg.dominates(lazy_ifs[0], c) for c in calls) \
        and not any(isinstance(c, ast.Call) and norm(c.func) == "func" for st in lazy_if.body for c in ast.walk(st))
    ctx.add("1-deferred", ef, lazy_if, ok, "lazy: returns _LazyFunction(func, kwargs=func_args) before any call" if ok else "the lazy arm of _execute_func runs the function (or no longer defers it)", key="execute-func")
    ur = P.func("pipefunc._pipeline._base._update_all_results")
    pick = [c for c in ast.walk(ur.node) if isinstance(c, ast.Call) and norm(c.func) == "func.output_picker"]
    par = {id(c): p for p in ast.walk(ur.node) for c in ast.iter_child_nodes(p)}
    ok = bool(pick)
    for c in pick:
        x: ast.AST = c
        guarded = False
        while id(x) in par:
            child, x = x, par[id(x)]
            if isinstance(x, ast.IfExp) and norm(x.test) == "lazy" and child is x.orelse:
                guarded = True
            if isinstance(x, ast.If) and norm(x.test) in ("lazy",) and child in x.orelse:
                guarded = True
            if isinstance(x, ast.If) and norm(x.test) in ("not lazy",) and child in x.body:
                guarded = True
        ok &= guarded
    ctx.add("1-deferred", ur, pick[0] if pick else ur.node, ok, "output_picker is only called on the eager arm" if ok else "output_picker is called while lazy: the producer is forced before evaluate()", key="picker-eager-only")
    lz_arm = [c for c in ast.walk(ur.node) if isinstance(c, ast.Call) and dotted(c.func) == "_LazyFunction"]
    ok = bool(lz_arm) and norm(lz_arm[0]) == "_LazyFunction(func.output_picker, args=(r, name))"
    ctx.add("3-shared", ur, lz_arm[0] if lz_arm else ur.node, ok, "each name defers picker(r, name) on the SAME deferred result r" if ok else "per-name lazy outputs no longer share the one deferred result `r`", key="shared-r")

    # ------------------------------------------------------------ 2 memo
    ev = P.func(f"{LZ}._LazyFunction.evaluate")
    cfg = ctx.cfg(ev)
    call_nodes = cfg.nodes(lambda s: any(isinstance(c, ast.Call) and norm(c.func) == "self.func" for c in ast.walk(s)) and not isinstance(s, (ast.If, ast.For, ast.While)))
    if len(call_nodes) != 1:
        raise AnalysisError(f"_LazyFunction.evaluate: expected one call of self.func, found {len(call_nodes)}")
    cn = call_nodes[0]
    guards = cfg.nodes(lambda s: isinstance(s, ast.If) and norm(s.test) == "self._evaluated")
    g_ok = bool(guards) and isinstance(cfg.stmt[guards[0]].body[-1], ast.Return) and norm(cfg.stmt[guards[0]].body[-1].value) == "self._result" and cfg.dominates(guards[0], cn)
    ctx.add("2-memo", ev, cfg.stmt[guards[0]] if guards else ev.node, g_ok, "already evaluated -> return the stored result, before the call" if g_ok else "evaluate() calls the function again although it was evaluated", key="early-return")
    set_flag = set(cfg.nodes(lambda s: isinstance(s, ast.Assign) and norm(s.targets[0]) == "self._evaluated" and norm(s.value) == "True"))
    set_res = set(cfg.nodes(lambda s: isinstance(s, ast.Assign) and norm(s.targets[0]) == "self._result"))
    ok = bool(set_flag) and cfg.must_pass(cn, EXIT, set_flag, normal_only=True) and all(cfg.dominates(cn, f) for f in set_flag)
    ctx.add("2-memo", ev, cfg.stmt[min(set_flag)] if set_flag else ev.node, ok, "`_evaluated = True` is set after the call on every path to the return" if ok else
            "`_evaluated` is set before the call (a raising call memoises None) or not on every path (the function runs again)", key="flag-after-call")
    ok = bool(set_res) and cfg.must_pass(cn, EXIT, set_res, normal_only=True) and all(cfg.dominates(cn, f) for f in set_res)
    res_stmt = cfg.stmt[min(set_res)] if set_res else None
    call_stmt = cfg.stmt[cn]
    val_ok = res_stmt is not None and (norm(res_stmt.value) == norm(call_stmt.targets[0]) if isinstance(call_stmt, ast.Assign) else norm(res_stmt.value).startswith("self.func("))
    ctx.add("2-memo", ev, res_stmt if res_stmt is not None else ev.node, ok and val_ok, "the call's value is stored in `_result`" if ok and val_ok else "the result of the call is not stored in `_result` on every path", key="result-stored")
    the_call = next(c for c in ast.walk(call_stmt) if isinstance(c, ast.Call) and norm(c.func) == "self.func")
    star = [norm(a.value) for a in the_call.args if isinstance(a, ast.Starred)]
    dstar = [norm(k.value) for k in the_call.keywords if k.arg is None]
    defs = {norm(s.targets[0]): norm(s.value) for s in walk_no_nested(ev.node) if isinstance(s, ast.Assign)}
    ok = len(star) == 1 and len(dstar) == 1 and defs.get(star[0]) == "evaluate_lazy(self.args)" and defs.get(dstar[0]) == "evaluate_lazy(self.kwargs)"
    ctx.add("2-memo", ev, the_call, ok, "called with evaluate_lazy(self.args) / evaluate_lazy(self.kwargs)" if ok else "evaluate() does not resolve its own lazy arguments before the call (or drops args/kwargs)", key="args-resolved")
    rets = [r for r in walk_no_nested(ev.node) if isinstance(r, ast.Return)]
    ok = bool(rets) and norm(rets[-1].value) in ("result", "self._result")
    ctx.add("2-memo", ev, rets[-1] if rets else ev.node, ok, "returns the computed result" if ok else "evaluate() does not return the computed result", key="return")
    init = P.func(f"{LZ}._LazyFunction.__init__")
    ok = "self._evaluated = False" in norm(init.node) and "self._result = None" in norm(init.node)
    ctx.add("2-memo", init, init.node, ok, "a new node starts unevaluated" if ok else "_LazyFunction does not start with _evaluated = False", key="init-state")

    # ------------------------------------------------------------ 4 recursion
    el = P.func(f"{LZ}.evaluate_lazy")
    kinds = {}
    for s in [s for s in el.node.body if isinstance(s, ast.If)]:
        t = norm(s.test)
        for k in ("_LazyFunction", "dict", "tuple", "list", "set"):
            if f"isinstance(x, {k})" == t:
                kinds[k] = s
    for k in ("_LazyFunction", "dict", "tuple", "list", "set"):
        s = kinds.get(k)
        ok = s is not None and ("x.evaluate()" in norm(s) if k == "_LazyFunction" else "evaluate_lazy(v)" in norm(s))
        ctx.add("4-recursion", el, s if s is not None else el.node, ok, f"{k}: evaluated recursively" if ok else f"evaluate_lazy does not descend into `{k}`", key=f"kind {k}")
    dct = kinds.get("dict")
    ok = dct is not None and "{k: evaluate_lazy(v) for k, v in x.items()}" in norm(dct)
    ctx.add("4-recursion", el, dct if dct is not None else el.node, ok, "dict keys are kept" if ok else "dict keys are lost while evaluating", key="dict-keys")
    call = P.func("pipefunc._pipefunc.PipeFunc.__call__")
    cfg = ctx.cfg(call)
    user = cfg.nodes(lambda s: any(isinstance(c, ast.Call) and norm(c.func) == "self.func" for c in ast.walk(s)) and not isinstance(s, (ast.If, ast.With, ast.Try)))
    gate = cfg.nodes(lambda s: isinstance(s, ast.If) and norm(s.test) == "self._evaluate_lazy")
    ok = bool(user) and bool(gate)
    if ok:
        body = cfg.stmt[gate[0]].body
        ok = {"args = evaluate_lazy(args)", "kwargs = evaluate_lazy(kwargs)"} <= {norm(s) for s in body} and all(cfg.dominates(gate[0], u) for u in user)
    ctx.add("4-recursion", call, cfg.stmt[gate[0]] if gate else call.node, ok, "lazy args and kwargs are evaluated before the wrapped function is called" if ok else
            "PipeFunc.__call__ passes unevaluated lazy objects to the user function (args or kwargs not resolved before the call)", key="call-resolves")
    elz = P.func("pipefunc._pipefunc.PipeFunc._evaluate_lazy")
    ok = "any((p.lazy for p in self._pipelines))" in norm(elz.node)
    ctx.add("4-recursion", elz, elz.node, ok, "enabled when any owning pipeline is lazy" if ok else "_evaluate_lazy no longer reflects the owning pipelines' lazy flag", key="flag")

    # ------------------------------------------------------------ 5 dag
    src = norm(init.node)
    gate_if = [s for s in walk_no_nested(init.node) if isinstance(s, ast.If) and norm(s.test) == "_TASK_GRAPH is not None"]
    ok = bool(gate_if)
    ctx.add("5-dag", init, gate_if[0] if gate_if else init.node, ok, "registration only under an active construct_dag" if ok else "task graph registration is not guarded by `_TASK_GRAPH is not None`", key="gate")
    add_edge = init.nested.get("add_edge")
    if add_edge is None:
        raise AnalysisError("_LazyFunction.__init__.add_edge not found")
    edges = [c for c in ast.walk(add_edge.node) if isinstance(c, ast.Call) and norm(c.func) == "_TASK_GRAPH.graph.add_edge"]
    ok = len(edges) >= 2 and all(len(c.args) == 2 and norm(c.args[1]) == "self._id" and norm(c.args[0]).endswith("._id") and norm(c.args[0]) != "self._id" for c in edges)
    ctx.add("5-dag", add_edge, edges[0] if edges else add_edge.node, ok, "edges point producer._id -> self._id" if ok else "edge direction / endpoints changed (must be argument -> consumer)", key="direction")
    ok = any(isinstance(s, ast.For) and norm(s.iter) == "arg" for s in ast.walk(add_edge.node)) and "isinstance(arg, Iterable)" in norm(add_edge.node)
    ctx.add("5-dag", add_edge, add_edge.node, ok, "lazy items inside container arguments get an edge too" if ok else "lazy values nested in a container argument no longer get an edge", key="containers")
    loops = [s for s in ast.walk(gate_if[0]) if isinstance(s, ast.For)] if gate_if else []
    iters = {norm(s.iter) for s in loops}
    ok = "self.args" in iters and any(i in iters for i in ("kwargs.values()", "self.kwargs.values()"))
    ctx.add("5-dag", init, gate_if[0] if gate_if else init.node, ok, "edges registered for positional AND keyword arguments" if ok else f"edges are registered only for {sorted(iters)}", key="args-and-kwargs")
    ok = all(any(isinstance(c, ast.Call) and dotted(c.func) == "add_edge" for c in ast.walk(s)) for s in loops if norm(s.iter) in ("self.args", "kwargs.values()", "self.kwargs.values()")) and bool(loops)
    ctx.add("5-dag", init, init.node, ok, "each argument goes through add_edge" if ok else "an argument loop no longer calls add_edge", key="calls-add-edge")
    node_add = "_TASK_GRAPH.graph.add_node(self._id, lazy_func=self)" in src and "_TASK_GRAPH.mapping[self._id] = self" in src
    ctx.add("5-dag", init, init.node, node_add, "the node is registered under its id" if node_add else "the node itself is no longer registered in the task graph", key="node")
    ids = [s for s in walk_no_nested(init.node) if isinstance(s, (ast.Assign, ast.AugAssign)) and "_counter" in norm(s)]
    ok = len(ids) == 2 and norm(ids[0]) == "self._id = _LazyFunction._counter" and norm(ids[1]) == "_LazyFunction._counter += 1"
    ctx.add("5-dag", init, ids[0] if ids else init.node, ok, "ids are unique and increase with construction order (edges go from older to newer nodes: acyclic)" if ok else "node ids are no longer assigned from an increasing counter", key="ids")
    writers = []
    for fn_ in P.functions.values():
        for s_ in walk_no_nested(fn_.node):
            tg_ = s_.targets if isinstance(s_, ast.Assign) else ([s_.target] if isinstance(s_, (ast.AugAssign, ast.AnnAssign)) else [])
            if any(isinstance(t_, ast.Attribute) and t_.attr == "_counter" for t_ in tg_):
                writers.append(fn_.qualname)
    ok = sorted(set(writers)) == [f"{LZ}._LazyFunction.__init__"]
    ctx.add("5-dag", f"{LZ}._LazyFunction._counter", "", ok, "the id counter is only ever incremented, in the constructor" if ok else
            f"the id counter is also written by {sorted(set(writers) - {f'{LZ}._LazyFunction.__init__'})}: ids repeat, so a lazy object created earlier collides with a new node (self-loops / cycles in the task graph)", key="counter-writers")
    cd = P.func(f"{LZ}.construct_dag")
    tr = [t for t in walk_no_nested(cd.node) if isinstance(t, ast.Try)]
    ok = bool(tr) and any(norm(s) == "_TASK_GRAPH = None" for s in tr[0].finalbody) and any(isinstance(y, ast.Yield) for st in tr[0].body for y in ast.walk(st))
    ctx.add("5-dag", cd, tr[0] if tr else cd.node, ok, "the global task graph is reset in `finally`" if ok else "construct_dag does not reset _TASK_GRAPH in a finally: a failing block leaves recording on", key="reset")
    fresh = any(norm(s) == "_TASK_GRAPH = TaskGraph(nx.DiGraph(), {}, SimpleCache())" for s in walk_no_nested(cd.node))
    ctx.add("5-dag", cd, cd.node, fresh, "each construct_dag starts from an empty graph" if fresh else "construct_dag reuses a previous graph", key="fresh")


L, B, PF = "pipefunc/lazy.py", "pipefunc/_pipeline/_base.py", "pipefunc/_pipefunc.py"
MUTANTS = [
    Mutant("lazy-arm-runs", B, "    if lazy:\n        return _LazyFunction(func, kwargs=func_args)\n", "    if lazy:\n        return _LazyFunction(lambda r=func(**func_args): r)\n", ("C18.1-deferred",)),
    Mutant("picker-forced", B, "                _LazyFunction(func.output_picker, args=(r, name))\n                if lazy\n                else func.output_picker(r, name)\n", "                func.output_picker(r.evaluate() if lazy else r, name)\n", ("C18.1-deferred", "C18.3-shared")),
    Mutant("flag-before-call", L, "        result = self.func(*args, **kwargs)\n        self._result = result\n        self._evaluated = True\n", "        self._evaluated = True\n        result = self.func(*args, **kwargs)\n        self._result = result\n", ("C18.2-memo",)),
    Mutant("no-early-return", L, "        if self._evaluated:\n            return self._result\n", "", ("C18.2-memo",)),
    Mutant("flag-never-set", L, "        self._result = result\n        self._evaluated = True\n", "        self._result = result\n", ("C18.2-memo",)),
    Mutant("kwargs-not-resolved", L, "        kwargs = evaluate_lazy(self.kwargs)\n", "        kwargs = self.kwargs\n", ("C18.2-memo",)),
    Mutant("no-set-recursion", L, "    if isinstance(x, set):\n        return {evaluate_lazy(v) for v in x}\n", "", ("C18.4-recursion",)),
    Mutant("call-kwargs-only", PF, "                args = evaluate_lazy(args)\n                kwargs = evaluate_lazy(kwargs)\n", "                kwargs = evaluate_lazy(kwargs)\n", ("C18.4-recursion",)),
    Mutant("edges-kwargs-only", L, "            for arg in self.args:\n                add_edge(arg)\n\n", "", ("C18.5-dag",)),
    Mutant("edge-reversed", L, "                    _TASK_GRAPH.graph.add_edge(arg._id, self._id)\n", "                    _TASK_GRAPH.graph.add_edge(self._id, arg._id)\n", ("C18.5-dag",)),
    Mutant("no-finally-reset", L, "    try:\n        yield _TASK_GRAPH\n    finally:\n        _TASK_GRAPH = None\n", "    yield _TASK_GRAPH\n    _TASK_GRAPH = None\n", ("C18.5-dag",)),
    Mutant("counter-reset-per-graph", L, "    global _TASK_GRAPH\n    _TASK_GRAPH = TaskGraph(nx.DiGraph(), {}, SimpleCache())\n", "    global _TASK_GRAPH\n    _LazyFunction._counter = 0\n    _TASK_GRAPH = TaskGraph(nx.DiGraph(), {}, SimpleCache())\n", ("C18.5-dag",), why="seeded C18/2"),
    Mutant("twin-evaluate-inline", L, "        result = self.func(*args, **kwargs)\n        self._result = result\n", "        result = self.func(*args, **kwargs)\n        self._result = result  # memoise\n", twin=True),
]
