"""C18 - lazy pipelines evaluate to the eager result, at most once per node (structural clauses).

  1 deferred   on the lazy arm of _execute_func / _update_all_results nothing user-supplied is called
  2 memo       _LazyFunction.evaluate: the call is dominated by the `_evaluated` early return, its arguments come
               from evaluate_lazy, and `_result`/`_evaluated` are stored after the call on every path to the return
  3 shared     per-name lazy outputs of one tuple-output function wrap the same deferred result
  4 recursion  evaluate_lazy recurses into dict/tuple/list/set; PipeFunc.__call__ resolves lazy args before the call
  5 dag        construct_dag: an edge producer -> consumer for every lazy argument (args and kwargs, one level of
               containers), ids assigned increasingly, global reset in `finally`
"""

from __future__ import annotations

import ast
import re

from ..cfg import EXIT, header_parts
from ..flow import parse_expr, Defs, Scope, bool_eval, conjuncts, guard_facts, inline_predicates, iterations, unreachable_when
from ..loader import AnalysisError, dotted, norm, walk_no_nested
from ..report import Ctx
from ..selftest import Mutant

PROP = "C18"
TECHNIQUE = "static analysis: condition-directed reachability of eager calls under lazy=True + CFG typestate rules of _LazyFunction.evaluate (guard, flag, result) + container-recursion coverage + task-graph edge direction and who-writes rules + container-rebuild rule + every-reaching-definition rule for the resolved arguments + identity-preserving (unshared) cache option derived from `lazy` for every cache class + container-kind coverage of task-graph edges + who-may-force rule over the call graph of Pipeline._run + mutated mutable defaults + resolve-after-merge ordering in PipeFunc.__call__ + identity in the shared construct_dag cache key + look-ahead container kinds vs rebuilt kinds + deferred objects hold nothing unpicklable + helper-split evaluate_lazy read as one scope"
EXPLANATION = (
    "Static analysis of pipefunc/lazy.py and of the lazy arms in _pipeline/_base.py and _pipefunc.py: CFG dominance and "
    "must-pass-through queries for the memoisation typestate of _LazyFunction.evaluate, def-use of the call arguments, "
    "branch inspection of the lazy arms, and pattern rules for container recursion and task-graph edge registration."
)
TRUSTED = ["CPython ast parser", "networkx DiGraph.add_edge semantics"]
DECLINED = ["equality of evaluate() and the eager value (value-level)", "acyclicity for graphs built outside construct_dag"]

LZ = "pipefunc.lazy"


def _expr_dead(stmt: ast.AST, node: ast.AST, env: dict[str, bool]) -> bool:
    """`node` sits in an arm of a conditional expression inside `stmt` that is not evaluated under `env`."""
    par = {id(c): p for p in ast.walk(stmt) for c in ast.iter_child_nodes(p)}
    x = node
    while id(x) in par:
        child, x = x, par[id(x)]
        if isinstance(x, ast.IfExp):
            v = bool_eval(x.test, env)
            if (v is True and child is x.orelse) or (v is False and child is x.body):
                return True
        if isinstance(x, ast.BoolOp) and child is not x.values[0]:
            pass
    return False


def rule_deferred(ctx: Ctx) -> None:
    P = ctx.prog
    ef = P.func("pipefunc._pipeline._base._execute_func")
    cfg = ctx.cfg(ef)
    d = Defs(ef)
    fparam, lparam = ef.param_names()[0], "lazy"
    if lparam not in ef.param_names():
        raise AnalysisError("_execute_func has no `lazy` parameter")
    eager = [(n, c) for n in cfg.nodes() for part in header_parts(cfg.stmt[n]) for c in ast.walk(part) if isinstance(c, ast.Call) and norm(c.func) == fparam]
    forced = [(n, c) for n, c in eager if not unreachable_when(cfg, d, n, {lparam: True}) and not _expr_dead(cfg.stmt[n], c, {lparam: True})]
    defers = [n for n in cfg.nodes(lambda s: isinstance(s, ast.Return) and s.value is not None and "_LazyFunction(" in norm(s.value)) if not unreachable_when(cfg, d, n, {lparam: True})]
    ctx.tri("1-deferred", ef, cfg.stmt[forced[0][0]] if forced else ef.node, bool(eager) and not forced and bool(defers), bool(forced),
            "lazy: a _LazyFunction is returned and the function is not called", f"`{norm(forced[0][1])[:50] if forced else ''}` is evaluated although lazy=True: the function runs at graph-construction time", "eager call / lazy return not recognised", key="execute-func")
    ur = P.func("pipefunc._pipeline._base._update_all_results")
    cfg = ctx.cfg(ur)
    d = Defs(ur)
    picks = [(n, c) for n in cfg.nodes() for part in header_parts(cfg.stmt[n]) for c in ast.walk(part) if isinstance(c, ast.Call) and norm(c.func).endswith(".output_picker")]
    forced = [(n, c) for n, c in picks if not unreachable_when(cfg, d, n, {"lazy": True}) and not _expr_dead(cfg.stmt[n], c, {"lazy": True})]
    ctx.tri("1-deferred", ur, cfg.stmt[forced[0][0]] if forced else ur.node, bool(picks) and not forced, bool(forced), "output_picker is only called on the eager arm",
            "output_picker is called while lazy: the producer is forced before evaluate()", "output_picker call not found", key="picker-eager-only")
    rparam = ur.param_names()[1]
    lz_arm = [c for c in ast.walk(ur.node) if isinstance(c, ast.Call) and dotted(c.func) == "_LazyFunction"]
    if lz_arm:
        a_ = next((k.value for k in lz_arm[0].keywords if k.arg == "args"), lz_arm[0].args[1] if len(lz_arm[0].args) > 1 else None)
        names = {x.id for x in ast.walk(a_) if isinstance(x, ast.Name)} if a_ is not None else set()
        calls_in = [c for c in ast.walk(a_) if isinstance(c, ast.Call)] if a_ is not None else []
        ctx.tri("3-shared", ur, lz_arm[0], rparam in names and not calls_in, rparam not in names or bool(calls_in), "each name defers picker(r, name) on the SAME deferred result r",
                "per-name lazy outputs do not share the one deferred result: the producer is evaluated once per name (or eagerly)", key="shared-r")
    # who may force a deferred result: _LazyFunction.evaluate / evaluate_lazy themselves and PipeFunc.__call__ (which runs INSIDE
    # an evaluation).  Nothing that Pipeline._run reaches while it BUILDS the deferred result may do so.
    run_m = P.func("pipefunc._pipeline._base.Pipeline._run")
    reach = ctx.cg.reachable(run_m.qualname) | {run_m.qualname}
    forcing = []
    for q in sorted(reach):
        f_ = P.functions.get(q)
        if f_ is None or not f_.module.name.startswith("pipefunc._pipeline"):
            continue
        for c in ast.walk(f_.node):
            if isinstance(c, ast.Call) and (dotted(c.func).rsplit(".", 1)[-1] == "evaluate_lazy" or (isinstance(c.func, ast.Attribute) and c.func.attr == "evaluate" and not c.args)):
                cfg_f = ctx.cfg(f_)
                nd = cfg_f.node_containing(c)
                if "lazy" in f_.param_names() and nd is not None and unreachable_when(cfg_f, Defs(f_), nd, {"lazy": True}):
                    continue
                forcing.append((f_, c))
    ctx.add("1-deferred", forcing[0][0] if forcing else run_m, forcing[0][1] if forcing else run_m.node, not forcing, "nothing that Pipeline._run reaches in the pipeline package forces a deferred result" if not forcing else
            f"`{norm(forcing[0][1])[:50]}` in {forcing[0][0].name} forces a deferred result while pipeline(...) is still building it: with lazy=True the functions (and everything upstream of them) run before evaluate() is called", key="nobody-forces")
    # PipeFunc.__call__ resolves deferred arguments AFTER defaults and bound values were merged in: a deferred object that was bound
    # (or is a default) is otherwise handed to the user function unevaluated
    call = P.func("pipefunc._pipefunc.PipeFunc.__call__")
    cfg_c = ctx.cfg(call)
    forces = [n for n in cfg_c.nodes() if any(isinstance(c, ast.Call) and dotted(c.func).rsplit(".", 1)[-1] == "evaluate_lazy" and any("kwargs" in norm(a) for a in c.args) for part in header_parts(cfg_c.stmt[n]) if part is not None for c in ast.walk(part))]
    merges = [n for n in cfg_c.nodes() if isinstance(cfg_c.stmt[n], ast.Assign) and "_bound" in norm(cfg_c.stmt[n].value) and "kwargs" in norm(cfg_c.stmt[n].value) and any(isinstance(t, ast.Name) and "kwargs" in t.id for t in cfg_c.stmt[n].targets)]
    if forces and merges:
        after = all(any(cfg_c.dominates(m_, f_) for m_ in merges) for f_ in forces)
        before = any(not any(cfg_c.dominates(m_, f_) for m_ in merges) and any(m_ in cfg_c.reachable_from(f_, normal_only=True) for m_ in merges) for f_ in forces)
        ctx.tri("1-deferred", call, cfg_c.stmt[forces[0]], after, before and not after, "deferred arguments are resolved after defaults and bound values were merged in",
                "`evaluate_lazy(kwargs)` runs BEFORE `kwargs = defaults | kwargs | bound`: a deferred object that is bound to the function (or is one of its defaults) reaches the user function unevaluated - "
                "evaluate() raises TypeError or computes with the wrapper object instead of its value", "order of merging and resolving not recognised", key="force-after-merge")
    else:
        ctx.add("1-deferred", call, call.node, None, "UNDECIDED: the merge of defaults / bound values or the resolution of deferred arguments was not found in PipeFunc.__call__", key="force-after-merge")
    # while a task graph is recorded, `_current_cache` hands every pipeline the ONE cache of the construct_dag block; the key is
    # (output name, root-argument values) - unique within a pipeline, not across the pipelines that are called in the block
    cc = P.func("pipefunc._pipeline._base.Pipeline._current_cache")
    shared = [r for r in walk_no_nested(cc.node) if isinstance(r, ast.Return) and r.value is not None and re.search(r"\b(tg|task_graph\(\)|_TASK_GRAPH)\.cache\b", norm(Defs(cc).resolve(r.value)))]
    if shared:
        keyed = [c for c in ast.walk(run_m.node) if isinstance(c, ast.Call) and dotted(c.func).rsplit(".", 1)[-1] == "compute_cache_key"]
        d_run = Defs(run_m)
        with_identity = any(re.search(r"\bid\(self\)|\bid\(func\)|_cache_id|\(self,|\(func,", norm(a_.value)) for a_ in walk_no_nested(run_m.node) if isinstance(a_, ast.Assign) and any(isinstance(t, ast.Name) and t.id == "cache_key" for t in a_.targets))
        ctx.tri("5-dag", run_m, keyed[0] if keyed else run_m.node, with_identity, bool(keyed) and not with_identity, "the key used in the shared cache of a construct_dag block identifies the pipeline / function",
                "inside a construct_dag block every pipeline memoises into the block's ONE cache under (output name, root-argument values): two pipelines with an equally named output and equal arguments share the entry - "
                "the second one's deferred result evaluates to the FIRST pipeline's value", "key construction not recognised", key="dag-cache-key-identifies-pipeline")


def rule_memo(ctx: Ctx) -> None:
    P = ctx.prog
    ev = P.func(f"{LZ}._LazyFunction.evaluate")
    cfg = ctx.cfg(ev)
    d = Defs(ev)
    call_nodes = cfg.nodes(lambda s: any(isinstance(c, ast.Call) and norm(c.func) == "self.func" for c in ast.walk(s)) and not isinstance(s, (ast.If, ast.For, ast.While)))
    if len(call_nodes) != 1:
        raise AnalysisError(f"_LazyFunction.evaluate: expected one call of self.func, found {len(call_nodes)}")
    cn = call_nodes[0]
    facts = guard_facts(cfg, d, cn)
    g_ok = any(t == "self._evaluated" and not pol for t, pol in facts)
    ctx.add("2-memo", ev, cfg.stmt[cn], g_ok, "the call only happens when `_evaluated` is false" if g_ok else "evaluate() calls the function again although it was evaluated (the call is not guarded by `_evaluated`)", key="early-return")
    set_flag = set(cfg.nodes(lambda s: isinstance(s, ast.Assign) and any(norm(t) == "self._evaluated" for t in s.targets) and norm(s.value) == "True"))
    set_res = set(cfg.nodes(lambda s: isinstance(s, ast.Assign) and any(norm(t) == "self._result" for t in s.targets)))
    before = [f for f in set_flag if not cfg.dominates(cn, f)]
    ok = bool(set_flag) and cfg.must_pass(cn, EXIT, set_flag, normal_only=True) and not before
    ctx.add("2-memo", ev, cfg.stmt[(before or sorted(set_flag) or [cn])[0]], ok, "`_evaluated = True` is set after the call on every path to the return" if ok else
            "`_evaluated` is set before the call (a raising call memoises None) or not on every path (the function runs again)", key="flag-after-call")
    ok = bool(set_res) and cfg.must_pass(cn, EXIT, set_res, normal_only=True) and all(cfg.dominates(cn, f) for f in set_res)
    ctx.add("2-memo", ev, cfg.stmt[min(set_res)] if set_res else ev.node, ok, "the call's value is stored in `_result`" if ok else "the result of the call is not stored in `_result` on every path", key="result-stored")
    the_call = next(c for c in ast.walk(cfg.stmt[cn]) if isinstance(c, ast.Call) and norm(c.func) == "self.func")
    star = [norm(d.resolve(a.value)) for a in the_call.args if isinstance(a, ast.Starred)]
    dstar = [norm(d.resolve(k.value)) for k in the_call.keywords if k.arg is None]
    def every_def(e: ast.AST) -> list[str]:
        """All values a splatted local can hold at the call (every assignment to it, tuple unpacking included)."""
        if not isinstance(e, ast.Name) or d.unique(e.id) is not None:
            return [norm(d.resolve(e))]
        vals = []
        for a_ in walk_no_nested(ev.node):
            if isinstance(a_, ast.Assign):
                for t_ in a_.targets:
                    if isinstance(t_, ast.Name) and t_.id == e.id:
                        vals.append(norm(d.resolve(a_.value)))
                    if isinstance(t_, ast.Tuple) and isinstance(a_.value, ast.Tuple) and len(t_.elts) == len(a_.value.elts):
                        vals += [norm(d.resolve(v_)) for x_, v_ in zip(t_.elts, a_.value.elts) if isinstance(x_, ast.Name) and x_.id == e.id]
        return vals or [norm(e)]

    star = [t for a in the_call.args if isinstance(a, ast.Starred) for t in every_def(a.value)]
    dstar = [t for k in the_call.keywords if k.arg is None for t in every_def(k.value)]
    good = bool(star) and bool(dstar) and set(star) == {"evaluate_lazy(self.args)"} and set(dstar) == {"evaluate_lazy(self.kwargs)"}
    raw = [t for t in star + dstar if t in ("self.args", "self.kwargs")] or ([] if star else ["*args missing"]) or ([] if dstar else ["**kwargs missing"])
    ctx.tri("2-memo", ev, the_call, good, bool(raw), "called with evaluate_lazy(self.args) / evaluate_lazy(self.kwargs)",
            f"evaluate() passes {raw} to the function (on some path): lazy arguments are not resolved (or args/kwargs are dropped)", "argument resolution not recognised", key="args-resolved")


def rule_deferred_objects_are_storable(ctx: Ctx) -> None:
    """A lazy pipeline returns (and caches) the deferred object itself: with cache_type='disk' or a shared cache the object is
    pickled by cache.put.  A lock / event / open file on the node makes every cached lazy call raise TypeError."""
    from ..flow import unpicklable_fields

    lf = ctx.prog.cls(f"{LZ}._LazyFunction")
    bad = unpicklable_fields(ctx.prog, lf)
    ctx.add("2-memo", bad[0][0] if bad else lf.qualname, bad[0][1] if bad else lf.loc, not bad, "a deferred object holds no lock / file / executor: it can be stored by a pickling cache" if not bad else
            f"`{norm(bad[0][1])[:60]}` puts a `{bad[0][3]}` on every deferred object and neither __getstate__ nor __reduce__ leaves `{bad[0][2]}` out: a lazy pipeline with a pickling cache (cache_type='disk', or "
            "shared lru / hybrid) raises TypeError (cannot pickle) from cache.put instead of returning the deferred object", key="deferred-picklable")


def rule_recursion(ctx: Ctx) -> None:
    P = ctx.prog
    el = P.func(f"{LZ}.evaluate_lazy")
    tested: dict[str, list[ast.AST]] = {}
    inclusive: dict[str, list[ast.AST]] = {}  # kinds tested with isinstance (subclasses included)
    # the function together with the private helpers it is cut into (a dispatcher + `_evaluate_inside_container`, ...)
    el_scope = [f_ for f_ in Scope(ctx, el).funcs if f_.module.name == LZ and f_.cls is None]
    rec_names = tuple(f"{f_.name}(" for f_ in el_scope)
    for f_el, s_ in [(f_, s_) for f_ in el_scope for s_ in ast.walk(f_.node) if isinstance(s_, (ast.If, ast.IfExp))]:
        d_el = Defs(f_el)
        for c in [c for c in ast.walk(s_.test) if isinstance(c, ast.Call) and dotted(c.func) == "isinstance" and len(c.args) == 2]:
            for x in ast.walk(c.args[1]):
                if isinstance(x, (ast.Name, ast.Attribute)):
                    tested.setdefault(norm(x).rsplit(".", 1)[-1], []).append(s_)
                    inclusive.setdefault(norm(x).rsplit(".", 1)[-1], []).append(s_)
        # exact-type tests: `type(x) is T`, `tp is T` with tp = type(x), `type(x) in (T1, T2)`, `type(x) == T`
        exact_here: set[str] = set()
        for c in [c for c in ast.walk(s_.test) if isinstance(c, ast.Compare) and len(c.ops) == 1 and isinstance(c.ops[0], (ast.Is, ast.Eq, ast.In, ast.IsNot, ast.NotEq, ast.NotIn))]:
            sides = [d_el.resolve(c.left), d_el.resolve(c.comparators[0])]
            if not any(isinstance(y, ast.Call) and dotted(y.func) == "type" for y in sides):
                continue
            for y in sides:
                for x in ast.walk(y):
                    if isinstance(x, (ast.Name, ast.Attribute)) and not (isinstance(y, ast.Call) and dotted(y.func) == "type"):
                        tested.setdefault(norm(x).rsplit(".", 1)[-1], []).append(s_)
                        exact_here.add(norm(x).rsplit(".", 1)[-1])
        for k_ in exact_here:  # `isinstance(x, dict) and type(x) is dict` (a class pattern with a guard): exact after all
            inclusive[k_] = [r_ for r_ in inclusive.get(k_, []) if r_ is not s_]
    # a dispatch table (`for tp, handler in _TABLE: if isinstance(x, tp): return handler(x)`) names the kinds outside the function
    table_names = {x.id for c in Scope(ctx, el, wide=True).const_nodes() for x in ast.walk(c) if isinstance(x, ast.Name)}
    for k in ("_LazyFunction", "dict", "tuple", "list", "set"):
        regions = tested.get(k, [])
        rec = any(any(w in norm(r) for w in rec_names) or ".evaluate()" in norm(r) for r in regions)
        ctx.tri("4-recursion", el, regions[0] if regions else el.node, rec, not regions and k not in table_names, f"{k}: evaluated recursively", f"evaluate_lazy never tests for `{k}`: lazy values inside a {k} reach the user function unevaluated", f"{k}: branch found but no recursive call recognised", key=f"kind {k}")
    # a look-ahead ("is there anything deferred in here?") that lets evaluate_lazy hand the argument on untouched must descend into
    # every kind of container that evaluate_lazy itself descends into
    CONT = ("dict", "tuple", "list", "set")
    rebuilt_kinds = {k for k in CONT if any("evaluate_lazy(" in norm(r) for r in tested.get(k, []))}
    xp = el.param_names()[0]
    for s_ in [s_ for s_ in ast.walk(el.node) if isinstance(s_, ast.If) and any(isinstance(r, ast.Return) and r.value is not None and norm(r.value) == xp for r in s_.body)]:
        for c in [c for c in ast.walk(s_.test) if isinstance(c, ast.Call) and isinstance(c.func, ast.Name)]:
            for h in [h for h in ctx.cg.resolve_callable(el, c.func) if h.module.name == LZ and h is not el]:
                if not any(isinstance(y, ast.Call) and isinstance(y.func, ast.Name) and y.func.id == h.name for y in ast.walk(h.node)):
                    continue  # not a recursive descent
                seen_kinds = {x.id for x in ast.walk(h.node) if isinstance(x, ast.Name) and x.id in CONT} | ({"dict"} if any(isinstance(y, ast.Attribute) and y.attr in ("values", "items") for y in ast.walk(h.node)) else set())
                missing_k = sorted(rebuilt_kinds - seen_kinds)
                generic_iter = any(isinstance(y, ast.Name) and y.id in ("Iterable", "Collection", "Mapping") for y in ast.walk(h.node))
                ctx.tri("4-recursion", h, c, not missing_k, bool(missing_k) and not generic_iter, f"the look-ahead {h.name} descends into every container kind evaluate_lazy rebuilds",
                        f"evaluate_lazy returns its argument untouched when `{norm(c)[:40]}` finds nothing deferred, but {h.name} never looks into {missing_k}: a deferred value nested in a {missing_k[0] if missing_k else ''} inside "
                        "such a container reaches the user function unevaluated (evaluate() raises TypeError or computes with the deferred object)", f"{h.name}: kinds not recognised", key=f"look-ahead {h.name}")
    # ... and a container that is REBUILT from its items is recognised by its exact type: `isinstance(x, tuple)` is also true for
    # a NamedTuple result of an upstream function, `isinstance(x, dict)` for a Counter / OrderedDict - concrete user values, which
    # the builtin constructor turns into a plain tuple / dict (the eager pipeline hands the object itself to the consumer)
    for k in ("dict", "tuple", "list", "set"):
        regions = inclusive.get(k, [])
        rebuilt = [r for r in regions if "evaluate_lazy(" in norm(r)]
        if k in tested:
            ctx.add("4-recursion", el, rebuilt[0] if rebuilt else el.node, not rebuilt, f"{k}: only the plain builtin {k} is rebuilt" if not rebuilt else
                    f"`isinstance(x, {k})` selects the branch that rebuilds the container with the builtin {k}: an instance of a subclass (NamedTuple, Counter, OrderedDict, ...) returned by an upstream function reaches the "
                    f"consumer as a plain {k} - evaluate() raises AttributeError / returns something else than the eager pipeline", key=f"exact {k}")
    # the evaluated container is rebuilt with a constructor that is known to accept one iterable (the builtin, or a literal /
    # comprehension): `type(x)(generator)` also runs the constructors of subclasses (NamedTuple, ...), which take other arguments
    generic = [c for c in ast.walk(el.node) if isinstance(c, ast.Call) and isinstance(c.func, ast.Call) and dotted(c.func.func) == "type" and c.args and isinstance(c.args[0], (ast.GeneratorExp, ast.ListComp))] + \
              [c for c in ast.walk(el.node) if isinstance(c, ast.Call) and isinstance(c.func, ast.Attribute) and c.func.attr == "__class__" and c.args and isinstance(c.args[0], (ast.GeneratorExp, ast.ListComp))]
    ctx.add("4-recursion", el, generic[0] if generic else el.node, not generic, "containers are rebuilt with the builtin constructors / literals" if not generic else
            f"`{norm(generic[0])[:60]}` rebuilds the container through the class of the argument: for a subclass whose constructor does not take one iterable (a NamedTuple, ...) evaluate() raises TypeError where the eager call returns a value", key="rebuild")
    call = P.func("pipefunc._pipefunc.PipeFunc.__call__")
    user = [c for c in ast.walk(call.node) if isinstance(c, ast.Call) and norm(c.func) == "self.func"]
    if user:
        splat = [norm(a.value) for a in user[0].args if isinstance(a, ast.Starred)] + [norm(k.value) for k in user[0].keywords if k.arg is None]
        resolved = {norm(t) for s_ in ast.walk(call.node) if isinstance(s_, ast.Assign) and isinstance(s_.value, ast.Call) and dotted(s_.value.func) == "evaluate_lazy" for t in s_.targets}
        resolved |= {x.id for s_ in ast.walk(call.node) if isinstance(s_, ast.Assign) and isinstance(s_.targets[0], ast.Tuple) and "evaluate_lazy(" in norm(s_.value) for x in s_.targets[0].elts if isinstance(x, ast.Name)}
        # through locals and tuple packing: what each splatted name is computed from
        from ..flow import dependence_text

        missing = [n_ for n_ in splat if n_ not in resolved and "evaluate_lazy(" not in dependence_text(call.node, ast.Name(id=n_, ctx=ast.Load()))]
        resolved = resolved | {n_ for n_ in splat if n_ not in missing}
        ctx.tri("4-recursion", call, user[0], bool(splat) and not missing, bool(missing) and bool(resolved), "lazy args and kwargs are evaluated before the wrapped function is called",
                f"PipeFunc.__call__ never passes {missing} through evaluate_lazy: unevaluated lazy objects reach the user function", "resolution of lazy arguments not recognised", key="call-resolves")
    elz = P.func("pipefunc._pipefunc.PipeFunc._evaluate_lazy")
    t = norm(elz.node)
    ctx.tri("4-recursion", elz, elz.node, ".lazy" in t and "_pipelines" in t, ".lazy" not in t, "enabled when an owning pipeline is lazy", "_evaluate_lazy no longer reflects the owning pipelines' lazy flag", key="flag")


def rule_dag(ctx: Ctx) -> None:  # noqa: C901, PLR0915
    P = ctx.prog
    # a mutable default argument that the function mutates is ONE object shared by every call: a "seen" set kept that way makes
    # the second consumer of a producer look already linked - its edge is never recorded
    MUT = {"add", "append", "extend", "update", "insert", "remove", "discard", "clear", "setdefault", "pop", "popitem", "sort", "reverse"}
    shared_defaults = []
    n_def = 0
    for f_ in P.functions.values():
        if not (f_.module.name == LZ or f_.module.name.startswith("pipefunc._pipeline")):
            continue
        a_ = f_.node.args
        pos = a_.args[len(a_.args) - len(a_.defaults):] if a_.defaults else []
        for p_, d_ in list(zip(pos, a_.defaults)) + [(k_, dd) for k_, dd in zip(a_.kwonlyargs, a_.kw_defaults) if dd is not None]:
            n_def += 1
            if isinstance(d_, (ast.List, ast.Dict, ast.Set)) or (isinstance(d_, ast.Call) and dotted(d_.func) in ("set", "list", "dict", "defaultdict", "collections.defaultdict", "OrderedDict", "collections.OrderedDict", "deque", "collections.deque")):
                mutated = [x for x in ast.walk(f_.node) if (isinstance(x, ast.Call) and isinstance(x.func, ast.Attribute) and x.func.attr in MUT and isinstance(x.func.value, ast.Name) and x.func.value.id == p_.arg)
                           or (isinstance(x, ast.Subscript) and isinstance(x.ctx, (ast.Store, ast.Del)) and isinstance(x.value, ast.Name) and x.value.id == p_.arg)]
                if mutated:
                    shared_defaults.append((f_, mutated[0], p_.arg, d_))
    ctx.add("5-dag", shared_defaults[0][0] if shared_defaults else LZ, shared_defaults[0][1] if shared_defaults else "", not shared_defaults,
            f"no function of lazy / the pipeline package mutates a mutable default argument ({n_def} defaults examined)" if not shared_defaults else
            f"`{shared_defaults[0][2]}={norm(shared_defaults[0][3])}` is a mutable default that {shared_defaults[0][0].name} mutates (`{norm(shared_defaults[0][1])[:40]}`): the one object is shared by ALL calls, "
            "so what was recorded for one node (e.g. 'producer already linked') is taken to hold for every later node - the task graph misses the edges to all but the first consumer of a producer", key="no-shared-default")
    init = P.func(f"{LZ}._LazyFunction.__init__")
    sc = Scope(ctx, init)
    reg = [(f, c) for f, c in sc.walk() if isinstance(c, ast.Call) and isinstance(c.func, ast.Attribute) and c.func.attr in ("add_edge", "add_node") and "graph" in norm(c.func.value)]
    cfg = ctx.cfg(init)
    ungated = []
    for f, c in reg:
        if f is not init:
            continue
        n = cfg.node_containing(c)
        if n is None:
            continue
        # the graph may be read through the public accessor (`dag = task_graph(); if dag is None: return`)
        facts = [ft for test, truth in cfg.controls(n) for ft in conjuncts(inline_predicates(ctx, init, Defs(init).resolve(test)), truth)]
        if not any(t == "_TASK_GRAPH is None" and not pol for t, pol in facts):
            ungated.append(c)
    ctx.tri("5-dag", init, (ungated or [init.node])[0], bool(reg) and not ungated, bool(ungated), "registration only under an active construct_dag",
            "the task graph is written without testing `_TASK_GRAPH is not None`", "registration calls not found", key="gate")
    state_gated = []
    for f, c in reg:
        if c.func.attr != "add_edge":
            continue
        cf = ctx.cfg(f)
        n = cf.node_containing(c)
        facts = guard_facts(cf, Defs(f), n) if n is not None else []
        facts = [(norm(inline_predicates(ctx, f, parse_expr(t))), pol) for t, pol in facts]
        state_gated += [t for t, _p in facts if "_evaluated" in t or "_result" in t]
    ctx.add("5-dag", init, init.node, not state_gated, "an edge is registered for every lazy argument, whatever its evaluation state" if not state_gated else
            f"edges are only registered under `{state_gated[0][:60]}`: a dependency on a node that was already evaluated is missing from the task graph", key="edges-unconditional")
    edges = [c for _f, c in reg if c.func.attr == "add_edge" and len(c.args) == 2]
    rev = [c for c in edges if norm(c.args[0]) == "self._id" and norm(c.args[1]) != "self._id"]
    fwd = [c for c in edges if norm(c.args[1]) == "self._id" and norm(c.args[0]) != "self._id"]
    ctx.tri("5-dag", init, (rev or fwd or [init.node])[0], bool(fwd) and not rev, bool(rev), "edges point producer._id -> self._id",
            "edges point from the consumer to its argument: the task graph is reversed (dependencies run after their consumers)", "edge registration not recognised", key="direction")
    its = [norm(Defs(f).resolve(it["iter"])) for f in sc.funcs for it in iterations(f.node)]
    pos = any(t in ("self.args", "args") for t in its)
    kw = any(t.endswith("kwargs.values()") for t in its)
    ctx.tri("5-dag", init, init.node, pos and kw, bool(edges) and pos != kw, "edges registered for positional AND keyword arguments",
            f"edges are registered only for {'positional' if pos else 'keyword'} arguments: dependencies passed the other way are missing from the task graph", f"argument loops {its}", key="args-and-kwargs")
    nested_ok = any("Iterable" in norm(f.node) or "isinstance(arg, (list" in norm(f.node) for f in sc.funcs)
    # the container kinds whose items get an edge cover the kinds evaluate_lazy resolves items of (tuple, list, set; dict by its values):
    # a narrower test (Sequence: no sets) leaves dependencies that ARE resolved at evaluation time out of the recorded graph
    COVERS = {"Iterable": {"tuple", "list", "set", "dict"}, "Collection": {"tuple", "list", "set", "dict"}, "Container": {"tuple", "list", "set", "dict"}, "Sequence": {"tuple", "list"},
              "MutableSequence": {"list"}, "Set": {"set"}, "AbstractSet": {"set"}, "tuple": {"tuple"}, "list": {"list"}, "set": {"set"}, "frozenset": set(), "dict": {"dict"}, "Mapping": {"dict"}}
    tested_kinds: set[str] = set()
    any_container_test = False
    for f in sc.funcs:
        for c in [c for c in ast.walk(f.node) if isinstance(c, ast.Call) and dotted(c.func) == "isinstance" and len(c.args) == 2]:
            names_ = [norm(x).rsplit(".", 1)[-1] for x in ast.walk(c.args[1]) if isinstance(x, (ast.Name, ast.Attribute))]
            if any(nm in COVERS for nm in names_) and "_LazyFunction" not in names_:
                any_container_test = True
                for nm in names_:
                    tested_kinds |= COVERS.get(nm, set())
    missing_kinds = sorted({"tuple", "list", "set"} - tested_kinds)
    ctx.tri("5-dag", init, init.node, nested_ok and not (any_container_test and missing_kinds), any_container_test and bool(missing_kinds), "lazy items inside container arguments (tuple, list, set) get an edge too",
            f"only some container kinds have the edges of their items registered - {missing_kinds} are left out although evaluate_lazy resolves lazy items inside them: the recorded task graph lacks dependencies that exist at evaluation time",
            "handling of container arguments not recognised", key="containers")
    ids = [s_ for s_ in walk_no_nested(init.node) if isinstance(s_, (ast.Assign, ast.AugAssign)) and "_counter" in norm(s_)]
    inc = [s_ for s_ in ids if isinstance(s_, ast.AugAssign) and isinstance(s_.op, ast.Add)]
    ctx.tri("5-dag", init, ids[0] if ids else init.node, bool(inc) and any(isinstance(s_, ast.Assign) and "self._id" in norm(s_.targets[0]) for s_ in ids), bool(ids) and not inc and not any("+ 1" in norm(s_) for s_ in ids),
            "ids are unique and increase with construction order (edges go from older to newer nodes: acyclic)", "node ids are no longer assigned from an increasing counter", "id assignment not recognised", key="ids")
    writers = []
    for fn_ in P.functions.values():
        for s_ in walk_no_nested(fn_.node):
            tg_ = s_.targets if isinstance(s_, ast.Assign) else ([s_.target] if isinstance(s_, (ast.AugAssign, ast.AnnAssign)) else [])
            if any(isinstance(t_, ast.Attribute) and t_.attr == "_counter" for t_ in tg_):
                writers.append(fn_.qualname)
    extra = sorted(set(writers) - {f"{LZ}._LazyFunction.__init__"})
    ctx.add("5-dag", f"{LZ}._LazyFunction._counter", "", not extra, "the id counter is only ever incremented, in the constructor" if not extra else
            f"the id counter is also written by {extra}: ids repeat, so a lazy object created earlier collides with a new node (self-loops / cycles in the task graph)", key="counter-writers")
    cd = P.func(f"{LZ}.construct_dag")
    tr = [t for t in walk_no_nested(cd.node) if isinstance(t, ast.Try) and any(isinstance(y, ast.Yield) for st in t.body for y in ast.walk(st))]
    reset_fin = bool(tr) and any(isinstance(s_, ast.Assign) and norm(s_.targets[0]) == "_TASK_GRAPH" and norm(s_.value) == "None" for s_ in tr[0].finalbody)
    reset_any = any(isinstance(s_, ast.Assign) and norm(s_.targets[0]) == "_TASK_GRAPH" and norm(s_.value) == "None" for s_ in ast.walk(cd.node))
    ctx.tri("5-dag", cd, tr[0] if tr else cd.node, reset_fin, not reset_fin and (reset_any or not tr), "the global task graph is reset in `finally`",
            "construct_dag does not reset _TASK_GRAPH in a `finally` around the yield: a failing block leaves recording on", key="reset")
    fresh = any(isinstance(s_, ast.Assign) and norm(s_.targets[0]) == "_TASK_GRAPH" and "TaskGraph(" in norm(Defs(cd).resolve(s_.value)) and "DiGraph()" in norm(Defs(cd).resolve(s_.value)) for s_ in walk_no_nested(cd.node))
    ctx.tri("5-dag", cd, cd.node, fresh, False, "each construct_dag starts from an empty graph", "", "creation of the task graph not recognised", key="fresh")


def rule_identity_preserving_cache(ctx: Ctx) -> None:
    """A lazy pipeline caches the deferred NODES (_LazyFunction objects) and relies on getting the very same node back: a second
    request that shares a producer with the first must reuse its already evaluated node.  A cache that pickles its values hands out
    a fresh copy per hit, so the shared producer runs once per copy.  Rule: in create_cache, every cache class that has a
    `...shared` switch (shared = values are pickled) gets it defaulted from `not lazy` before it is constructed."""
    import re as _re

    P = ctx.prog
    cc = P.func("pipefunc._pipeline._cache.create_cache")
    if "lazy" not in cc.param_names():
        raise AnalysisError("create_cache has no `lazy` parameter")
    par = {id(c): p_ for p_ in ast.walk(cc.node) for c in ast.iter_child_nodes(p_)}
    n = 0
    for r in [r for r in ast.walk(cc.node) if isinstance(r, ast.Return) and isinstance(r.value, ast.Call)]:
        ctors = [c for c in ctx.cg.resolve_callable(cc, r.value.func) if c.name == "__init__"]
        switches = sorted({p_ for c in ctors for p_ in c.param_names() if _re.fullmatch(r"(\w+_)?shared", p_)})
        if not switches:
            continue
        d_cc = Defs(cc)
        for sw in switches:
            n += 1
            direct = [k for k in r.value.keywords if k.arg == sw]
            # stores of that option anywhere in create_cache (helpers are inlined by the normaliser): setdefault / item assignment
            sets = [c for c in ast.walk(cc.node) if isinstance(c, ast.Call) and isinstance(c.func, ast.Attribute) and c.func.attr in ("setdefault", "__setitem__")
                    and c.args and isinstance(c.args[0], ast.Constant) and c.args[0].value == sw]
            sets += [st for st in ast.walk(cc.node) if isinstance(st, ast.Assign) and any(isinstance(t, ast.Subscript) and isinstance(t.slice, ast.Constant) and t.slice.value == sw for t in st.targets)]
            vals = [k.value for k in direct] + [c.args[1] for c in sets if isinstance(c, ast.Call) and len(c.args) > 1] + [st.value for st in sets if isinstance(st, ast.Assign)]
            vals += [v_ for d_ in ast.walk(cc.node) if isinstance(d_, ast.Dict) for k_, v_ in zip(d_.keys, d_.values) if isinstance(k_, ast.Constant) and k_.value == sw]
            # a table of (option, default) pairs that a loop applies: `for option, default in (("lru_shared", not lazy), ...): kw.setdefault(option, default)`
            vals += [t.elts[1] for t in ast.walk(cc.node) if isinstance(t, ast.Tuple) and len(t.elts) == 2 and isinstance(t.elts[0], ast.Constant) and t.elts[0].value == sw]
            from_lazy = any(isinstance(x, ast.Name) and x.id == "lazy" for v in vals for x in ast.walk(d_cc.resolve(v)))
            dyn = any(isinstance(c, ast.Call) and isinstance(c.func, ast.Attribute) and (c.func.attr == "update" or (c.func.attr == "setdefault" and c.args and not isinstance(c.args[0], ast.Constant))) for c in ast.walk(cc.node)) or any(
                isinstance(t, ast.Subscript) and not isinstance(t.slice, ast.Constant) for st in ast.walk(cc.node) if isinstance(st, ast.Assign) for t in st.targets)
            ctx.tri("3-shared", cc, r, from_lazy, not vals and not dyn, f"{norm(r.value.func)}: `{sw}` defaults to `not lazy` (deferred nodes are cached by identity, not pickled)",
                    f"{norm(r.value.func)}(...) is built without deriving `{sw}` from `lazy`: the class default (values pickled) applies to lazy pipelines too, every cache hit returns a COPY of the deferred node "
                    "and a producer shared by two requests is evaluated once per copy instead of exactly once", f"how `{sw}` is set for {norm(r.value.func)} was not recognised", key=f"unshared-when-lazy {norm(r.value.func)}.{sw}")
    ctx.floor("3-shared.cache-switches", n, 3)


def check(ctx: Ctx) -> None:
    for rule in (rule_deferred, rule_memo, rule_deferred_objects_are_storable, rule_recursion, rule_dag, rule_identity_preserving_cache):
        ctx.run(rule)


L, B, PF = "pipefunc/lazy.py", "pipefunc/_pipeline/_base.py", "pipefunc/_pipefunc.py"
MUTANTS = [
    Mutant("lazy-node-holds-a-lock", L, "        self._id = _LazyFunction._counter\n", "        self._id = _LazyFunction._counter\n        self._lock = threading.RLock()\n", ("C18.2-memo",), why="round-8 seed C18/22"),
    Mutant("shared-mutable-default", "pipefunc/lazy.py", "def evaluate_lazy(x: Any) -> Any:\n", "def evaluate_lazy(x: Any, _seen: list = []) -> Any:  # noqa: B006\n    _seen.append(id(x))\n", ("C18.5-dag",), why="round-6 seed C18/17 (the rule's expected count is zero: this is its positive example)"),
    Mutant("cache-update-forces", "pipefunc/_pipeline/_cache.py", "    # Used in _run\n    if isinstance(cache, HybridCache):\n", "    # Used in _run\n    from pipefunc.lazy import evaluate_lazy\n\n    evaluate_lazy(r)\n    if isinstance(cache, HybridCache):\n", ("C18.1-deferred",), why="round-6 seed C18/16"),
    Mutant("containers-by-isinstance-F42", "pipefunc/lazy.py", "    if container_type is tuple:\n", "    if isinstance(x, tuple):\n", ("C18.4-recursion",), why="original F42"),
    Mutant("disk-cache-pickles-lazy-nodes", "pipefunc/_pipeline/_cache.py", "        cache_kwargs.setdefault(\"lru_shared\", not lazy)\n", "", ("C18.3-shared",), why="round-4 seed C18/11"),
    Mutant("evaluate-skips-resolution-for-pipefuncs", "pipefunc/lazy.py", "        args = evaluate_lazy(self.args)\n        kwargs = evaluate_lazy(self.kwargs)\n", "        if hasattr(self.func, \"output_name\"):\n            args, kwargs = self.args, self.kwargs\n        else:\n            args = evaluate_lazy(self.args)\n            kwargs = evaluate_lazy(self.kwargs)\n", ("C18.2-memo",), why="round-4 seed C18/10"),
    Mutant("lazy-arm-runs", B, "    if lazy:\n        return _LazyFunction(func, kwargs=func_args)\n", "    if lazy:\n        return _LazyFunction(lambda r=func(**func_args): r)\n", ("C18.1-deferred",)),
    Mutant("picker-forced", B, "                _LazyFunction(func.output_picker, args=(r, name))\n                if lazy\n                else func.output_picker(r, name)\n", "                func.output_picker(r.evaluate() if lazy else r, name)\n", ("C18.1-deferred", "C18.3-shared")),
    Mutant("flag-before-call", L, "        result = self.func(*args, **kwargs)\n        self._result = result\n        self._evaluated = True\n", "        self._evaluated = True\n        result = self.func(*args, **kwargs)\n        self._result = result\n", ("C18.2-memo",)),
    Mutant("no-early-return", L, "        if self._evaluated:\n            return self._result\n", "", ("C18.2-memo",)),
    Mutant("flag-never-set", L, "        self._result = result\n        self._evaluated = True\n", "        self._result = result\n", ("C18.2-memo",)),
    Mutant("kwargs-not-resolved", L, "        kwargs = evaluate_lazy(self.kwargs)\n", "        kwargs = self.kwargs\n", ("C18.2-memo",)),
    Mutant("no-set-recursion", L, "    if container_type is set:\n        return {evaluate_lazy(v) for v in x}\n", "", ("C18.4-recursion",)),
    Mutant("call-kwargs-only", PF, "                args = evaluate_lazy(args)\n                kwargs = evaluate_lazy(kwargs)\n", "                kwargs = evaluate_lazy(kwargs)\n", ("C18.4-recursion",)),
    Mutant("edges-kwargs-only", L, "            for arg in self.args:\n                add_edge(arg)\n\n", "", ("C18.5-dag",)),
    Mutant("edge-reversed", L, "                    _TASK_GRAPH.graph.add_edge(arg._id, self._id)\n", "                    _TASK_GRAPH.graph.add_edge(self._id, arg._id)\n", ("C18.5-dag",)),
    Mutant("no-finally-reset", L, "    try:\n        yield _TASK_GRAPH\n    finally:\n        _TASK_GRAPH = None\n", "    yield _TASK_GRAPH\n    _TASK_GRAPH = None\n", ("C18.5-dag",)),
    Mutant("counter-reset-per-graph", L, "    global _TASK_GRAPH\n    _TASK_GRAPH = TaskGraph(nx.DiGraph(), {}, SimpleCache())\n", "    global _TASK_GRAPH\n    _LazyFunction._counter = 0\n    _TASK_GRAPH = TaskGraph(nx.DiGraph(), {}, SimpleCache())\n", ("C18.5-dag",), why="seeded C18/2"),
    Mutant("twin-evaluate-inline", L, "        result = self.func(*args, **kwargs)\n        self._result = result\n", "        result = self.func(*args, **kwargs)\n        self._result = result  # memoise\n", twin=True),
]
