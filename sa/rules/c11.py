"""C11 - selecting outputs / supplying intermediates keeps values and runs only needed work (structural clauses).

  1 closure   the kept set of subpipeline is the backward closure of the requested outputs, cut at the supplied names:
              a worklist over graph.predecessors that stops at input nodes; no forward-reachability intersection and no
              subtraction of "everything upstream of a supplied name"
  2 order     prepare_run flattens scoped inputs first, restricts the pipeline next, and only then validates
              completeness and creates the run; the restricted pipeline replaces the original binding
  3 message   uncomputable requests are rejected with the computed set of missing names; defaults count as available
  4 forward   Pipeline.map / map_async forward every parameter (output_names, auto_subpipeline, ...) to the drivers,
              which iterate the generations of the pipeline returned by prepare_run
"""

from __future__ import annotations

import ast

from ..cfg import header_parts
from ..loader import AnalysisError, dotted, norm, walk_no_nested
from ..report import Ctx
from ..selftest import Mutant

PROP = "C11"
BASE = "pipefunc._pipeline._base"
EXPLANATION = (
    "Static analysis: shape of the graph selection in _find_nodes_between (worklist over predecessors with a cut at the "
    "supplied nodes, absence of forward-reachability set algebra), CFG dominance of the restriction over validation and "
    "run creation in prepare_run, def-use of the names interpolated into the rejection messages, and parameter-forwarding "
    "completeness of the public map entry points."
)
TRUSTED = ["CPython ast parser", "networkx DiGraph.predecessors"]
DECLINED = ["value equality with the full pipeline; minimality of the kept set for every DAG (value-level)"]


def check(ctx: Ctx) -> None:  # noqa: C901, PLR0915
    P = ctx.prog
    # ------------------------------------------------------------ 1 closure
    fb = P.func(f"{BASE}._find_nodes_between")
    calls = [dotted(c.func) for c in ast.walk(fb.node) if isinstance(c, ast.Call)]
    fwd = [c for c in calls if c.endswith("descendants") or c.endswith("successors")]
    ctx.add("1-closure", fb, fb.node, not fwd, "no forward reachability from the supplied names is involved" if not fwd else
            f"the kept set involves {fwd}: needed functions that do not descend from a supplied input (nullary, all-defaults, all-bound) are dropped", key="no-forward")
    loops = [lp for lp in walk_no_nested(fb.node) if isinstance(lp, (ast.While, ast.For))]
    preds = [c for lp in loops for c in ast.walk(lp) if isinstance(c, ast.Call) and norm(c.func) == "graph.predecessors"]
    ok = bool(preds)
    ctx.add("1-closure", fb, preds[0] if preds else fb.node, ok, "walks graph.predecessors from the outputs" if ok else "the selection is not a predecessor walk from the requested outputs", key="backward-walk")
    cuts = [s for lp in loops for s in ast.walk(lp) if isinstance(s, ast.If) and "input_nodes" in norm(s.test) and any(isinstance(b, ast.Continue) for b in s.body)]
    ok = bool(cuts) and "node in input_nodes" in norm(cuts[0].test)
    ctx.add("1-closure", fb, cuts[0] if cuts else fb.node, ok, "the walk stops at a supplied node (its producers are not needed through it)" if ok else "the walk does not stop at supplied nodes", key="cut-at-inputs")
    setalg = [b for b in ast.walk(fb.node) if isinstance(b, ast.BinOp) and isinstance(b.op, (ast.Sub, ast.BitAnd))] + [c for c in ast.walk(fb.node) if isinstance(c, ast.Call) and isinstance(c.func, ast.Attribute) and c.func.attr in ("difference", "intersection", "difference_update", "intersection_update")]
    anc = [c for c in calls if c.endswith("ancestors")]
    ok = not setalg and not anc
    ctx.add("1-closure", fb, (setalg or [fb.node])[0], ok, "no set subtraction/intersection over whole ancestor sets" if ok else
            "the kept set is computed by set algebra over ancestor sets: a function upstream of a supplied name that is also needed through another path is dropped", key="no-set-algebra")
    seed = [s for s in walk_no_nested(fb.node) if isinstance(s, ast.Assign) and "output_nodes" in norm(s.value)]
    ok = bool(seed)
    ctx.add("1-closure", fb, seed[0] if seed else fb.node, ok, "the walk starts from the requested outputs" if ok else "the walk does not start from output_nodes", key="seed")
    sp = P.func(f"{BASE}.Pipeline.subpipeline")
    src = norm(sp.node)
    ok = "between = _find_nodes_between(pipeline.graph, input_nodes, output_nodes)" in src and "drop = [f for f in pipeline.functions if f not in between]" in src and "pipeline.drop(f=f)" in src
    ctx.add("1-closure", sp, sp.node, ok, "functions outside the closure are dropped from a copy" if ok else "subpipeline no longer drops exactly the functions outside _find_nodes_between", key="drop")
    ok = "pipeline = self.copy()" in src and src.rstrip().endswith("return pipeline")
    ctx.add("1-closure", sp, sp.node, ok, "works on a copy, the original pipeline is untouched" if ok else "subpipeline mutates the original pipeline", key="copy")
    ok = "{pipeline.node_mapping[n] for n in inputs}" in src and "{pipeline.node_mapping[n] for n in output_names}" in src
    ctx.add("1-closure", sp, sp.node, ok, "names are mapped to graph nodes through node_mapping" if ok else "inputs / outputs are no longer resolved through node_mapping", key="node-mapping")

    # ------------------------------------------------------------ 2 order
    prep = P.func("pipefunc.map._prepare.prepare_run")
    cfg = ctx.cfg(prep)

    def nodes_calling(name: str) -> list[int]:
        return cfg.nodes(lambda s: any(isinstance(c, ast.Call) and dotted(c.func).rsplit(".", 1)[-1] == name for part in header_parts(s) for c in ast.walk(part)))

    flat, sub, comp, create = nodes_calling("_flatten_scopes"), nodes_calling("subpipeline"), nodes_calling("_validate_complete_inputs"), nodes_calling("create")
    if not (flat and sub and comp and create):
        raise AnalysisError("prepare_run: expected calls of _flatten_scopes, subpipeline, _validate_complete_inputs and RunInfo.create")
    ok = cfg.dominates(flat[0], sub[0]) and norm(cfg.stmt[flat[0]]) == "inputs = pipeline._flatten_scopes(inputs)"
    ctx.add("2-order", prep, cfg.stmt[flat[0]], ok, "scoped inputs are flattened before they select the sub-pipeline" if ok else "subpipeline(set(inputs), ...) sees unflattened scope dicts: nested-scope inputs raise KeyError", key="flatten-first")
    st = cfg.stmt[sub[0]]
    ok = isinstance(st, ast.Assign) and norm(st.targets[0]) == "pipeline" and norm(st.value) == "pipeline.subpipeline(set(inputs), output_names)"
    ctx.add("2-order", prep, st, ok, "the restricted pipeline replaces the binding that all later steps use" if ok else f"`{norm(st)[:70]}`: the restriction is not what later steps use (or is built from other arguments)", key="rebinding")
    par = {id(c): p for p in ast.walk(prep.node) for c in ast.iter_child_nodes(p)}
    g = par.get(id(st))
    ok = isinstance(g, ast.If) and norm(g.test) == "auto_subpipeline or output_names is not None"
    ctx.add("2-order", prep, g if isinstance(g, ast.If) else st, ok, "restricted whenever outputs are selected or auto_subpipeline is set" if ok else "the restriction is applied under another condition", key="condition")
    ok = not any(n in cfg.reachable_from(c) for c in comp + create for n in sub)
    ok = ok and all(s not in cfg.reachable_from(c) for c in comp for s in sub)
    before = all(cfg.dominates(gn, c) for c in comp + create for gn in [cfg.node(g)] if isinstance(g, ast.If))
    ctx.add("2-order", prep, cfg.stmt[comp[0]], ok and before, "completeness check and run creation come after the restriction" if ok and before else "inputs are validated (or the run is created) against the unrestricted pipeline", key="restrict-before-validate")

    # ------------------------------------------------------------ 3 message
    raises = [r for r in ast.walk(sp.node) if isinstance(r, ast.Raise)]
    msgs = " ".join(norm(s) for s in ast.walk(sp.node) if isinstance(s, ast.Assign) and norm(s.targets[0]) == "msg")
    ok = len(raises) >= 2 and "{new_root_args}" in msgs and "new_root_args = set(pipeline.topological_generations.root_args)" in src
    ctx.add("3-message", sp, raises[-1] if raises else sp.node, ok, "the rejection names the root arguments that would be required" if ok else "the rejection of an uncomputable request no longer names what is missing", key="subpipeline-message")
    chk = [s for s in ast.walk(sp.node) if isinstance(s, ast.If) and "new_root_args" in norm(s.test)]
    ok = bool(chk) and norm(chk[0].test) == "not (new_root_args - set(pipeline.defaults)).issubset(inputs)"
    ctx.add("3-message", sp, chk[0] if chk else sp.node, ok, "root arguments with a default count as available" if ok else "the computability test ignores defaults (or is weaker than root_args - defaults <= inputs)", key="defaults-available")
    vc = P.func("pipefunc.map._prepare._validate_complete_inputs")
    s2 = norm(vc.node)
    walrus = {norm(n.target): norm(n.value) for s_ in vc.node.body if isinstance(s_, ast.If) for n in ast.walk(s_.test) if isinstance(n, ast.NamedExpr)}
    ok = walrus.get("missing") == "root_args - set(inputs_with_defaults)" and walrus.get("extra") == "set(inputs_with_defaults) - root_args" and "{missing_args}" in s2 and "{extra_args}" in s2 and s2.count("raise ValueError") == 2
    ctx.add("3-message", vc, vc.node, ok, "missing and surplus inputs are rejected by name" if ok else "_validate_complete_inputs no longer rejects (and names) missing / surplus inputs", key="complete-inputs")
    ok = "inputs_with_defaults = set(inputs) | set(pipeline.defaults)" in s2 and "root_args = set(pipeline.topological_generations.root_args)" in s2
    ctx.add("3-message", vc, vc.node, ok, "available = supplied inputs plus defaults; required = root arguments of the (restricted) pipeline" if ok else "the sets compared by _validate_complete_inputs changed", key="sets")

    # ------------------------------------------------------------ 4 forward
    for meth, target in (("map", "run_map"), ("map_async", "run_map_async")):
        f = P.func(f"{BASE}.Pipeline.{meth}")
        c = [c for c in ast.walk(f.node) if isinstance(c, ast.Call) and dotted(c.func) == target]
        if not c:
            raise AnalysisError(f"Pipeline.{meth}: call of {target} not found")
        passed = {norm(a) for a in c[0].args} | {k.arg for k in c[0].keywords if k.arg and norm(k.value) == k.arg}
        params = [p for p in f.param_names() if p != "self"]
        missing = [p for p in params if p not in passed]
        ok = not missing and "self" in passed
        ctx.add("4-forward", f, c[0], ok, f"all {len(params)} parameters are forwarded unchanged to {target}" if ok else f"Pipeline.{meth} does not forward {missing} to {target}: the request is silently widened/ignored", key=f"forward {meth}")
        drv = P.func(f"pipefunc.map._run.{target}")
        dparams = [p for p in drv.param_names() if p != "pipeline"]
        ok = set(params) == set(dparams)
        ctx.add("4-forward", drv, drv.node, ok, "driver and method have the same parameters" if ok else f"parameters differ: {set(params) ^ set(dparams)}", key=f"params {meth}")
    for q in ("pipefunc.map._run.run_map", "pipefunc.map._run.run_map_async"):
        f = P.func(q)
        asg = [s for s in walk_no_nested(f.node) if isinstance(s, ast.Assign) and "prepare_run(" in norm(s.value)]
        ok = bool(asg) and isinstance(asg[0].targets[0], ast.Tuple) and norm(asg[0].targets[0].elts[0]) == "pipeline"
        ctx.add("4-forward", f, asg[0] if asg else f.node, ok, "the driver continues with the pipeline returned by prepare_run" if ok else "the driver keeps using the unrestricted pipeline", key="uses-restricted")
    ret = [r for r in walk_no_nested(prep.node) if isinstance(r, ast.Return)][-1]
    ok = norm(ret.value).startswith("(pipeline, run_info, store, outputs, parallel, executor, progress)")
    ctx.add("4-forward", prep, ret, ok, "prepare_run returns the restricted pipeline first" if ok else "prepare_run return tuple changed", key="returns-restricted")


B, PR = "pipefunc/_pipeline/_base.py", "pipefunc/map/_prepare.py"
MUTANTS = [
    Mutant("closure-original-F32", B,
           "    between: set[Any] = set()\n    stack = list(output_nodes)\n    while stack:\n        node = stack.pop()\n        if node in between or node in input_nodes:\n            continue\n        between.add(node)\n        stack.extend(graph.predecessors(node))\n    return between\n",
           "    reachable_from_inputs = set()\n    for input_node in input_nodes:\n        reachable_from_inputs.update(nx.descendants(graph, input_node))\n    reachable_to_outputs = set()\n    for output_node in output_nodes:\n        reachable_to_outputs.update(nx.ancestors(graph, output_node))\n    reachable_to_outputs.update(output_nodes)\n    return reachable_from_inputs & reachable_to_outputs\n", ("C11.1-closure",), why="original F32"),
    Mutant("closure-ancestor-subtraction", B,
           "    between: set[Any] = set()\n    stack = list(output_nodes)\n    while stack:\n        node = stack.pop()\n        if node in between or node in input_nodes:\n            continue\n        between.add(node)\n        stack.extend(graph.predecessors(node))\n    return between\n",
           "    needed: set[Any] = set(output_nodes)\n    for output_node in output_nodes:\n        needed.update(nx.ancestors(graph, output_node))\n    provided: set[Any] = set(input_nodes)\n    for input_node in input_nodes:\n        provided.update(nx.ancestors(graph, input_node))\n    return needed - provided\n", ("C11.1-closure",), why="seeded C11/1"),
    Mutant("closure-no-cut", B, "        if node in between or node in input_nodes:\n            continue\n", "        if node in between:\n            continue\n", ("C11.1-closure",)),
    Mutant("flatten-after-subpipeline", PR, "    inputs = pipeline._flatten_scopes(inputs)\n    if auto_subpipeline or output_names is not None:\n        pipeline = pipeline.subpipeline(set(inputs), output_names)\n",
           "    if auto_subpipeline or output_names is not None:\n        pipeline = pipeline.subpipeline(set(inputs), output_names)\n    inputs = pipeline._flatten_scopes(inputs)\n", ("C11.2-order",), why="seeded C11/2"),
    Mutant("restrict-after-validate", PR, "    if auto_subpipeline or output_names is not None:\n        pipeline = pipeline.subpipeline(set(inputs), output_names)\n    if executor is not None and not isinstance(executor, dict):",
           "    _validate_complete_inputs(pipeline, inputs)\n    if auto_subpipeline or output_names is not None:\n        pipeline = pipeline.subpipeline(set(inputs), output_names)\n    if executor is not None and not isinstance(executor, dict):", ("C11.2-order",)),
    Mutant("restriction-discarded", PR, "        pipeline = pipeline.subpipeline(set(inputs), output_names)\n", "        _sub = pipeline.subpipeline(set(inputs), output_names)\n", ("C11.2-order",)),
    Mutant("defaults-not-available-F32b", B, "            if not (new_root_args - set(pipeline.defaults)).issubset(inputs):\n", "            if not new_root_args.issubset(inputs):\n", ("C11.3-message",), why="original F32b"),
    Mutant("message-constant", B, "                    f\" and `{inputs=}`, it would require `{new_root_args}`.\"\n", "                    f\" and `{inputs=}`.\"\n", ("C11.3-message",)),
    Mutant("map-async-drops-output-names", B, "            internal_shapes=internal_shapes,\n            output_names=output_names,\n            executor=executor,\n            storage=storage,\n", "            internal_shapes=internal_shapes,\n            executor=executor,\n            storage=storage,\n", ("C11.4-forward",), why="seeded C11/3"),
    Mutant("driver-keeps-original-pipeline", "pipefunc/map/_run.py", "    pipeline, run_info, store, outputs, parallel, executor, progress = prepare_run(", "    _pipeline, run_info, store, outputs, parallel, executor, progress = prepare_run(", ("C11.4-forward",)),
    Mutant("twin-stack-renamed", B, "    stack = list(output_nodes)\n    while stack:\n        node = stack.pop()\n", "    stack = list(output_nodes)  # worklist\n    while stack:\n        node = stack.pop()\n", twin=True),
]
