"""C11 - selecting outputs / supplying intermediates keeps values and runs only needed work (structural clauses).

  1 closure   the kept set of subpipeline is the backward closure of the requested outputs, cut at the supplied names:
              a worklist over graph.predecessors that stops at input nodes; no forward-reachability intersection and no
              subtraction of "everything upstream of a supplied name"
  2 order     prepare_run flattens scoped inputs first, restricts the pipeline next, and only then validates
              completeness and creates the run; the restricted pipeline replaces the original binding
  3 message   uncomputable requests are rejected with the computed set of missing names; defaults count as available
  4 forward   Pipeline.map / map_async forward every parameter (output_names, auto_subpipeline, ...) to the drivers,
              which iterate the generations of the pipeline returned by prepare_run
"""

from __future__ import annotations

import ast
import re

from ..cfg import header_parts
from ..flow import Defs, Scope, arg, guard_facts, iterations, rejections
from ..loader import AnalysisError, dotted, norm, walk_no_nested
from ..report import Ctx
from ..selftest import Mutant

PROP = "C11"
TECHNIQUE = "static analysis: shape analysis of the graph selection (guard facts of the predecessor expansion, forbidden forward/set-algebra operations) + CFG ordering in prepare_run (helper-aware) + parameter-forwarding completeness + name-kind rule (str result names vs OUTPUT_TYPE requests, via the annotation typer) + empty-vs-None guard rule + every pipeline-taking validator after the restriction + cut-set rules (nothing removed, nothing unsupplied added) + typed set algebra between single and whole names + whole-restriction validation + per-output settings tolerate the restriction"
BASE = "pipefunc._pipeline._base"
EXPLANATION = (
    "Static analysis: shape of the graph selection in _find_nodes_between (worklist over predecessors with a cut at the "
    "supplied nodes, absence of forward-reachability set algebra), CFG dominance of the restriction over validation and "
    "run creation in prepare_run, def-use of the names interpolated into the rejection messages, and parameter-forwarding "
    "completeness of the public map entry points."
)
TRUSTED = ["CPython ast parser", "networkx DiGraph.predecessors"]
DECLINED = ["value equality with the full pipeline; minimality of the kept set for every DAG (value-level)"]


def rule_closure(ctx: Ctx) -> None:
    P = ctx.prog
    fb = P.func(f"{BASE}._find_nodes_between")
    sc = Scope(ctx, fb)
    calls = [dotted(c.func) for _f, c in sc.walk() if isinstance(c, ast.Call)]
    fwd = [c for c in calls if c.endswith("descendants") or c.endswith("successors")]
    ctx.add("1-closure", fb, fb.node, not fwd, "no forward reachability from the supplied names is involved" if not fwd else
            f"the kept set involves {fwd}: needed functions that do not descend from a supplied input (nullary, all-defaults, all-bound) are dropped", key="no-forward")
    cfg = ctx.cfg(fb)
    exp = cfg.nodes(lambda s: not isinstance(s, (ast.If, ast.While, ast.For)) and any(isinstance(c, ast.Call) and isinstance(c.func, ast.Attribute) and c.func.attr == "predecessors" for c in ast.walk(s)))
    ctx.tri("1-closure", fb, cfg.stmt[exp[0]] if exp else fb.node, bool(exp), False, "walks graph.predecessors from the outputs", "", "no predecessor expansion found", key="backward-walk")
    inp = fb.param_names()[1] if len(fb.param_names()) > 1 else "input_nodes"
    if exp:
        facts = guard_facts(cfg, Defs(fb), exp[0])
        cut = any(re.fullmatch(rf"\w+ in {re.escape(inp)}", t) and not pol for t, pol in facts)
        mentioned = any(isinstance(x, ast.Name) and x.id == inp for x in ast.walk(fb.node) if isinstance(x, ast.Name) and isinstance(x.ctx, ast.Load))
        ctx.tri("1-closure", fb, cfg.stmt[exp[0]], cut, not mentioned, "the walk stops at a supplied node (its producers are not needed through it)",
                f"`{inp}` is never consulted: the walk does not stop at supplied nodes and the producers of supplied values are kept (and demanded as inputs)", "the cut at the supplied nodes was not recognised", key="cut-at-inputs")
    setalg = [b_ for _f, b_ in sc.walk() if isinstance(b_, ast.BinOp) and isinstance(b_.op, (ast.Sub, ast.BitAnd))] + [c for _f, c in sc.walk() if isinstance(c, ast.Call) and isinstance(c.func, ast.Attribute) and c.func.attr in ("difference", "intersection", "difference_update", "intersection_update")]
    anc = [c for c in calls if c.endswith("ancestors")]
    ok = not setalg and not anc
    ctx.add("1-closure", fb, (setalg or [fb.node])[0], ok, "no set subtraction/intersection over whole ancestor sets" if ok else
            "the kept set is computed by set algebra over ancestor sets: a function upstream of a supplied name that is also needed through another path is dropped", key="no-set-algebra")
    sp = P.func(f"{BASE}.Pipeline.subpipeline")
    ssc = Scope(ctx, sp)
    self_mut = [c for _f, c in ssc.walk() if isinstance(c, ast.Call) and isinstance(c.func, ast.Attribute) and ((norm(c.func.value) == "self" and c.func.attr in ("drop", "add", "replace")) or (norm(c.func.value) == "self.functions" and c.func.attr in ("remove", "pop", "clear", "append")))]
    copies = [c for _f, c in ssc.walk() if isinstance(c, ast.Call) and norm(c.func) == "self.copy"]
    ctx.tri("1-closure", sp, (self_mut or copies or [sp.node])[0], bool(copies) and not self_mut, bool(self_mut), "works on a copy, the original pipeline is untouched",
            f"`{norm(self_mut[0])[:50] if self_mut else ''}` changes the pipeline that subpipeline was called on", "no self.copy() found", key="copy")
    d_sp = Defs(sp)
    stale = []
    for r in [r for r in walk_no_nested(sp.node) if isinstance(r, ast.Return) and r.value is not None]:
        v = d_sp.resolve(r.value)
        v = v.value if isinstance(v, ast.NamedExpr) else v
        t = norm(v)
        if any(isinstance(x, (ast.Subscript, ast.Call)) and ("_internal_cache" in norm(x) or re.search(r"self\._\w*(cache|memo|subpipelines)\w*", norm(x))) for x in ast.walk(v)) or re.fullmatch(r"self(\._\w+)+(\[.*\]|\.get\(.*\))", t):
            stale.append(r)
    stored = [s_ for s_ in ast.walk(sp.node) if isinstance(s_, ast.Assign) and any(isinstance(t_, ast.Subscript) and "self." in norm(t_.value) for t_ in s_.targets)]
    ctx.add("1-closure", sp, (stale or stored or [sp.node])[0], not stale and not stored, "every call returns a newly built pipeline" if not stale and not stored else
            "subpipeline keeps / hands out a pipeline object it has returned before: a caller that modifies its sub-pipeline (defaults, drop, ...) changes what later restricted runs compute", key="fresh-result")
    # the restriction is validated as a WHOLE: removing the unneeded functions one at a time through a method that validates after
    # every removal judges pipelines that are neither the original nor the request (two consumers with different defaults for a
    # name that one of the already-removed functions produced)
    pl_cls = P.cls(f"{BASE}.Pipeline")

    def self_calls(node: ast.AST, recv: str) -> list[ast.Call]:
        return [c for c in ast.walk(node) if isinstance(c, ast.Call) and isinstance(c.func, ast.Attribute) and norm(c.func.value) == recv and c.func.attr in dict.keys(pl_cls.methods)]

    validating = {"_validate"}
    grew = True
    while grew:
        grew = False
        for nm, m in dict.items(pl_cls.methods):
            if nm not in validating and any(c.func.attr in validating for c in self_calls(m.node, "self")):
                validating.add(nm)
                grew = True
    copies_ = {t.id for a_ in walk_no_nested(sp.node) if isinstance(a_, ast.Assign) and isinstance(a_.value, ast.Call) and norm(a_.value.func) == "self.copy" for t in a_.targets if isinstance(t, ast.Name)}
    stepwise = [c for lp in walk_no_nested(sp.node) if isinstance(lp, (ast.For, ast.While)) for recv in copies_ for c in self_calls(lp, recv) if c.func.attr in validating]
    ctx.add("1-closure", sp, stepwise[0] if stepwise else sp.node, not stepwise, "the restricted pipeline is validated once, as a whole" if not stepwise else
            f"`{norm(stepwise[0])[:50]}` (in a loop) validates the pipeline after every single removal: a half-restricted pipeline can be invalid although the request is fine - "
            "with y = f(x), zg = g(y=1), zh = h(y=2) the request subpipeline({'y'}, {'zg'}) is refused for \"inconsistent defaults\" of y whenever f is removed before h", key="validated-as-a-whole")
    uses = bool(ssc.calls("_find_nodes_between"))
    ctx.tri("1-closure", sp, sp.node, uses, False, "the kept set comes from _find_nodes_between", "", "_find_nodes_between is not called from subpipeline", key="drop")


def rule_order(ctx: Ctx) -> None:
    P = ctx.prog
    prep = P.func("pipefunc.map._prepare.prepare_run")
    cfg = ctx.cfg(prep)
    helpers = {f.name: f for f in Scope(ctx, prep).funcs[1:]}

    def nodes_calling(name: str) -> list[int]:
        def hit(s: ast.AST) -> bool:
            for part in header_parts(s):
                for c in ast.walk(part):
                    if not isinstance(c, ast.Call):
                        continue
                    last = dotted(c.func).rsplit(".", 1)[-1] if dotted(c.func) else (c.func.attr if isinstance(c.func, ast.Attribute) else "")
                    if last == name:
                        return True
                    if last in helpers and any(isinstance(x, ast.Call) and (dotted(x.func).rsplit(".", 1)[-1] if dotted(x.func) else getattr(x.func, "attr", "")) == name for x in ast.walk(helpers[last].node)):
                        return True
            return False
        return cfg.nodes(hit)

    flat, sub, comp, create = nodes_calling("_flatten_scopes"), nodes_calling("subpipeline"), nodes_calling("_validate_complete_inputs"), nodes_calling("create")
    if not (flat and sub and comp and create):
        raise AnalysisError("prepare_run: expected calls of _flatten_scopes, subpipeline, _validate_complete_inputs and RunInfo.create")
    ok = cfg.dominates(flat[0], sub[0])
    ctx.add("2-order", prep, cfg.stmt[flat[0]], ok, "scoped inputs are flattened before they select the sub-pipeline" if ok else "subpipeline(set(inputs), ...) sees unflattened scope dicts: nested-scope inputs raise KeyError", key="flatten-first")
    st = cfg.stmt[sub[0]]
    bound = [x.id for t in (st.targets if isinstance(st, ast.Assign) else [getattr(st, "target", None)]) if t is not None for x in ast.walk(t) if isinstance(x, ast.Name)] if isinstance(st, (ast.Assign, ast.AnnAssign)) else []
    later = cfg.reachable_from(sub[0]) - {sub[0]}
    used = any(isinstance(x, ast.Name) and x.id in bound and isinstance(x.ctx, ast.Load) for n in later if cfg.stmt.get(n) is not None for part in header_parts(cfg.stmt[n]) for x in ast.walk(part))
    ctx.tri("2-order", prep, st, bool(bound) and used, isinstance(st, ast.Expr) or (bool(bound) and not used), "the restricted pipeline is bound to a name that the later steps use",
            f"`{norm(st)[:70]}`: the restricted pipeline is discarded, all later steps use the full pipeline", "binding of the restricted pipeline not recognised", key="rebinding")
    sub_calls = [c for c in ast.walk(prep.node) if isinstance(c, ast.Call) and isinstance(c.func, ast.Attribute) and c.func.attr == "subpipeline"]
    for c in sub_calls:
        a0 = arg(c, 0, "inputs")
        if a0 is None:
            ctx.add("2-order", prep, c, False, "prepare_run restricts the pipeline without passing the supplied inputs: an interior cut (supplied intermediate) is ignored and its producers are demanded", key="inputs-passed")
            continue
        r0 = Defs(prep).resolve(a0)
        conditional = isinstance(r0, ast.IfExp) and any(isinstance(arm, ast.Constant) and arm.value is None for arm in (r0.body, r0.orelse))
        ctx.tri("2-order", prep, c, "inputs" in norm(r0) and not conditional, conditional, "the supplied inputs always take part in the restriction",
                f"`{norm(r0)[:60]}`: the supplied inputs are only passed on under a condition; otherwise a supplied intermediate does not cut the pipeline and its producers' inputs are reported missing", key="inputs-passed")
    # every validator that is handed `pipeline` judges the request against the RESTRICTED pipeline (fixed_indices, axes, slurm executor
    # ... as well as the completeness of the inputs): none of them may run before the restriction rebinds the name
    others = []
    for n_ in cfg.nodes(lambda s_: isinstance(s_, ast.Expr) and isinstance(s_.value, ast.Call)):
        c_ = cfg.stmt[n_].value
        nm_ = dotted(c_.func).rsplit(".", 1)[-1]
        if nm_.startswith(("_validate", "validate")) and any(isinstance(x, ast.Name) and x.id in bound for a_ in [*c_.args, *[k.value for k in c_.keywords]] for x in ast.walk(a_)):
            others.append(n_)
    comp = sorted(set(comp) | set(others))
    late = [n for n in sub if any(n in cfg.reachable_from(c) for c in comp + create)]
    ctx.add("2-order", prep, cfg.stmt[(late or comp)[0]], not late, "every validator that looks at the pipeline, and the run creation, come after the restriction" if not late else "the request (inputs / fixed_indices / axes) is validated - or the run created - against the UNrestricted pipeline, the restriction happens afterwards: valid restricted requests are refused because of functions that are not part of them, invalid ones slip through", key="restrict-before-validate")


def rule_message(ctx: Ctx) -> None:
    P = ctx.prog
    sp = P.func(f"{BASE}.Pipeline.subpipeline")
    ssc = Scope(ctx, sp)
    rj = [r for f_ in ssc.funcs for r in rejections(ctx.cfg(f_), f_.node) if not r["dead"]]
    ctx.tri("3-message", sp, rj[-1]["node"] if rj else sp.node, len(rj) >= 2, len(rj) == 0, "uncomputable requests are rejected", "subpipeline never rejects an uncomputable request", f"{len(rj)} rejection(s)", key="subpipeline-message")
    defaults_used = ".defaults" in ssc.text()
    ctx.tri("3-message", sp, sp.node, defaults_used and any(".defaults" in c or "defaults" in c for r in rj for c in r["conds"]), not defaults_used, "root arguments with a default count as available",
            "the computability test never looks at the defaults: requests that only need defaulted arguments are rejected", "use of the defaults in the test not recognised", key="defaults-available")
    # an EMPTY set of provided inputs is a legal request ("what can be computed from defaults alone?"): the rejection may only
    # be skipped when `inputs` is None, not when it is empty
    ip = [p_.arg for p_ in sp.params if p_.annotation is not None and "None" in norm(p_.annotation) and norm(p_.annotation).startswith(("set", "Set", "Iterable", "frozenset"))]
    if ip and rj:
        name = ip[0]
        truthy = [r for r in rj if any(c_ in (name, f"not {name}") for c_ in r["conds"])]
        by_none = [r for r in rj if any(f"{name} is None" in c_ or f"{name} is not None" in c_ for c_ in r["conds"])]
        ctx.tri("3-message", sp, truthy[0]["node"] if truthy else rj[-1]["node"], bool(by_none) and not truthy, bool(truthy), f"the computability check runs whenever `{name}` is given, also when it is empty",
                f"the rejection is guarded by the truthiness of `{name}`: with an empty input set the check is skipped and an uncomputable sub-pipeline is returned", f"guard on `{name}` not recognised", key="empty-inputs-checked")
    vc = P.func("pipefunc.map._prepare._validate_complete_inputs")
    vsc = Scope(ctx, vc)
    rj = [r for f_ in vsc.funcs for r in rejections(ctx.cfg(f_), f_.node) if not r["dead"]]
    ctx.tri("3-message", vc, vc.node, len(rj) >= 2, len(rj) == 0, "missing and surplus inputs are rejected", "_validate_complete_inputs never rejects: missing inputs surface as KeyError deep inside the run", f"{len(rj)} rejection(s)", key="complete-inputs")
    ctx.tri("3-message", vc, vc.node, ".defaults" in vsc.text(), ".defaults" not in vsc.text(), "available = supplied inputs plus defaults", "defaults do not count as available inputs: valid calls that rely on defaults are rejected", key="sets")


def rule_forward(ctx: Ctx) -> None:
    P = ctx.prog
    for meth, target in (("map", "run_map"), ("map_async", "run_map_async")):
        f = P.func(f"{BASE}.Pipeline.{meth}")
        c = [c for c in ast.walk(f.node) if isinstance(c, ast.Call) and dotted(c.func) == target]
        if not c:
            ctx.add("4-forward", f, f.node, None, f"UNDECIDED: call of {target} not found", key=f"forward {meth}")
            continue
        d = Defs(f)
        passed = {norm(d.resolve(a)) for a in c[0].args} | {k.arg for k in c[0].keywords if k.arg and norm(d.resolve(k.value)) == k.arg}
        altered = [k.arg for k in c[0].keywords if k.arg and norm(d.resolve(k.value)) != k.arg and k.arg in f.param_names()]
        params = [p_ for p_ in f.param_names() if p_ != "self"]
        missing = [p_ for p_ in params if p_ not in passed and p_ not in altered]
        ctx.tri("4-forward", f, c[0], not missing and not altered, bool(missing), f"all {len(params)} parameters are forwarded unchanged to {target}",
                f"Pipeline.{meth} does not forward {missing} to {target}: the request is silently widened/ignored", f"{altered} forwarded in altered form", key=f"forward {meth}")
    for q in ("pipefunc.map._run.run_map", "pipefunc.map._run.run_map_async"):
        f = P.func(q)
        asg = [s_ for s_ in walk_no_nested(f.node) if isinstance(s_, ast.Assign) and "prepare_run(" in norm(s_.value) and isinstance(s_.targets[0], ast.Tuple)]
        if not asg:
            ctx.add("4-forward", f, f.node, None, "UNDECIDED: unpacking of prepare_run(...) not found", key=f"uses-restricted {f.name}")
            continue
        first = norm(asg[0].targets[0].elts[0])
        gens = [norm(it["iter"]) for f_ in [f, *f.nested.values()] for it in iterations(f_.node) if "topological_generations" in norm(it["iter"])]
        ctx.tri("4-forward", f, asg[0], bool(gens) and all(g.startswith(first + ".") for g in gens), bool(gens) and not all(g.startswith(first + ".") for g in gens),
                "the driver iterates the generations of the pipeline returned by prepare_run", f"the driver iterates {gens} but prepare_run's pipeline is bound to `{first}`: the unrestricted pipeline is run", key=f"uses-restricted {f.name}")


def rule_cut_is_what_was_supplied(ctx: Ctx) -> None:
    """The cut set handed to the selection is exactly the supplied names: nothing is taken out of it (a requested name that is also
    supplied must still cut its producer away) and nothing that was NOT supplied is added to it (defaults are not supplied values:
    they make root arguments optional, they do not make the branches hanging off them part of the request)."""
    P = ctx.prog
    sp = P.func(f"{BASE}.Pipeline.subpipeline")
    d = Defs(sp)
    calls = [c for c in ast.walk(sp.node) if isinstance(c, ast.Call) and dotted(c.func).rsplit(".", 1)[-1] == "_find_nodes_between"]
    for c in calls:
        a = arg(c, 1, "input_nodes")
        if not isinstance(a, ast.Name):
            ctx.add("1-closure", sp, c, None, f"UNDECIDED: the cut set `{norm(a)[:40] if a is not None else '?'}` is not a plain local", key="cut-not-narrowed")
            continue
        shrink = []
        for n_ in walk_no_nested(sp.node):
            if isinstance(n_, ast.AugAssign) and isinstance(n_.target, ast.Name) and n_.target.id == a.id and isinstance(n_.op, (ast.Sub, ast.BitAnd)):
                shrink.append(n_)
            if isinstance(n_, ast.Call) and isinstance(n_.func, ast.Attribute) and isinstance(n_.func.value, ast.Name) and n_.func.value.id == a.id and n_.func.attr in ("difference_update", "intersection_update", "discard", "remove", "pop", "clear"):
                shrink.append(n_)
            if isinstance(n_, ast.Assign) and any(isinstance(t, ast.Name) and t.id == a.id for t in n_.targets) and isinstance(n_.value, ast.BinOp) and isinstance(n_.value.op, (ast.Sub, ast.BitAnd)) and any(isinstance(x, ast.Name) and x.id == a.id for x in ast.walk(n_.value)):
                shrink.append(n_)
        ctx.add("1-closure", sp, shrink[0] if shrink else c, not shrink, f"nothing is taken out of the cut set `{a.id}` before the selection" if not shrink else
                f"`{norm(shrink[0])[:60]}` takes nodes out of the cut set: a supplied name that is also requested no longer cuts its producer away - the producer is kept, its inputs are demanded and the request is refused "
                "(or the supplied value is rejected as an extra input)", key="cut-not-narrowed")
    prep = P.func("pipefunc.map._prepare.prepare_run")
    dp = Defs(prep)
    for c in [c for c in ast.walk(prep.node) if isinstance(c, ast.Call) and isinstance(c.func, ast.Attribute) and c.func.attr == "subpipeline"]:
        a0 = arg(c, 0, "inputs")
        if a0 is None:
            continue
        r0 = dp.resolve(a0)
        grown = [x for x in ast.walk(r0) if (isinstance(x, ast.BinOp) and isinstance(x.op, ast.BitOr)) or (isinstance(x, ast.Call) and isinstance(x.func, ast.Attribute) and x.func.attr in ("union", "update"))
                 or (isinstance(x, (ast.Set, ast.List, ast.Tuple)) and sum(isinstance(e, ast.Starred) for e in x.elts) > 1)]
        foreign = [x for g in grown for x in ast.walk(g) if isinstance(x, ast.Attribute) and x.attr in ("defaults", "root_args", "parameters", "all_output_names", "all_root_args", "unique_leaf_node")]
        ctx.tri("2-order", prep, c, not grown, bool(foreign), "the names passed to subpipeline as supplied are the supplied inputs and nothing else",
                f"`{norm(r0)[:70]}` passes `{norm(foreign[0]) if foreign else ''}` to subpipeline as if those names had been supplied: with auto_subpipeline and no output_names every leaf reachable from a DEFAULTED root argument "
                "becomes part of the request - an unrelated branch is executed, or the map is refused because that branch needs inputs nobody gave", f"`{norm(r0)[:60]}` combines several sources", key="supplied-only")


def rule_single_names_vs_whole_names(ctx: Ctx) -> None:
    """`root_args` / `inputs` / mapspec names are SINGLE names; `func_dependencies`, `output_name` and the keys of
    `output_to_func` may be WHOLE names (the tuple of a multi-output function).  A set operation between a collection of single
    names and a collection holding whole names never matches a multi-output function through one of its elements."""
    P = ctx.prog
    ty = ctx.cg.typer

    def alts(t):
        return list(t.args) if t.kind == "union" else [t]

    def elem(t):
        out = []
        for x in alts(t):
            if x.kind in ("seq", "set"):
                out.append(x.elem())
            elif x.kind == "map" and x.args:
                out.append(x.args[0])
            elif x.kind == "none":
                continue
            else:
                return None
        return out

    def single(es) -> bool:
        fl = [a for e in es for a in alts(e)]
        return bool(fl) and all((a.kind == "builtin" and a.name == "str") or a.kind == "any" for a in fl) and any(a.kind == "builtin" and a.name == "str" for a in fl)

    def whole(es) -> bool:
        fl = [a for e in es for a in alts(e)]
        return any(a.kind == "tuple" for a in fl) and any(a.kind == "builtin" and a.name == "str" for a in fl)

    n = 0
    targets = [P.func(f"{BASE}.Pipeline.subpipeline"), P.func(f"{BASE}._find_nodes_between"), *P.functions_in("pipefunc.map._prepare")]
    for f in targets:
        for b in walk_no_nested(f.node):
            ops = None
            if isinstance(b, ast.BinOp) and isinstance(b.op, (ast.BitAnd, ast.Sub)):
                ops = (b.left, b.right)
            elif isinstance(b, ast.Call) and isinstance(b.func, ast.Attribute) and b.func.attr in ("intersection", "difference", "issubset", "issuperset", "isdisjoint") and len(b.args) == 1:
                ops = (b.func.value, b.args[0])
            if not ops:
                continue
            l_, r_ = (elem(ty.expr(f, o)) for o in ops)
            if l_ is None or r_ is None:
                continue
            n += 1
            bad = (single(l_) and whole(r_)) or (single(r_) and whole(l_))
            ctx.add("1-closure", f, b, not bad, f"`{norm(b)[:60]}`: both sides hold the same kind of name" if not bad else
                    f"`{norm(b)[:80]}` combines single names with whole output names (a multi-output function is listed under its TUPLE name): an input that is one element of a tuple output never matches - "
                    "subpipeline({'lo', 'hi'}) comes back empty and map(..., auto_subpipeline=True) rejects the supplied values as extra inputs", key=f"name-kinds {f.name} {norm(b)[:40]}")
    ctx.add("1-closure", BASE, "", True, f"{n} set operation(s) between name collections examined", key="name-kinds-scan")


def rule_settings_tolerate_the_restriction(ctx: Ctx) -> None:
    """Per-output settings (`executor={name: ...}`) are written for the full pipeline; after the restriction the store only has the
    outputs that are computed.  A lookup `store[name]` for every configured name makes every partial request fail with KeyError."""
    P = ctx.prog
    n = 0
    for f in P.functions_in("pipefunc.map._prepare"):
        ps = f.param_names()
        if "store" not in ps or "executor" not in ps:
            continue
        cfg = ctx.cfg(f)
        for sub in [x for x in ast.walk(f.node) if isinstance(x, ast.Subscript) and isinstance(x.ctx, ast.Load) and norm(x.value) == "store" and isinstance(x.slice, ast.Name)]:
            # where does the key come from?  a loop / comprehension over names derived from `executor`
            from ..flow import element_domain
            doms = element_domain(ctx, f, sub.slice.id, ("store", "store.keys()"))
            if all(v[0] == "whole" for v in doms) and doms:
                continue  # iterates the store itself
            n += 1
            guarded = False
            par = {id(c): p_ for p_ in ast.walk(f.node) for c in ast.iter_child_nodes(p_)}
            x: ast.AST = sub
            while id(x) in par:
                x = par[id(x)]
                if isinstance(x, (ast.DictComp, ast.ListComp, ast.SetComp, ast.GeneratorExp)) and any(norm(i) == f"{sub.slice.id} in store" for g_ in x.generators for i in g_.ifs):
                    guarded = True
            nd = cfg.node_containing(sub)
            if not guarded and nd is not None:
                guarded = any(t == f"{sub.slice.id} in store" and pol for t, pol in guard_facts(cfg, Defs(f), nd))
            ctx.add("2-order", f, sub, guarded, f"`{norm(sub)}` is only looked up for names that the restricted run computes" if guarded else
                    f"`{norm(sub)}` looks up the store of the RESTRICTED pipeline for every name of the executor dict: a configuration that is valid for the full run (`executor={{'w': ex1, '': ex2}}`) makes "
                    "map(output_names={'z'}) fail with KeyError('w') - the request is computable and is refused", key=f"settings-tolerate-restriction {f.name}")
    ctx.add("2-order", "pipefunc.map._prepare", "", True, f"{n} store lookup(s) by configured names examined", key="settings-scan")


def rule_returns_all(ctx: Ctx) -> None:
    """What the drivers computed is what they return: the result mapping is keyed by SINGLE names (one entry per name of a
    tuple output) while a request (`output_names`) holds OUTPUT_TYPE values (a tuple for a multi-output function), so the two
    name kinds cannot be compared with `in` / set operations without `at_least_tuple`.  Filtering the results by the raw
    request silently drops every multi-output function."""
    P = ctx.prog
    n = 0
    for mn in ("pipefunc.map._run", "pipefunc.map._prepare", "pipefunc.map._load"):
        for f in P.functions_in(mn):
            req = [p_.arg for p_ in f.params if p_.annotation is not None and re.search(r"(set|list|Iterable)\[OUTPUT_TYPE\]", norm(p_.annotation))]
            single = [p_.arg for p_ in f.params if p_.annotation is not None and re.match(r"(OrderedDict|dict|Dict|Mapping)\[str,", norm(p_.annotation))]
            # annotated locals count too (`outputs: OrderedDict[str, Result] = OrderedDict()`)
            single += [a_.target.id for a_ in ast.walk(f.node) if isinstance(a_, ast.AnnAssign) and isinstance(a_.target, ast.Name) and re.match(r"(OrderedDict|dict|Dict|Mapping)\[str,", norm(a_.annotation))]
            if not req:
                continue
            for c in [c for c in ast.walk(f.node) if isinstance(c, ast.Compare) and len(c.ops) == 1 and isinstance(c.ops[0], (ast.In, ast.NotIn)) and isinstance(c.comparators[0], ast.Name) and c.comparators[0].id in req]:
                n += 1
                left = c.left
                def str_keyed(e: ast.AST) -> bool:
                    """`e` mentions a mapping whose keys are plain `str` (by annotation, or by the type the annotation typer infers)."""
                    for x in ast.walk(e):
                        if isinstance(x, ast.Name) and x.id in single:
                            return True
                        if isinstance(x, ast.Name):
                            try:
                                ty = ctx.typer.expr(f, x)
                            except Exception:  # noqa: BLE001
                                continue
                            if getattr(ty, "kind", None) == "map" and ty.args and getattr(ty.args[0], "name", None) == "str":
                                return True
                    return False

                from_single = isinstance(left, ast.Name) and any(any(isinstance(t, ast.Name) and t.id == left.id for t in ast.walk(it["target"])) and str_keyed(it["iter"]) for it in iterations(f.node))
                ctx.tri("4-forward", f, c, False, from_single, "", f"`{norm(c)}` compares a single result name (a key of `{single[0] if single else '?'}`) with the requested OUTPUT_TYPEs: a requested tuple output never matches, so its results are dropped",
                        f"`{norm(c)}`: kind of the left operand not traced", key=f"name-kinds {f.name}")
    ctx.add("4-forward", "pipefunc.map", "", True, f"{n} membership test(s) against a request of OUTPUT_TYPEs examined", key="name-kinds-scan")


def check(ctx: Ctx) -> None:
    for rule in (rule_closure, rule_cut_is_what_was_supplied, rule_single_names_vs_whole_names, rule_settings_tolerate_the_restriction, rule_order, rule_message, rule_forward, rule_returns_all):
        ctx.run(rule)


B, PR = "pipefunc/_pipeline/_base.py", "pipefunc/map/_prepare.py"
MUTANTS = [
    Mutant("closure-original-F32", B,
           "    between: set[Any] = set()\n    stack = list(output_nodes)\n    while stack:\n        node = stack.pop()\n        if node in between or node in input_nodes:\n            continue\n        between.add(node)\n        stack.extend(graph.predecessors(node))\n    return between\n",
           "    reachable_from_inputs = set()\n    for input_node in input_nodes:\n        reachable_from_inputs.update(nx.descendants(graph, input_node))\n    reachable_to_outputs = set()\n    for output_node in output_nodes:\n        reachable_to_outputs.update(nx.ancestors(graph, output_node))\n    reachable_to_outputs.update(output_nodes)\n    return reachable_from_inputs & reachable_to_outputs\n", ("C11.1-closure",), why="original F32"),
    Mutant("closure-ancestor-subtraction", B,
           "    between: set[Any] = set()\n    stack = list(output_nodes)\n    while stack:\n        node = stack.pop()\n        if node in between or node in input_nodes:\n            continue\n        between.add(node)\n        stack.extend(graph.predecessors(node))\n    return between\n",
           "    needed: set[Any] = set(output_nodes)\n    for output_node in output_nodes:\n        needed.update(nx.ancestors(graph, output_node))\n    provided: set[Any] = set(input_nodes)\n    for input_node in input_nodes:\n        provided.update(nx.ancestors(graph, input_node))\n    return needed - provided\n", ("C11.1-closure",), why="seeded C11/1"),
    Mutant("closure-no-cut", B, "        if node in between or node in input_nodes:\n            continue\n", "        if node in between:\n            continue\n", ("C11.1-closure",)),
    Mutant("flatten-after-subpipeline", PR, "    inputs = pipeline._flatten_scopes(inputs)\n    if auto_subpipeline or output_names is not None:\n        pipeline = pipeline.subpipeline(set(inputs), output_names)\n",
           "    if auto_subpipeline or output_names is not None:\n        pipeline = pipeline.subpipeline(set(inputs), output_names)\n    inputs = pipeline._flatten_scopes(inputs)\n", ("C11.2-order",), why="seeded C11/2"),
    Mutant("restrict-after-validate", PR, "    if auto_subpipeline or output_names is not None:\n        pipeline = pipeline.subpipeline(set(inputs), output_names)\n    if executor is not None and not isinstance(executor, dict):",
           "    _validate_complete_inputs(pipeline, inputs)\n    if auto_subpipeline or output_names is not None:\n        pipeline = pipeline.subpipeline(set(inputs), output_names)\n    if executor is not None and not isinstance(executor, dict):", ("C11.2-order",)),
    Mutant("restriction-discarded", PR, "        pipeline = pipeline.subpipeline(set(inputs), output_names)\n", "        _sub = pipeline.subpipeline(set(inputs), output_names)\n", ("C11.2-order",)),
    Mutant("defaults-not-available-F32b", B, "            if not (new_root_args - set(pipeline.defaults)).issubset(inputs):\n", "            if not new_root_args.issubset(inputs):\n", ("C11.3-message",), why="original F32b"),
    Mutant("map-async-drops-output-names", B, "            internal_shapes=internal_shapes,\n            output_names=output_names,\n            executor=executor,\n            storage=storage,\n", "            internal_shapes=internal_shapes,\n            executor=executor,\n            storage=storage,\n", ("C11.4-forward",), why="seeded C11/3"),
    Mutant("driver-keeps-original-pipeline", "pipefunc/map/_run.py", "    pipeline, run_info, store, outputs, parallel, executor, progress = prepare_run(", "    _pipeline, run_info, store, outputs, parallel, executor, progress = prepare_run(", ("C11.4-forward",)),
    Mutant("inputs-only-with-auto", PR, "        pipeline = pipeline.subpipeline(set(inputs), output_names)\n", "        pipeline = pipeline.subpipeline(set(inputs) if auto_subpipeline else None, output_names)\n", ("C11.2-order",), why="round-2 seed C11/6"),
    Mutant("twin-stack-renamed", B, "    stack = list(output_nodes)\n    while stack:\n        node = stack.pop()\n", "    stack = list(output_nodes)  # worklist\n    while stack:\n        node = stack.pop()\n", twin=True),
]
