"""Runs the rank-domain analysis (sa/kinds.py) over the map kernel and the storage backends."""

from __future__ import annotations

from ..kinds import BASE_PROPERTIES, METHOD_SIGS, OPTIONAL_SIGS, SIGS, STORAGE_METHOD_PARAMS, T_EXT, T_FULL, Finding, KindAnalysis, show
from ..loader import AnalysisError
from ..report import Ctx

STORAGE_CLASSES = ("pipefunc.map._storage_array._file.FileArray", "pipefunc.map._storage_array._dict.DictArray")


def _same(got, want) -> bool:
    if got is None or want is None:
        return True
    if got == want:
        return True
    if got[0] == "SEQ" and want[0] == "SEQ":
        return _same(got[1], want[1])
    if got[0] == "PAIR" and want[0] == "PAIR":
        return all(_same(a, b) for a, b in zip(got[1:], want[1:]))
    if len(want) > 1 and want[1] == "K":
        return got[0] == want[0]
    if got[0] in ("T", "RANGES") and want[0] in ("T", "RANGES") and got[1] == want[1]:
        return True
    return False


def analyse(ctx: Ctx, modules: tuple[str, ...]) -> tuple[list[Finding], dict]:
    P = ctx.prog
    findings: list[Finding] = []
    stats = {"functions": 0, "variants": 0, "unresolved": 0, "returns_checked": 0}
    for q, sig in SIGS.items():
        if q in OPTIONAL_SIGS and q not in P.functions:
            ctx.note(f"optional helper {q} is not present; its callers are analysed on their own")
            continue
        fn = P.func(q)  # fails closed if a core function vanished
        if not fn.module.name.startswith(modules):
            continue
        stats["functions"] += 1
        variants: list[tuple[dict, str]] = [({}, "")]
        for flag in sig.by_const:
            variants = [({**c, flag: v}, f"{lbl} {flag}={v}".strip()) for c, lbl in variants for v in (True, False)]
        for consts, label in variants:
            params = dict(sig.params)
            ret = sig.ret
            for flag, table in sig.by_const.items():
                params.update({k: v for k, v in table[consts[flag]].items() if k != "@ret"})
                ret = table[consts[flag]].get("@ret", ret)
            ka = KindAnalysis(P, ctx.typer, fn, params, consts, storage_self=False, variant=label)
            stats["variants"] += 1
            stats["unresolved"] += ka.unresolved
            findings += ka.findings
            for node, got in ka.returns:
                if ret is not None and got is not None:
                    stats["returns_checked"] += 1
                    ok = _same(got, ret)
                    findings.append(Finding(fn, node, ok, f"returns {show(got)}, declared {show(ret)}" + ("" if ok else " - callers index another space with it"), label))
    if "pipefunc.map._storage_array".startswith(modules) or any(m.startswith("pipefunc.map._storage_array") for m in modules):
        base = P.cls("pipefunc.map._storage_array._base.StorageBase")
        for pname, want in BASE_PROPERTIES.items():
            fn = base.methods.get(pname)
            if fn is None:
                raise AnalysisError(f"StorageBase.{pname} not found")
            stats["functions"] += 1
            ka = KindAnalysis(P, ctx.typer, fn, {}, {}, storage_self=True)
            stats["variants"] += 1
            findings += ka.findings
            for node, got in ka.returns:
                if got is not None:
                    stats["returns_checked"] += 1
                    ok = _same(got, want)
                    findings.append(Finding(fn, node, ok, f"StorageBase.{pname} is {show(got)}, declared {show(want)}" + ("" if ok else " - every user of it (file numbering, linear indices) is over the other space"), ""))
        for cq in STORAGE_CLASSES:
            cls = P.cls(cq)
            for mname, params in STORAGE_METHOD_PARAMS.items():
                fn = cls.methods.get(mname)
                if fn is None:
                    continue
                stats["functions"] += 1
                has_flag = "for_dump" in fn.param_names()
                variants = [({"for_dump": v}, f"for_dump={v}") for v in (True, False)] if has_flag else [({}, "")]
                if "splat_internal" in fn.param_names():  # both readings of the flag (None defaults to one of them)
                    variants = [({**c, "splat_internal": v}, f"{lbl} splat_internal={v}".strip()) for c, lbl in variants for v in (True, False)]
                for consts, label in variants:
                    p = dict(params)
                    ret = METHOD_SIGS.get(mname).ret if mname in METHOD_SIGS else None
                    if mname in METHOD_SIGS and METHOD_SIGS[mname].by_const and has_flag:
                        table = METHOD_SIGS[mname].by_const["for_dump"][consts["for_dump"]]
                        p.update({k: v for k, v in table.items() if k != "@ret"})
                        ret = table.get("@ret", ret)
                    if mname == "_slice_indices" and not has_flag:
                        # DictArray._slice_indices(key, shape): both over one domain
                        for d_ in (T_EXT, T_FULL):
                            ka = KindAnalysis(P, ctx.typer, fn, {"key": d_, "shape": d_}, {}, storage_self=True, variant=f"key/shape over {d_[1]}")
                            stats["variants"] += 1
                            findings += ka.findings
                        continue
                    ka = KindAnalysis(P, ctx.typer, fn, p, consts, storage_self=True, variant=label)
                    stats["variants"] += 1
                    stats["unresolved"] += ka.unresolved
                    findings += ka.findings
                    for node, got in ka.returns:
                        if ret is not None and got is not None:
                            stats["returns_checked"] += 1
                            ok = _same(got, ret)
                            findings.append(Finding(fn, node, ok, f"returns {show(got)}, declared {show(ret)}", label))
    if not findings:
        raise AnalysisError("kind analysis produced no pairing obligations")
    return findings, stats


def emit(ctx: Ctx, rule: str, findings: list[Finding], floor: int) -> None:
    from ..loader import norm

    seen = set()
    n = 0
    for f in findings:
        key = (f.fn.qualname, getattr(f.node, "lineno", 0), getattr(f.node, "col_offset", 0), f.what, f.variant)
        if key in seen:
            continue
        seen.add(key)
        n += 1
        ctx.add(rule, f.fn, f.node, f.ok, (f"[{f.variant}] " if f.variant else "") + f.what, key=f"{f.variant}|{norm(f.node)[:80]}")
    ctx.floor(rule, n, floor)
