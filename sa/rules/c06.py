"""C06 - running a map in pieces (fixed_indices, learners) equals running it whole (structural clauses).

  1 sequence   Rule K (sa/kinds.py) on map/adaptive.py: the sequence handed to a SequenceLearner is LIN(EXT) on every
               branch, the consumer passes it to has_index / get_from_index / the element run as LIN(EXT)
  2 one-mask   the map path and the learner path obtain the selected index set from the same _mask_fixed_axes, which
               hands the user's ints/slices to NumPy indexing unchanged (negative steps included)
  3 validated  every entry that takes fixed_indices validates them first (prepare_run, both yielding arms of
               _maybe_iterate_axes); the validator rejects unknown axes, out-of-range indices and reduced axes; an axis
               is reduced when a consumer takes it whole (no MapSpec, or not in its MapSpec inputs) or through ':'
  4 skip       unselected indices are in neither the existing nor the missing list; learners return stored elements
  5 writes     the learner path dumps its own results (force_dump=True), nobody else forces a dump
  6 axes       split_independent_axes reads each axis length at the position of that axis in the input's axes
"""

from __future__ import annotations

import ast

from ..loader import AnalysisError, dotted, norm, walk_no_nested
from ..report import Ctx
from ..selftest import Mutant
from . import kinds_driver

PROP = "C06"
AD = "pipefunc.map.adaptive"
PREP = "pipefunc.map._prepare"
RUN = "pipefunc.map._run"
EXPLANATION = (
    "Static analysis of the partial-run machinery: rank-domain inference (sa/kinds.py) over map/adaptive.py and "
    "_mask_fixed_axes, who-calls of the selection mask, def-use of the selection key, dominance of validation over every "
    "use of fixed_indices, the shape of the reduced-axis predicate, the position of the selection test in the "
    "existing/missing split, and the def-use of axis positions in _iterate_axes."
)
TRUSTED = ["CPython ast parser", "seed kinds of sa/kinds.py", "NumPy boolean-array indexing with ints/slices (negative steps delegated to it)"]
DECLINED = [
    "that the union of the parts equals the whole for every partition (needs execution)",
    "correctness of independent_axes_in_mapspecs / _identify_cross_product_axes (graph-semantic, value-level)",
]


def check(ctx: Ctx) -> None:  # noqa: C901, PLR0915
    P, cg = ctx.prog, ctx.cg
    # ------------------------------------------------------------ 1 sequence
    findings, stats = kinds_driver.analyse(ctx, (AD, f"{RUN}"))
    mine = [f for f in findings if f.fn.module.name == AD or f.fn.name in ("_mask_fixed_axes", "_existing_and_missing_indices")]
    kinds_driver.emit(ctx, "1-sequence", mine, 12)
    ctx.note(f"kind analysis: {stats}")
    ln = P.func(f"{AD}._learner")
    src = norm(ln.node)
    ok = "sequence = _sequence(fixed_indices, func.mapspec, shape, mask)" in src and "functools.partial(_execute_iteration_in_map_spec" in src and "return SequenceLearner(f, sequence)" in src
    ctx.add("1-sequence", ln, ln.node, ok, "the learner runs _execute_iteration_in_map_spec over _sequence(...)" if ok else "_learner no longer pairs _execute_iteration_in_map_spec with _sequence", key="learner-wiring")
    ex = P.func(f"{AD}._execute_iteration_in_map_spec")
    ok = ex.param_names()[0] == "index"
    ctx.add("1-sequence", ex, ex.node, ok, "the sequence element is the first positional parameter `index`" if ok else "the consumer's first parameter is not the sequence element", key="consumer-param")

    # ------------------------------------------------------------ 2 one-mask
    users = {s.caller.qualname for s in cg.call_sites_of(f"{RUN}._mask_fixed_axes")}
    ok = {f"{RUN}._prepare_submit_map_spec", f"{AD}._sequence"} <= users
    ctx.add("2-one-mask", f"{RUN}._mask_fixed_axes", P.func(f"{RUN}._mask_fixed_axes").loc, ok, "map path and learner path share _mask_fixed_axes" if ok else f"_mask_fixed_axes is used by {sorted(users)} only", key="shared")
    mf = P.func(f"{RUN}._mask_fixed_axes")
    keys = [s for s in walk_no_nested(mf.node) if isinstance(s, ast.Assign) and norm(s.targets[0]) == "key"]
    ok = bool(keys) and norm(keys[0].value) == "tuple((fixed_indices.get(axis, slice(None)) for axis in mapspec.output_indices))"
    ctx.add("2-one-mask", mf, keys[0] if keys else mf.node, ok, "one entry per output axis: the user's int/slice, or a full slice" if ok else "the selection key is no longer the user's entries (or slice(None)) per output axis", key="key-def")
    trans = [c for c in ast.walk(mf.node) if isinstance(c, ast.Call) and (dotted(c.func) in ("slice", "range") and c.args and not (len(c.args) == 1 and isinstance(c.args[0], ast.Constant) and c.args[0].value is None)
                                                                          or (isinstance(c.func, ast.Attribute) and c.func.attr == "indices"))]
    ctx.add("2-one-mask", mf, trans[0] if trans else mf.node, not trans, "slices reach NumPy unchanged" if not trans else
            f"`{norm(trans[0])[:50]}` rewrites the user's slice before indexing: slice.indices() yields stop=-1 for a negative step down to 0, which NumPy reads as 'last element' (empty selection)", key="no-slice-rewrite")
    src = norm(mf.node)
    ok = "select: npt.NDArray[np.bool_] = np.zeros(external_shape, dtype=bool)" in src and "select[external_key] = True" in src and "return select.flat" in src and "if fixed_indices is None" in src
    ctx.add("2-one-mask", mf, mf.node, ok, "a boolean array over the external shape, True at the selected positions, flattened in C order" if ok else "_mask_fixed_axes construction changed", key="construction")
    sq = P.func(f"{AD}._sequence")
    ok = "np.flatnonzero(fixed_mask)" in norm(sq.node)
    ctx.add("2-one-mask", sq, sq.node, ok, "learner sequence = positions where the selection mask is True" if ok else "the learner sequence is not derived from the selection mask", key="flatnonzero")

    # ------------------------------------------------------------ 3 validated
    prep = P.func(f"{PREP}.prepare_run")
    cfg = ctx.cfg(prep)
    v = cfg.nodes(lambda s: isinstance(s, ast.Expr) and isinstance(s.value, ast.Call) and dotted(s.value.func) == "_validate_fixed_indices")
    c = cfg.nodes(lambda s: any(isinstance(x, ast.Call) and dotted(x.func).endswith("RunInfo.create") for x in ast.walk(s)))
    ok = bool(v) and bool(c) and cfg.dominates(v[0], c[0]) and [norm(a) for a in cfg.stmt[v[0]].value.args] == ["fixed_indices", "inputs", "pipeline"]
    ctx.add("3-validated", prep, cfg.stmt[v[0]] if v else prep.node, ok, "prepare_run validates fixed_indices before the run is created" if ok else "prepare_run does not validate fixed_indices first", key="prepare-run")
    mi = P.func(f"{AD}._maybe_iterate_axes")
    cfg = ctx.cfg(mi)
    ys = cfg.nodes(lambda s: isinstance(s, ast.Expr) and isinstance(s.value, ast.Yield) and s.value.value is not None and norm(s.value.value) != "None")
    vs = cfg.nodes(lambda s: isinstance(s, ast.Expr) and isinstance(s.value, ast.Call) and dotted(s.value.func) == "_validate_fixed_indices")
    ok = len(ys) >= 2
    for y in ys:
        what = norm(cfg.stmt[y].value.value)
        ok &= any(cfg.dominates(v_, y) and norm(cfg.stmt[v_].value.args[0]) == what for v_ in vs)
    ctx.add("3-validated", mi, mi.node, ok, f"each of the {len(ys)} yielded selections was validated first" if ok else "_maybe_iterate_axes yields a selection that was not validated", key="learner-entry")
    cl = P.func(f"{AD}.create_learners")
    ok = "_maybe_iterate_axes(pipeline, inputs, fixed_indices, split_independent_axes, run_info.internal_shapes)" in norm(cl.node) and "fixed_indices=_fixed_indices" in norm(cl.node)
    ctx.add("3-validated", cl, cl.node, ok, "create_learners only uses selections that come out of _maybe_iterate_axes" if ok else "create_learners uses fixed_indices without going through _maybe_iterate_axes", key="create-learners")
    vf = P.func(f"{PREP}._validate_fixed_indices")
    src = norm(vf.node)
    rs = [r for r in ast.walk(vf.node) if isinstance(r, ast.Raise)]
    kinds = [norm(r.exc).split("(")[0] if r.exc is not None else "" for r in rs]
    ok = kinds.count("IndexError") == 1 and kinds.count("ValueError") >= 2
    ctx.add("3-validated", vf, vf.node, ok, "three rejections: out-of-range (IndexError), unknown axis and reduced axis (ValueError)" if ok else f"_validate_fixed_indices raises {kinds}", key="three-rejections")
    ok = "inputs[parameter][key]" in src and "except IndexError as e" in src and "key = tuple((fixed_indices.get(axis, slice(None)) for axis in axes_))" in src
    ctx.add("3-validated", vf, vf.node, ok, "every mapped input is indexed with the requested selection to detect out-of-range entries" if ok else "the out-of-range probe of _validate_fixed_indices changed", key="range-probe")
    ok = "extra = set(fixed_indices)" in src and "extra.discard(axis)" in src and "if extra" in src
    ctx.add("3-validated", vf, vf.node, ok, "axes that no MapSpec knows are rejected" if ok else "unknown axes are no longer rejected", key="unknown-axis")
    ok = "reduced_axes = _reduced_axes(pipeline)" in src and "reduced := set(axes_set) & set(fixed_indices)" in src.replace("(reduced := (set(axes_set) & set(fixed_indices)))", "reduced := set(axes_set) & set(fixed_indices)")
    ctx.add("3-validated", vf, vf.node, ok, "a fixed axis that is reduced anywhere is rejected" if ok else "reduced axes are no longer rejected", key="reduced-axis")
    ir = P.func(f"{PREP}._is_parameter_reduced_by_function")
    ret = [r for r in walk_no_nested(ir.node) if isinstance(r, ast.Return)][-1]
    ok = norm(ret.value) == "name in func.parameters and (func.mapspec is None or name not in func.mapspec.input_names)"
    ctx.add("3-validated", ir, ret, ok, "reduced = consumed whole: by a function without MapSpec OR outside the consumer's MapSpec inputs" if ok else
            f"`{norm(ret.value)[:90]}`: a mapped consumer that takes the array whole (not in its MapSpec inputs) no longer counts as a reduction", key="reduced-predicate")
    ipr = P.func(f"{PREP}._is_parameter_partially_reduced_by_function")
    ok = "return None in spec.axes" in norm(ipr.node)
    ctx.add("3-validated", ipr, ipr.node, ok, "partially reduced = ':' in the consumer's axes" if ok else "partial reduction detection changed", key="partial-predicate")
    gp = P.func(f"{PREP}._get_partially_reduced_axes")
    ok = "tuple((ax for ax, spec_ax in zip(axes[name], spec.axes) if spec_ax is None))" in norm(gp.node)
    ctx.add("3-validated", gp, gp.node, ok, "the reduced axis names are those at the ':' positions" if ok else "_get_partially_reduced_axes changed", key="partial-axes")
    ra = P.func(f"{PREP}._reduced_axes")
    ok = "for name in pipeline.mapspec_names" in norm(ra.node) and "for func in pipeline.functions" in norm(ra.node) and "reduced_axes[name].update(axes[name])" in norm(ra.node)
    ctx.add("3-validated", ra, ra.node, ok, "every (array, consumer) pair is examined" if ok else "_reduced_axes no longer examines every array/consumer pair", key="all-pairs")

    # ------------------------------------------------------------ 4 skip
    ei = P.func(f"{RUN}._existing_and_missing_indices")
    loop = [lp for lp in walk_no_nested(ei.node) if isinstance(lp, ast.For)][0]
    first = loop.body[0]
    ok = isinstance(first, ast.If) and norm(first.test) == "not select" and isinstance(first.body[-1], ast.Continue)
    ctx.add("4-skip", ei, first, ok, "unselected indices are skipped before classification" if ok else "unselected indices are classified as existing/missing: a partial run computes (or reads) elements outside its part", key="select-first")
    ok = "fixed_mask = itertools.repeat(object=True)" in norm(ei.node)
    ctx.add("4-skip", ei, ei.node, ok, "no selection -> everything selected" if ok else "the no-selection default changed", key="default-all")
    pq = P.func(f"{RUN}._prepare_submit_map_spec")
    ok = "fixed_mask = _mask_fixed_axes(fixed_indices, func.mapspec, shape, mask)" in norm(pq.node) and "_existing_and_missing_indices(arrays, fixed_mask)" in norm(pq.node)
    ctx.add("4-skip", pq, pq.node, ok, "the selection restricts the existing/missing split" if ok else "the map path no longer restricts work to the selection", key="map-uses-mask")
    ok = "if all((arr.has_index(index) for arr in arrays))" in norm(ex.node)
    ctx.add("4-skip", ex, ex.node, ok, "learner: an element stored for every output is not recomputed" if ok else "the learner recomputes stored elements", key="learner-skip")

    # ------------------------------------------------------------ 5 writes
    calls = [c for c in ast.walk(ex.node) if isinstance(c, ast.Call) and dotted(c.func) == "_run_iteration_and_process"]
    ok = bool(calls) and any(k.arg == "force_dump" and isinstance(k.value, ast.Constant) and k.value.value is True for k in calls[0].keywords)
    ctx.add("5-writes", ex, calls[0] if calls else ex.node, ok, "the learner forces the dump (it has no parent post-processing step)" if ok else "learner results of parent-dumped storages are never written", key="force-dump")
    rip = P.func(f"{RUN}._run_iteration_and_process")
    kwd = [d for a, d in zip(rip.node.args.kwonlyargs, rip.node.args.kw_defaults) if a.arg == "force_dump"]
    ok = bool(kwd) and isinstance(kwd[0], ast.Constant) and kwd[0].value is False and "force_dump=force_dump" in norm(rip.node)
    ctx.add("5-writes", rip, rip.node, ok, "force_dump defaults to False and is passed on to _update_array" if ok else "force_dump is not passed on", key="force-dump-forward")
    es = P.func(f"{AD}._execute_iteration_in_single")
    ok = "_submit_func(func, run_info, store, fixed_indices=None, executor=None)" in norm(es.node) and "_process_task(func, kwargs_task, store)" in norm(es.node)
    ctx.add("5-writes", es, es.node, ok, "single-call learners run and store through the same submit/process pair as map" if ok else "single-call learners bypass the submit/process pair", key="single-learner")

    # ------------------------------------------------------------ 6 axes
    ia = P.func(f"{AD}._iterate_axes")
    gen = next((g for g in ast.walk(ia.node) if isinstance(g, ast.GeneratorExp) and isinstance(g.elt, ast.Tuple) and len(g.elt.elts) == 2), None)
    ok, why = False, "_iterate_axes: (parameter, dimension) generator not found"
    if gen is not None:
        dim = gen.elt.elts[1]
        if isinstance(dim, ast.Call) and isinstance(dim.func, ast.Attribute) and dim.func.attr == "index" and norm(dim.args[0]) == "axis":
            ok, why = True, "dimension = position of the axis name in that input's axes"
        elif isinstance(dim, ast.Name):
            enum = [g for g in gen.generators if isinstance(g.iter, ast.Call) and dotted(g.iter.func) == "enumerate" and isinstance(g.target, ast.Tuple) and norm(g.target.elts[0]) == dim.id]
            if enum:
                nm = norm(enum[0].target.elts[1])
                ok = any(norm(t) in (f"{nm} == axis", f"axis == {nm}") for g in gen.generators for t in g.ifs)
                why = "dimension = enumerated position whose name equals the axis" if ok else f"the dimension `{dim.id}` is not tied to the position of `axis` (first position of every matching input is taken)"
    ctx.add("6-axes", ia, gen if gen is not None else ia.node, ok, why, key="axis-position")
    ok = "shape.append(shapes[parameter][dim])" in norm(ia.node) and "for indices in iterate_shape_indices(tuple(shape))" in norm(ia.node) and "yield dict(zip(independent_axes, indices))" in norm(ia.node)
    ctx.add("6-axes", ia, ia.node, ok, "one selection per point of the independent-axes grid" if ok else "_iterate_axes no longer enumerates the full grid of independent axes", key="grid")


A, R, PR = "pipefunc/map/adaptive.py", "pipefunc/map/_run.py", "pipefunc/map/_prepare.py"
MUTANTS = [
    Mutant("sequence-original-F08", A, "        return range(prod(external_shape_from_mask(shape, mask)))\n", "        return range(prod(shape))\n", ("C06.1-sequence",), why="original F08"),
    Mutant("learner-passes-external-shape", A, "        sequence = _sequence(fixed_indices, func.mapspec, shape, mask)\n", "        sequence = _sequence(fixed_indices, func.mapspec, external_shape_from_mask(shape, mask), mask)\n", ("C06.1-sequence",)),
    Mutant("own-mask-in-sequence", A, "    fixed_mask = _mask_fixed_axes(fixed_indices, mapspec, shape, mask)\n", "    fixed_mask = np.ones(external_shape_from_mask(shape, mask), dtype=bool).flat\n", ("C06.2-one-mask",)),
    Mutant("slice-normalised", R, "    key = tuple(fixed_indices.get(axis, slice(None)) for axis in mapspec.output_indices)\n",
           "    key = tuple(fixed_indices.get(axis, slice(None)) for axis in mapspec.output_indices)\n    key = tuple(slice(*k.indices(n)) if isinstance(k, slice) else k for k, n in zip(key, shape))\n", ("C06.2-one-mask",), why="seeded C06/3"),
    Mutant("prepare-run-no-validation", PR, "    _validate_fixed_indices(fixed_indices, inputs, pipeline)\n    run_info = RunInfo.create(", "    run_info = RunInfo.create(", ("C06.3-validated",)),
    Mutant("split-axes-not-validated", A, "        _validate_fixed_indices(_fixed_indices, inputs, pipeline)\n        yield _fixed_indices\n", "        yield _fixed_indices\n", ("C06.3-validated",)),
    Mutant("reduced-predicate-simplified", PR, "    return name in func.parameters and (\n        func.mapspec is None or name not in func.mapspec.input_names\n    )\n", "    return func.mapspec is None and name in func.parameters\n", ("C06.3-validated",), why="seeded C06/2"),
    Mutant("unknown-axis-accepted", PR, "    if extra:\n        msg = f\"Got extra `fixed_indices`", "    if False:\n        msg = f\"Got extra `fixed_indices`", ("C06.3-validated",)),
    Mutant("select-after-classification", R, "        if not select:\n            continue\n        if any(mask_values):  # rerun if any of the outputs are missing\n            missing_indices.append(i)\n        else:\n            existing_indices.append(i)\n",
           "        if any(mask_values):  # rerun if any of the outputs are missing\n            missing_indices.append(i)\n        elif select:\n            existing_indices.append(i)\n", ("C06.4-skip",)),
    Mutant("learner-no-force-dump", A, "        cache,\n        force_dump=True,\n    )\n", "        cache,\n    )\n", ("C06.5-writes",)),
    Mutant("iterate-axes-first-dim", A, "            (p, axes.index(axis))\n            for p, axes in mapspec_axes.items()\n", "            (p, dim)\n            for p, axes in mapspec_axes.items()\n            for dim, ax in enumerate(axes)\n", ("C06.6-axes",), why="seeded C06/1"),
    Mutant("twin-sequence-local", A, "        return range(prod(external_shape_from_mask(shape, mask)))\n", "        n_elements = prod(external_shape_from_mask(shape, mask))\n        return range(n_elements)\n", twin=True),
    Mutant("twin-iterate-axes-enumerate", A, "            (p, axes.index(axis))\n            for p, axes in mapspec_axes.items()\n", "            (p, dim)\n            for p, axes in mapspec_axes.items()\n            for dim, ax in enumerate(axes)\n            if ax == axis\n", twin=True),
]
