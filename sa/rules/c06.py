"""C06 - running a map in pieces (fixed_indices, learners) equals running it whole (structural clauses).

  1 sequence   Rule K (sa/kinds.py) on map/adaptive.py: the sequence handed to a SequenceLearner is LIN(EXT) on every
               branch, the consumer passes it to has_index / get_from_index / the element run as LIN(EXT)
  2 one-mask   the map path and the learner path obtain the selected index set from the same _mask_fixed_axes, which
               hands the user's ints/slices to NumPy indexing unchanged (negative steps included)
  3 validated  every entry that takes fixed_indices validates them first (prepare_run, both yielding arms of
               _maybe_iterate_axes); the validator rejects unknown axes, out-of-range indices and reduced axes; an axis
               is reduced when a consumer takes it whole (no MapSpec, or not in its MapSpec inputs) or through ':'
  4 skip       unselected indices are in neither the existing nor the missing list; learners return stored elements
  5 writes     the learner path dumps its own results (force_dump=True), nobody else forces a dump
  6 axes       split_independent_axes reads each axis length at the position of that axis in the input's axes
  7 one-shot   a flatiter / generator valued local has at most one consumer on any path
"""

from __future__ import annotations

import ast
import itertools

from ..flow import reach_rejections, Defs, Scope, all_defs_text, arg, bool_atoms, bool_eval, guards, iterations, nnf, rejections
from ..loader import dotted, norm, walk_no_nested
from ..report import Ctx
from ..selftest import Mutant
from . import kinds_driver

PROP = "C06"
TECHNIQUE = "static analysis: rank-domain abstract interpretation of the partial-run path + truth-table evaluation of the reduced-axis predicate + validation-dominance (CFG) + guard analysis of the selection flag + one-shot iterator linearity (at most one consumer per path) + sequence-position vs linear-index kinds for learner sequences + caller-belief (assert not None) vs callee None-returns under transferred guard facts + no process-wide memo of pipeline-derived facts"
AD = "pipefunc.map.adaptive"
PREP = "pipefunc.map._prepare"
RUN = "pipefunc.map._run"
EXPLANATION = (
    "Static analysis of the partial-run machinery: rank-domain inference (sa/kinds.py) over map/adaptive.py and "
    "_mask_fixed_axes, who-calls of the selection mask, def-use of the selection key, dominance of validation over every "
    "use of fixed_indices, the shape of the reduced-axis predicate, the position of the selection test in the "
    "existing/missing split, and the def-use of axis positions in _iterate_axes."
)
TRUSTED = ["CPython ast parser", "seed kinds of sa/kinds.py", "NumPy boolean-array indexing with ints/slices (negative steps delegated to it)"]
DECLINED = [
    "that the union of the parts equals the whole for every partition (needs execution)",
    "correctness of independent_axes_in_mapspecs / _identify_cross_product_axes (graph-semantic, value-level)",
]


def rule_sequence(ctx: Ctx) -> None:
    P = ctx.prog
    findings, stats = kinds_driver.analyse(ctx, (AD, f"{RUN}"))
    mine = [f for f in findings if f.fn.module.name == AD or f.fn.name in ("_mask_fixed_axes", "_existing_and_missing_indices")]
    kinds_driver.emit(ctx, "1-sequence", mine, 12)
    ctx.note(f"kind analysis: {stats}")
    ln = P.func(f"{AD}._learner")
    d = Defs(ln)
    mk = [c for c in ast.walk(ln.node) if isinstance(c, ast.Call) and dotted(c.func).endswith("SequenceLearner") and len(c.args) >= 2]
    if mk:
        f_txt, s_txt = (norm(d.resolve(a_)) + " " + (all_defs_text(ln.node, a_.id) if isinstance(a_, ast.Name) else "") for a_ in mk[0].args[:2])
        ctx.tri("1-sequence", ln, mk[0], "_execute_iteration_in_map_spec" in f_txt and "_sequence(" in s_txt, False, "the learner runs _execute_iteration_in_map_spec over _sequence(...)", "",
                f"SequenceLearner({f_txt[:40]}, {s_txt[:40]}) not recognised", key="learner-wiring")
    ex = P.func(f"{AD}._execute_iteration_in_map_spec")
    ctx.tri("1-sequence", ex, ex.node, ex.param_names()[:1] == ["index"], False, "the sequence element is the first positional parameter `index`", "", "first parameter is not called `index`; its kind seed does not apply", key="consumer-param")


def rule_one_mask(ctx: Ctx) -> None:
    P = ctx.prog
    sq = P.func(f"{AD}._sequence")
    fi = [p for p in sq.param_names() if "fixed" in p]
    if fi:
        uses = [n for n in ast.walk(sq.node) if isinstance(n, ast.Name) and n.id == fi[0] and isinstance(n.ctx, ast.Load)]
        par = {id(c): p for p in ast.walk(sq.node) for c in ast.iter_child_nodes(p)}
        real = [u for u in uses if not (isinstance(par.get(id(u)), ast.Compare) and all(isinstance(o, (ast.Is, ast.IsNot)) for o in par[id(u)].ops))]
        ctx.add("2-one-mask", sq, sq.node, bool(real), f"the learner's sequence depends on `{fi[0]}`" if real else f"`{fi[0]}` never reaches the computation of the learner's sequence: the learner ignores the selection", key="sequence-uses-selection")
    shared = f"{RUN}._mask_fixed_axes" in ctx.cg.reachable(f"{AD}._sequence") and f"{RUN}._mask_fixed_axes" in ctx.cg.reachable(f"{RUN}._prepare_submit_map_spec")
    ctx.tri("2-one-mask", f"{RUN}._mask_fixed_axes", P.func(f"{RUN}._mask_fixed_axes").loc, shared, False, "map path and learner path derive the selection from the same function (_mask_fixed_axes)", "",
            "map path and learner path do not both reach _mask_fixed_axes", key="shared")
    mf = P.func(f"{RUN}._mask_fixed_axes")
    its = [it for it in iterations(mf.node) if ".get(" in norm(getattr(it["node"], "elt", it["node"]))]
    # over the output axes - directly, or zipped with the mask / enumerated (the position is still that of the output axis)
    def over_outputs(e: ast.AST) -> bool:
        if norm(e).endswith(".output_indices"):
            return True
        return isinstance(e, ast.Call) and dotted(e.func) in ("zip", "enumerate") and bool(e.args) and norm(e.args[0]).endswith(".output_indices")

    by_out = [it for it in its if over_outputs(it["iter"])]
    other = [it for it in its if not over_outputs(it["iter"])]
    ctx.tri("2-one-mask", mf, (other or by_out or [{"node": mf.node}])[0]["node"], bool(by_out) and "slice(None)" in norm(mf.node) and not other, bool(other),
            "one entry per output axis: the user's int/slice, or a full slice", f"the selection key is enumerated over `{norm(other[0]['iter']) if other else ''}`, not over the output axes: entries land on the wrong axis",
            "construction of the selection key not recognised", key="key-def")
    trans = [c for _f, c in Scope(ctx, mf).walk() if isinstance(c, ast.Call) and (dotted(c.func) in ("slice", "range") and c.args and not (len(c.args) == 1 and isinstance(c.args[0], ast.Constant) and c.args[0].value is None)
                                                                                    or (isinstance(c.func, ast.Attribute) and c.func.attr == "indices"))]
    ctx.add("2-one-mask", mf, trans[0] if trans else mf.node, not trans, "slices reach NumPy unchanged" if not trans else
            f"`{norm(trans[0])[:50]}` rewrites the user's slice before indexing: slice.indices() yields stop=-1 for a negative step down to 0, which NumPy reads as 'last element' (empty selection)", key="no-slice-rewrite")
    t = norm(sq.node)
    ctx.tri("2-one-mask", sq, sq.node, any(w in t for w in ("flatnonzero(", "nonzero(", "np.where(")), False, "learner sequence = positions where the selection mask is True", "", "derivation of the sequence from the mask not recognised", key="flatnonzero")


def _reduced_table(e: ast.AST) -> dict | None:
    atoms = bool_atoms(e)
    want = {"name in func.parameters": "A", "func.mapspec is None": "B", "name in func.mapspec.input_names": "C"}
    if not set(atoms) <= set(want):
        return None
    table = {}
    for a_, b_, c_ in itertools.product((True, False), repeat=3):
        if b_ and c_:
            continue  # no MapSpec -> no MapSpec inputs
        env = {"name in func.parameters": a_, "func.mapspec is None": b_, "name in func.mapspec.input_names": c_}
        v = bool_eval(e, env)
        # with short-circuit evaluation C is never read when B holds
        table[(a_, b_, c_)] = v
    return table


def rule_validated(ctx: Ctx) -> None:  # noqa: C901, PLR0915
    P = ctx.prog
    prep = P.func(f"{PREP}.prepare_run")
    cfg = ctx.cfg(prep)
    v = cfg.nodes(lambda s: not isinstance(s, (ast.If, ast.For)) and any(isinstance(x, ast.Call) and dotted(x.func) == "_validate_fixed_indices" for x in ast.walk(s)))
    c = cfg.nodes(lambda s: not isinstance(s, (ast.If, ast.For)) and any(isinstance(x, ast.Call) and dotted(x.func).endswith("RunInfo.create") for x in ast.walk(s)))
    anywhere = bool(Scope(ctx, prep).calls("_validate_fixed_indices"))
    if c:
        ok = bool(v) and all(any(cfg.dominates(v_, c_) for v_ in v) for c_ in c)
        ctx.tri("3-validated", prep, cfg.stmt[c[0]], ok, not anywhere or (bool(v) and not ok), "prepare_run validates fixed_indices before the run is created",
                "prepare_run creates the run (and its folder) without validating fixed_indices first: an out-of-range or reduced selection is accepted", "validation happens in a helper; dominance not decided", key="prepare-run")
    else:
        ctx.add("3-validated", prep, prep.node, None, "UNDECIDED: RunInfo.create call not found in prepare_run", key="prepare-run")
    mi = P.func(f"{AD}._maybe_iterate_axes")
    cfg = ctx.cfg(mi)
    ys = cfg.nodes(lambda s: isinstance(s, ast.Expr) and isinstance(s.value, ast.Yield) and s.value.value is not None and norm(s.value.value) != "None")
    vs = cfg.nodes(lambda s: isinstance(s, ast.Expr) and isinstance(s.value, ast.Call) and dotted(s.value.func) == "_validate_fixed_indices" and s.value.args)
    unvalidated = [y for y in ys if not any(cfg.dominates(v_, y) and norm(cfg.stmt[v_].value.args[0]) == norm(cfg.stmt[y].value.value) for v_ in vs)]
    ctx.tri("3-validated", mi, cfg.stmt[unvalidated[0]] if unvalidated else mi.node, bool(ys) and not unvalidated, bool(unvalidated),
            f"each of the {len(ys)} yielded selections was validated first", f"`{norm(cfg.stmt[unvalidated[0]])[:50] if unvalidated else ''}` hands out a selection that was not validated: the learners run with out-of-range / reduced axes", key="learner-entry")
    cl = P.func(f"{AD}.create_learners")
    src_loops = [it for it in iterations(cl.node) if "_maybe_iterate_axes(" in norm(Defs(cl).resolve(it["iter"]))]
    if src_loops:
        lv = norm(src_loops[0]["target"])
        passed = [norm(k.value) for c_ in ast.walk(src_loops[0]["node"]) if isinstance(c_, ast.Call) for k in c_.keywords if k.arg == "fixed_indices"] + \
                 [norm(a_) for c_ in ast.walk(src_loops[0]["node"]) if isinstance(c_, ast.Call) and dotted(c_.func) in ("_learner", "LearnerPipeFunc") for a_ in c_.args]
        raw = [p_ for p_ in passed if p_ == "fixed_indices" and lv != "fixed_indices"]
        ctx.tri("3-validated", cl, src_loops[0]["node"], lv in passed and not raw, bool(raw), "create_learners only uses selections that come out of _maybe_iterate_axes",
                "create_learners passes the caller's raw fixed_indices on instead of the validated selection", "use of the validated selection not recognised", key="create-learners")
    else:
        ctx.add("3-validated", cl, cl.node, None, "UNDECIDED: no loop over _maybe_iterate_axes(...)", key="create-learners")
    vf = P.func(f"{PREP}._validate_fixed_indices")
    rej = reach_rejections(ctx, vf)
    probe = [t for f_ in Scope(ctx, vf, wide=True).funcs for t in ast.walk(f_.node) if isinstance(t, ast.Try) and any(isinstance(x, ast.Subscript) and "inputs[" in norm(x) for st in t.body for x in ast.walk(st))
             and any(h.type is not None and "IndexError" in norm(h.type) and any(isinstance(x, ast.Raise) for x in ast.walk(h)) for h in t.handlers)]
    ctx.tri("3-validated", vf, probe[0] if probe else vf.node, bool(probe), False, "every mapped input is indexed with the requested selection to detect out-of-range entries", "", "out-of-range probe not recognised", key="range-probe")
    ctx.tri("3-validated", vf, vf.node, len(rej) >= 2, len(rej) == 0, f"{len(rej)} rejections besides the range probe (unknown axis, reduced axis)", "_validate_fixed_indices never rejects anything", f"only {len(rej)} rejection(s) found", key="rejections")
    red = [r for r in rej if any("reduced" in c_ or "_reduced_axes" in c_ for c_ in r["conds"])]
    ctx.tri("3-validated", vf, red[0]["node"] if red else vf.node, bool(red), "_reduced_axes" not in Scope(ctx, vf).text(), "a fixed axis that is reduced anywhere is rejected",
            "_validate_fixed_indices never consults _reduced_axes: fixing a reduced axis is accepted and the reduction sees a partial array", "reduced-axis rejection not recognised", key="reduced-axis")
    ir = P.func(f"{PREP}._is_parameter_reduced_by_function")
    rets = [r for r in walk_no_nested(ir.node) if isinstance(r, ast.Return) and r.value is not None]
    if len(rets) == 1:
        table = _reduced_table(Defs(ir).resolve(rets[0].value))
        if table is None:
            ctx.add("3-validated", ir, rets[0], None, "UNDECIDED: predicate uses other atoms than (in parameters, mapspec is None, in mapspec inputs)", key="reduced-predicate")
        else:
            want = {k: (k[0] and (k[1] or not k[2])) for k in table}
            wrong = [k for k in table if table[k] is not None and table[k] != want[k]]
            ctx.add("3-validated", ir, rets[0], not wrong, "reduced = consumed whole: by a function without MapSpec OR outside the consumer's MapSpec inputs" if not wrong else
                    f"`{norm(rets[0].value)[:90]}` differs from `in parameters and (no MapSpec or not a MapSpec input)` for (in parameters, no MapSpec, MapSpec input) = {wrong}: e.g. a mapped consumer that takes the array whole no longer counts as a reduction", key="reduced-predicate")
    else:
        ctx.add("3-validated", ir, ir.node, None, "UNDECIDED: predicate is not a single returned expression", key="reduced-predicate")
    ra = P.func(f"{PREP}._reduced_axes")
    its = iterations(ra.node)
    names_it = [it for it in its if "mapspec_names" in norm(it["iter"])]
    funcs_it = [it for it in its if norm(it["iter"]).endswith(".functions")]
    partial = [it for it in names_it + funcs_it if isinstance(it["iter"], ast.Subscript)]
    ctx.tri("3-validated", ra, ra.node, bool(names_it) and bool(funcs_it) and not partial, bool(partial), "every (array, consumer) pair is examined", "only part of the arrays/consumers is examined for reductions", "iteration over arrays x consumers not recognised", key="all-pairs")


def _conds_of(node: ast.AST, root: ast.AST) -> list[str]:
    """nnf conditions under which `node` executes inside `root` (enclosing ifs and preceding `continue` guards)."""
    par = {id(c): p for p in ast.walk(root) for c in ast.iter_child_nodes(p)}
    out = []
    x: ast.AST = node
    while id(x) in par and x is not root:
        child, x = x, par[id(x)]
        if isinstance(x, ast.If):
            out.append(nnf(x.test, neg=child in x.orelse or any(child is y for st in x.orelse for y in ast.walk(st))))
        body = getattr(x, "body", None)
        if isinstance(body, list) and child in body:
            for prev in body:
                if prev is child:
                    break
                if isinstance(prev, ast.If) and prev.body and isinstance(prev.body[-1], (ast.Continue, ast.Return, ast.Break)) and not prev.orelse:
                    out.append(nnf(prev.test, neg=True))
    return out


def rule_skip(ctx: Ctx) -> None:
    P = ctx.prog
    ei = P.func(f"{RUN}._existing_and_missing_indices")
    fm = [p for p in ei.param_names() if "mask" in p]
    loops = [it for it in iterations(ei.node) if it["kind"] == "loop" and fm and fm[0] in norm(it["iter"])]
    if loops:
        lp = loops[0]
        names = [x.id for x in sorted((x for x in ast.walk(lp["target"]) if isinstance(x, ast.Name)), key=lambda x: (x.lineno, x.col_offset))]
        sel = names[-1] if names else "?"
        # which element of the loop target receives the selection mask: by its position among the zipped operands
        zips = [c for c in ast.walk(lp["iter"]) if isinstance(c, ast.Call) and dotted(c.func) == "zip"]
        inner = next((t for t in ast.walk(lp["target"]) if isinstance(t, ast.Tuple) and any(isinstance(e, ast.Starred) for e in t.elts)), None)
        if zips and inner is not None:
            pos = [i for i, a_ in enumerate(zips[0].args) if norm(a_) == fm[0]]
            plain = [e for e in inner.elts if isinstance(e, ast.Name)]
            if pos and pos[0] == 0 and isinstance(inner.elts[0], ast.Name):
                sel = inner.elts[0].id
            elif pos and pos[0] == len(zips[0].args) - 1 and isinstance(inner.elts[-1], ast.Name):
                sel = inner.elts[-1].id
            elif len(plain) == 1:
                sel = plain[0].id
        appends = [c for c in ast.walk(lp["node"]) if isinstance(c, ast.Call) and isinstance(c.func, ast.Attribute) and c.func.attr == "append"]
        guarded = [c for c in appends if sel in _conds_of(c, lp["node"])]
        tested = any(isinstance(x, ast.Name) and x.id == sel for s_ in ast.walk(lp["node"]) if isinstance(s_, ast.If) for x in ast.walk(s_.test))
        ctx.tri("4-skip", ei, lp["node"], bool(appends) and len(guarded) == len(appends), bool(appends) and not tested, "unselected indices are skipped before classification",
                f"the selection flag `{sel}` is never tested: unselected indices are classified as existing/missing, so a partial run computes (or reads) elements outside its part", "guarding of the classification not recognised", key="select-first")
    else:
        ctx.add("4-skip", ei, ei.node, None, "UNDECIDED: loop over the selection mask not found", key="select-first")
    pq = P.func(f"{RUN}._prepare_submit_map_spec")
    d = Defs(pq)
    cs = [c for c in ast.walk(pq.node) if isinstance(c, ast.Call) and dotted(c.func) == "_existing_and_missing_indices"]
    if cs:
        m = arg(cs[0], 1, "fixed_mask")
        t = norm(d.resolve(m)) if m is not None else "None"
        ctx.tri("4-skip", pq, cs[0], "_mask_fixed_axes(" in t, t == "None", "the selection restricts the existing/missing split", "the map path passes no selection mask: fixed_indices are ignored and every element is computed", f"mask argument `{t[:40]}`", key="map-uses-mask")
    ex = P.func(f"{AD}._execute_iteration_in_map_spec")
    cfg = ctx.cfg(ex)
    runs = cfg.nodes(lambda s: not isinstance(s, (ast.If, ast.For)) and any(isinstance(c, ast.Call) and dotted(c.func) == "_run_iteration_and_process" for c in ast.walk(s)))
    asks = "has_index(" in norm(ex.node)
    if runs:
        gs = guards(cfg, Defs(ex), runs[0])
        ctx.tri("4-skip", ex, cfg.stmt[runs[0]], any("has_index(" in t for t, _p in gs), not asks, "learner: an element stored for every output is not recomputed",
                "the learner never asks the storage whether the element exists: stored elements are recomputed", "the existence test does not control the run in a recognised way", key="learner-skip")


def rule_writes(ctx: Ctx) -> None:
    P = ctx.prog
    ex = P.func(f"{AD}._execute_iteration_in_map_spec")
    calls = [c for c in ast.walk(ex.node) if isinstance(c, ast.Call) and dotted(c.func) == "_run_iteration_and_process"]
    if calls:
        fd = [k.value for k in calls[0].keywords if k.arg == "force_dump"]
        forced = bool(fd) and isinstance(fd[0], ast.Constant) and fd[0].value is True
        ctx.tri("5-writes", ex, calls[0], forced, not fd or (isinstance(fd[0], ast.Constant) and fd[0].value is False), "the learner forces the dump (it has no parent post-processing step)",
                "the learner does not force the dump: results of storages that are dumped by the parent are never written", key="force-dump")
    rip = P.func(f"{RUN}._run_iteration_and_process")
    ua = [c for c in ast.walk(rip.node) if isinstance(c, ast.Call) and dotted(c.func) == "_update_array"]
    if ua:
        fd = [k.value for k in ua[0].keywords if k.arg == "force_dump"]
        ctx.tri("5-writes", rip, ua[0], bool(fd) and norm(Defs(rip).resolve(fd[0])) == "force_dump", not fd, "force_dump is passed on to _update_array", "force_dump is not passed on to _update_array (its default False applies)", key="force-dump-forward")
    es = P.func(f"{AD}._execute_iteration_in_single")
    t = norm(es.node)
    ctx.tri("5-writes", es, es.node, "_submit_func(" in t and "_process_task(" in t, False, "single-call learners run and store through the same submit/process pair as map", "", "single-call learner path not recognised", key="single-learner")


def rule_axes(ctx: Ctx) -> None:
    P = ctx.prog
    ia = P.func(f"{AD}._iterate_axes")
    gen = next((g for g in ast.walk(ia.node) if isinstance(g, ast.GeneratorExp) and isinstance(g.elt, ast.Tuple) and len(g.elt.elts) == 2), None)
    good, bad, why = False, False, "(parameter, dimension) generator not found"
    if gen is not None:
        dim = gen.elt.elts[1]
        if isinstance(dim, ast.Call) and isinstance(dim.func, ast.Attribute) and dim.func.attr == "index" and dim.args and norm(dim.args[0]) == "axis":
            good = True
        elif isinstance(dim, ast.Name):
            enum = [g for g in gen.generators if isinstance(g.iter, ast.Call) and dotted(g.iter.func) == "enumerate" and isinstance(g.target, ast.Tuple) and norm(g.target.elts[0]) == dim.id]
            if enum:
                nm = norm(enum[0].target.elts[1])
                good = any(norm(t) in (f"{nm} == axis", f"axis == {nm}") for g in gen.generators for t in g.ifs)
                bad = not good
                why = f"the dimension `{dim.id}` is not tied to the position of `axis` (the first position of every matching input is taken)"
    ctx.tri("6-axes", ia, gen if gen is not None else ia.node, good, bad, "dimension = position of the axis name in that input's axes", why, why, key="axis-position")


ONE_SHOT = ("flatiter", "Iterator", "Generator")
NON_CONSUMING = {"len", "isinstance", "id", "type", "repr", "str", "print", "bool"}


def rule_one_shot(ctx: Ctx) -> None:
    """The selection mask is a one-shot iterator (`np.flatiter`): it can be walked once.

    A local bound to the result of a function whose return annotation is a flatiter / Iterator / Generator is exhausted by its
    first consumer; a second consumer on the same path sees it empty (every index then counts as unselected and a partial run
    silently computes nothing).  Rule: no two consuming uses of such a local where one can follow the other."""
    P = ctx.prog
    n = 0
    for mn in ("pipefunc.map._run", "pipefunc.map.adaptive", "pipefunc.map._prepare", "pipefunc.map._shapes"):
        for fn in P.functions_in(mn):
            cfg = None
            sources: dict[str, ast.AST] = {}
            for a in walk_no_nested(fn.node):
                if isinstance(a, ast.Assign) and len(a.targets) == 1 and isinstance(a.targets[0], ast.Name) and isinstance(a.value, ast.Call):
                    for callee in ctx.cg.resolve_callable(fn, a.value.func):
                        r = callee.node.returns
                        if r is not None and any(w in norm(r) for w in ONE_SHOT) and not any(d.endswith("contextmanager") for d in callee.decorators):
                            sources[a.targets[0].id] = a
            for p_ in fn.params:
                if p_.annotation is not None and any(w in norm(p_.annotation) for w in ONE_SHOT):
                    sources[p_.arg] = p_
            for name, src in sources.items():
                par = {id(c): q for q in ast.walk(fn.node) for c in ast.iter_child_nodes(q)}
                uses = []
                for x in walk_no_nested(fn.node):
                    if not (isinstance(x, ast.Name) and x.id == name and isinstance(x.ctx, ast.Load)):
                        continue
                    up = par.get(id(x))
                    if isinstance(up, ast.Starred):
                        up = par.get(id(up))
                    consuming = (isinstance(up, ast.Call) and x is not up.func and dotted(up.func) not in NON_CONSUMING) or (isinstance(up, (ast.For, ast.comprehension)) and up.iter is x)
                    if consuming:
                        uses.append(x)
                if not uses:
                    continue
                n += 1
                cfg = cfg or ctx.cfg(fn)
                nodes = [cfg.node_containing(u) for u in uses]
                clash = [(u1, u2) for (u1, n1), (u2, n2) in itertools.permutations(zip(uses, nodes), 2) if n1 is not None and n2 is not None and n1 != n2 and n2 in cfg.reachable_from(n1)
                         and (u1.lineno, u1.col_offset) < (u2.lineno, u2.col_offset)]
                same_stmt = [(u1, u2) for (u1, n1), (u2, n2) in itertools.combinations(zip(uses, nodes), 2) if n1 == n2]
                bad = clash or same_stmt
                ctx.add("7-one-shot", fn, bad[0][1] if bad else uses[0], not bad, f"the one-shot iterator `{name}` has a single consumer on every path" if not bad else
                        f"`{name}` is a one-shot iterator ({norm(getattr(src, 'annotation', None) or src)[:50]}) that was already consumed at line {bad[0][0].lineno}: this second consumer sees it exhausted (nothing is selected any more)",
                        key=f"one-shot {fn.name}.{name}")
    ctx.floor("7-one-shot", n, 2)


def rule_optional_results(ctx: Ctx) -> None:
    """Stated beliefs are checked against the callee.  Where a caller writes `v = f(...)` and then `assert v is not None`, it
    relies on f answering None only under conditions the caller has already excluded (`if fixed_indices is None: return ...`
    before the call).  In f, every `return None` must be unreachable under those conditions; a new early `return None` (say,
    "nothing is restricted, no mask needed") is fine for a caller that tests for None and breaks the one that asserts."""
    from ..flow import bind_args, guard_facts, reachable_under

    P = ctx.prog
    n = 0
    for fn in P.functions.values():
        if not fn.module.name.startswith("pipefunc.map"):
            continue
        asserts = [a for a in walk_no_nested(fn.node) if isinstance(a, ast.Assert) and isinstance(a.test, ast.Compare) and isinstance(a.test.left, ast.Name) and len(a.test.ops) == 1
                   and isinstance(a.test.ops[0], ast.IsNot) and isinstance(a.test.comparators[0], ast.Constant) and a.test.comparators[0].value is None]
        if not asserts:
            continue
        d = Defs(fn)
        cfg = ctx.cfg(fn)
        for a in asserts:
            v = d.unique(a.test.left.id)
            if not isinstance(v, ast.Call):
                continue
            callees = [c for c in ctx.cg.resolve_callable(fn, v.func) if c.module.name.startswith("pipefunc.map") and c.name not in ("__init__", "__post_init__")]
            if len(callees) != 1:
                continue
            g = callees[0]
            gcfg = ctx.cfg(g)
            nones = gcfg.nodes(lambda s_: isinstance(s_, ast.Return) and (s_.value is None or (isinstance(s_.value, ast.Constant) and s_.value.value is None)))
            if not nones:
                continue
            n += 1
            binding = {arg.id: prm for prm, arg in bind_args(v, g).items() if isinstance(arg, ast.Name)}
            env: dict[str, bool] = {}
            for text, pol in guard_facts(cfg, d, cfg.node(a)):
                names = {x.id for x in ast.walk(ast.parse(text, mode="eval")) if isinstance(x, ast.Name)} if _parses(text) else set()
                if names and names <= set(binding):
                    t2 = ast.parse(text, mode="eval").body
                    for x in ast.walk(t2):
                        if isinstance(x, ast.Name):
                            x.id = binding[x.id]
                    env[norm(t2)] = pol
            verdicts = [reachable_under(gcfg, Defs(g), nd, env) for nd in nones]
            bad = [nd for nd, r in zip(nones, verdicts) if r is True]
            ctx.tri("2-one-mask", g, gcfg.stmt[bad[0]] if bad else g.node, all(r is False for r in verdicts), bool(bad) and bool(env),
                    f"{g.name} returns None only where {fn.name} has excluded it ({env})",
                    f"{g.name} can return None although {env} holds (`{norm(gcfg.stmt[bad[0]])[:40] if bad else ''}` at line {getattr(gcfg.stmt[bad[0]], 'lineno', '?') if bad else '?'}): {fn.name} asserts the result is not None under exactly that condition - "
                    "create_learners fails (or, with assertions disabled, silently computes nothing) for a valid selection that leaves a function unrestricted",
                    f"whether {g.name} can return None where {fn.name} asserts it does not ({env or 'no excluding condition found'})", key=f"belief {fn.name} {g.name}")
    ctx.floor("2-one-mask.beliefs", n, 1)


def rule_no_pipeline_memo(ctx: Ctx) -> None:
    """What is derived from a pipeline (reduced axes, shapes, generations) is remembered only in cached properties, which
    _clear_internal_cache drops whenever the pipeline or one of its functions changes.  A process-wide memo (module-level
    container, lru_cache) keyed by something computed from the pipeline is outside that protocol: it keeps answering for a
    pipeline that has since gained a reducing function - the validation of fixed_indices then depends on what was validated
    earlier in the process."""
    P = ctx.prog
    mutators = ("append", "extend", "insert", "update", "setdefault", "add", "__setitem__")
    n, bad = 0, []
    for mn, mod in P.modules.items():
        if not mn.startswith(("pipefunc.map", "pipefunc._pipeline")):
            continue
        glob = {nm for nm, v in mod.assigns.items() if isinstance(v, (ast.Dict, ast.List, ast.Set))
                or (isinstance(v, ast.Call) and dotted(v.func).rsplit(".", 1)[-1] in ("dict", "list", "set", "defaultdict", "OrderedDict", "WeakValueDictionary", "WeakKeyDictionary", "deque"))}
        for fn in P.functions_in(mn):
            takes = [p_.arg for p_ in fn.params if p_.annotation is not None and any(w in norm(p_.annotation) for w in ("Pipeline", "PipeFunc"))]
            if not takes:
                continue
            n += 1
            memo = [d_ for d_ in fn.decorators if d_.rsplit(".", 1)[-1] in ("lru_cache", "cache")]
            if memo:
                bad.append((fn, fn.node, f"{fn.name} is memoised with @{memo[0]} on its `{takes[0]}` argument"))
            local = {a_.arg for a_ in fn.params} | {t.id for a_ in ast.walk(fn.node) if isinstance(a_, ast.Assign) for t in a_.targets if isinstance(t, ast.Name)}
            for x in ast.walk(fn.node):
                name = None
                if isinstance(x, ast.Subscript) and isinstance(x.ctx, ast.Store) and isinstance(x.value, ast.Name):
                    name = x.value.id
                if isinstance(x, ast.Call) and isinstance(x.func, ast.Attribute) and x.func.attr in mutators and isinstance(x.func.value, ast.Name):
                    name = x.func.value.id
                if name in glob and name not in local:
                    bad.append((fn, x, f"`{norm(x)[:60]}` stores what {fn.name} derives from `{takes[0]}` in the module-level `{name}`"))
    ctx.add("3-validated", bad[0][0] if bad else "pipefunc.map", bad[0][1] if bad else "", not bad, f"nothing derived from a pipeline is kept in process-wide state ({n} functions taking a pipeline / function examined)" if not bad else
            bad[0][2] + ": the entry outlives every later change of the pipeline (cached properties are cleared by _clear_internal_cache, this is not) - a pipeline that gains a reducing function is still validated with the remembered "
            "answer, so a request that fixes a reduced axis is accepted (or a valid one refused) depending on what ran earlier in the process", key="no-pipeline-memo")
    ctx.floor("3-validated.pipeline-takers", n, 10)


def _parses(text: str) -> bool:
    try:
        ast.parse(text, mode="eval")
    except SyntaxError:
        return False
    return True


def check(ctx: Ctx) -> None:
    for rule in (rule_sequence, rule_one_mask, rule_validated, rule_skip, rule_writes, rule_axes, rule_one_shot, rule_optional_results, rule_no_pipeline_memo):
        ctx.run(rule)


A, R, PR = "pipefunc/map/adaptive.py", "pipefunc/map/_run.py", "pipefunc/map/_prepare.py"
MUTANTS = [
    Mutant("sequence-original-F08", A, "        return range(prod(external_shape_from_mask(shape, mask)))\n", "        return range(prod(shape))\n", ("C06.1-sequence",), why="original F08"),
    Mutant("learner-passes-external-shape", A, "        sequence = _sequence(fixed_indices, func.mapspec, shape, mask)\n", "        sequence = _sequence(fixed_indices, func.mapspec, external_shape_from_mask(shape, mask), mask)\n", ("C06.1-sequence",)),
    Mutant("own-mask-in-sequence", A, "    fixed_mask = _mask_fixed_axes(fixed_indices, mapspec, shape, mask)\n", "    fixed_mask = np.ones(external_shape_from_mask(shape, mask), dtype=bool).flat\n", ("C06.2-one-mask",)),
    Mutant("slice-normalised", R, "    key = tuple(fixed_indices.get(axis, slice(None)) for axis in mapspec.output_indices)\n",
           "    key = tuple(fixed_indices.get(axis, slice(None)) for axis in mapspec.output_indices)\n    key = tuple(slice(*k.indices(n)) if isinstance(k, slice) else k for k, n in zip(key, shape))\n", ("C06.2-one-mask",), why="seeded C06/3"),
    Mutant("prepare-run-no-validation", PR, "    _validate_fixed_indices(fixed_indices, inputs, pipeline)\n    run_info = RunInfo.create(", "    run_info = RunInfo.create(", ("C06.3-validated",)),
    Mutant("split-axes-not-validated", A, "        _validate_fixed_indices(_fixed_indices, inputs, pipeline)\n        yield _fixed_indices\n", "        yield _fixed_indices\n", ("C06.3-validated",)),
    Mutant("reduced-predicate-simplified", PR, "    return name in func.parameters and (\n        func.mapspec is None or name not in func.mapspec.input_names\n    )\n", "    return func.mapspec is None and name in func.parameters\n", ("C06.3-validated",), why="seeded C06/2"),
    Mutant("selection-never-tested", R, "        if not select:\n            continue\n        if any(mask_values)", "        if any(mask_values)", ("C06.4-skip",)),
    Mutant("learner-no-force-dump", A, "        cache,\n        force_dump=True,\n    )\n", "        cache,\n    )\n", ("C06.5-writes",)),
    Mutant("iterate-axes-first-dim", A, "            (p, axes.index(axis))\n            for p, axes in mapspec_axes.items()\n", "            (p, dim)\n            for p, axes in mapspec_axes.items()\n            for dim, ax in enumerate(axes)\n", ("C06.6-axes",), why="seeded C06/1"),
    Mutant("twin-sequence-local", A, "        return range(prod(external_shape_from_mask(shape, mask)))\n", "        n_elements = prod(external_shape_from_mask(shape, mask))\n        return range(n_elements)\n", twin=True),
    Mutant("twin-iterate-axes-enumerate", A, "            (p, axes.index(axis))\n            for p, axes in mapspec_axes.items()\n", "            (p, dim)\n            for p, axes in mapspec_axes.items()\n            for dim, ax in enumerate(axes)\n            if ax == axis\n", twin=True),
]
