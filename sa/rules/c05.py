"""C05 - an interrupted map resumes to the uninterrupted result (structural clauses, true for every crash point).

  1 atomic     file presence is the completion marker, so in the run-folder modules only `atomic_write` may open a file
               for writing; it writes a temporary sibling that no reader pattern matches and publishes it with ONE
               atomic replace *after* the file is closed; the destination is never unlinked
  2 guarded    every load of a run-folder file is dominated by an existence test of that same path, or is covered by a
               commit-marker protocol (run_info.json is written after the inputs/defaults that RunInfo.load reads)
  3 missing    a resumed map submits exactly the `missing` indices, derived from the masks of ALL outputs of the
               function; stored single outputs and learner elements are returned before any user call
  4 no-delete  nothing in the map modules deletes from a run folder except _cleanup_run_folder under `if cleanup`
  5 propagate  handle_error never returns normally (shared with C13)
  7 loaded-marked  a function returning either a loaded (already picked) or a computed (raw) result marks the loaded case
  6 gate       the cleanup=False gate receives the values in the form in which they are recorded (no normalisation after the gate)
"""

from __future__ import annotations

import ast
import re
import itertools

from ..cfg import CFG, ENTRY, EXIT, header_parts
from ..effects import FS_DELETE, FS_WRITE, USER_CALL, _open_mode
from ..flow import Defs, Scope, arg, bool_atoms, bool_eval, cond, guard_facts, guards, iterations, nnf, reaching_value
from ..loader import FuncInfo, dotted, norm, walk_no_nested
from ..report import Ctx
from ..selftest import Mutant

PROP = "C05"
TECHNIQUE = "static analysis: who-may-open-for-write rule + ordering analysis of the atomic publishing primitive + existence-guard dominance for every load + role tracing of the existing/missing lists + effect summaries (FS_WRITE/FS_DELETE) with joint branch-condition evaluation + gate like-with-like ordering rule + path-sensitive three-valued (bool | None) truthiness analysis with flag tracking + gate whole-value operands (no narrowing) + temp-file placement rule + loaded-arity rule + record-deleted-only-with-folder rule + non-exclusive temporary file + recorded-files-only loading (no directory listings) + presence decided by file name, not by entry counts + reaching-definition expansion of guard flags + exists-flag of _load_from_store via reaching definitions (asked of the store, never read off the loaded value)"
EXPLANATION = (
    "Static analysis: a who-may-open-for-write rule over the modules that touch a run folder, a shape/ordering analysis "
    "of the one publishing primitive (temporary sibling, close, single atomic replace), dominance of every load by an "
    "existence test of the same path (or the commit-marker ordering in RunInfo._write), def-use of the index list that "
    "is submitted on resume, and effect summaries for deletions."
)
TRUSTED = ["CPython ast parser", "os.replace / Path.replace is atomic on POSIX", "call graph and effect patterns of sa/effects.py"]
DECLINED = [
    "enumeration of concrete crash points and torn-write sizes; equality of resumed and uninterrupted results (needs execution)",
    "durability (fsync) of published files across power loss",
    "zarr-backed storages (publication is delegated to zarr; not importable here)",
]

RUN_FOLDER_MODULES = ("pipefunc.map._run", "pipefunc.map._run_info", "pipefunc.map._storage_array._file", "pipefunc.map._storage_array._dict",
                      "pipefunc.map._storage_array._base", "pipefunc.map._load", "pipefunc.map._prepare", "pipefunc.map.adaptive", "pipefunc._utils")
ATOMIC = "pipefunc._utils.atomic_write"
READER_NAME_PATTERNS = ("__{:d}__.pickle", ".cloudpickle", "run_info.json", "dict_array.cloudpickle")


def _parents(root: ast.AST) -> dict[int, ast.AST]:
    return {id(c): p for p in ast.walk(root) for c in ast.iter_child_nodes(p)}


def _helper_value(ctx: Ctx, fn: FuncInfo, e: ast.AST) -> ast.AST:
    """`e`, or the expression a one-level private helper returns when `e` is a call to it."""
    if isinstance(e, ast.Call):
        for callee in ctx.cg.resolve_callable(fn, e.func):
            if callee.module.name == fn.module.name:
                rets = [r.value for r in walk_no_nested(callee.node) if isinstance(r, ast.Return) and r.value is not None]
                if len(rets) == 1:
                    return Defs(callee).resolve(rets[0])
    return e


def rule_atomic(ctx: Ctx) -> None:  # noqa: C901, PLR0915
    P, cg = ctx.prog, ctx.cg
    n_open = 0
    for m in RUN_FOLDER_MODULES:
        for fn in P.functions_in(m):
            for c in [c for c in walk_no_nested(fn.node) if isinstance(c, ast.Call)]:
                mode = _open_mode(c)
                if mode is None or not (mode == "?" or any(x in mode for x in "wax+")):
                    continue
                n_open += 1
                ok = fn.qualname == ATOMIC
                ctx.add("1-atomic", fn, c, ok, "the publishing primitive opens its temporary file" if ok else
                        f"`{norm(c)[:70]}` writes a run-folder file in place: a death mid-write leaves a torn file under the final name, which readers take for a completed result", key=f"open-for-write in {fn.name}")
            for c in [c for c in walk_no_nested(fn.node) if isinstance(c, ast.Call) and dotted(c.func) in ("json.dump", "cloudpickle.dump", "pickle.dump")]:
                par = _parents(fn.node)
                x: ast.AST = c
                via = False
                while id(x) in par:
                    x = par[id(x)]
                    if isinstance(x, ast.With):
                        for it in x.items:
                            if isinstance(it.context_expr, ast.Call) and dotted(it.context_expr.func).rsplit(".", 1)[-1] == "atomic_write" and it.optional_vars is not None and len(c.args) >= 2 and norm(it.optional_vars) == norm(c.args[1]):
                                via = True
                n_open += 1
                ctx.add("1-atomic", fn, c, via, "serialised into a handle obtained from atomic_write" if via else f"`{norm(c)[:60]}` does not write through atomic_write", key=f"dump-handle in {fn.name}")
    ctx.floor("1-atomic.sites", n_open, 3)
    aw = P.func(ATOMIC)
    ok = any("contextmanager" in d for d in aw.decorators)
    ctx.add("1-atomic", aw, aw.node, ok, "atomic_write is a context manager" if ok else "atomic_write is no longer a context manager", key="ctxmgr")
    dest = aw.param_names()[0]
    opens = [w for w in walk_no_nested(aw.node) if isinstance(w, ast.With) and any(isinstance(i.context_expr, ast.Call) and isinstance(i.context_expr.func, ast.Attribute) and i.context_expr.func.attr == "open" for i in w.items)
             and any(isinstance(y, ast.Yield) for y in ast.walk(w))]
    # temporary files from the tempfile module live in the system temp directory unless `dir=` says otherwise: a rename from
    # there to the run folder crosses file systems (fails, or - with shutil.move - degrades to a copy in place over the final name)
    mk = [c for c in ast.walk(aw.node) if isinstance(c, ast.Call) and dotted(c.func).rsplit(".", 1)[-1] in ("mkstemp", "NamedTemporaryFile", "TemporaryFile", "mkdtemp", "SpooledTemporaryFile")]
    for c in mk:
        dirs = [k.value for k in c.keywords if k.arg == "dir"] + (list(c.args[2:3]) if dotted(c.func).endswith("mkstemp") else [])
        beside = bool(dirs) and dest in {x.id for x in ast.walk(Defs(aw).resolve(dirs[0])) if isinstance(x, ast.Name)}
        ctx.tri("1-atomic", aw, c, beside, not dirs, "the temporary file is created in the destination's directory",
                f"`{norm(c)[:60]}` creates the temporary file in the system temp directory, not beside the destination: publishing it is a cross-device move (not atomic; a kill mid-copy leaves a torn file under the final name)",
                "directory of the temporary file not recognised", key="tmp-sibling")
    # the temporary file is opened with the caller's mode: an exclusive create ('x') turns the leftover of a killed writer into a
    # permanent FileExistsError for every later writer of that file (the resumed run cannot complete)
    excl = [c for c in ast.walk(aw.node) if isinstance(c, ast.Call) and isinstance(c.func, ast.Attribute) and c.func.attr == "open" and c.args
            and any(isinstance(x, ast.Constant) and isinstance(x.value, str) and "x" in x.value and len(x.value) <= 3 for x in ast.walk(c.args[0]))]
    ctx.add("1-atomic", aw, excl[0] if excl else aw.node, not excl, "the temporary file is opened with the caller's mode (an existing leftover is overwritten)" if not excl else
            f"`{norm(excl[0])[:60]}` creates the temporary file exclusively: the leftover of a writer that was killed makes every later write of that file fail with FileExistsError - the resumed run cannot complete", key="tmp-not-exclusive")
    if not opens:
        pub = [c for c in ast.walk(aw.node) if isinstance(c, ast.Call) and dotted(c.func) in ("shutil.move", "shutil.copy", "shutil.copyfile", "shutil.copy2", "os.rename") and len(c.args) == 2 and norm(c.args[1]) == dest]
        if pub:
            ctx.add("1-atomic", aw, pub[0], False, f"`{norm(pub[0])[:50]}` is not an atomic replace of the destination (shutil.move copies in place when source and destination are on different file systems)", key="one-replace")
            return
        ctx.add("1-atomic", aw, aw.node, None, "UNDECIDED: `with <tmp>.open(...)` around the yield not found", key="one-replace")
        return
    tmp = norm(next(i.context_expr.func.value for i in opens[0].items if isinstance(i.context_expr, ast.Call) and isinstance(i.context_expr.func, ast.Attribute) and i.context_expr.func.attr == "open"))
    if tmp == dest:
        ctx.add("1-atomic", aw, opens[0], False, "atomic_write opens the destination itself: a death mid-write leaves a torn file under the final name", key="tmp-name")
        return
    d = Defs(aw)
    tdef = d.unique(tmp) if tmp.isidentifier() else None
    tval = _helper_value(ctx, aw, tdef) if tdef is not None else None
    tmp_src = norm(tval) if tval is not None else ""
    consts = [c.value for c in ast.walk(tval) if isinstance(c, ast.Constant) and isinstance(c.value, str)] if tval is not None else []
    sibling = ".with_name(" in tmp_src or ".with_suffix(" in tmp_src or ".parent /" in tmp_src
    reader = [c for c in consts if any(c.endswith(p_) for p_ in READER_NAME_PATTERNS)]
    def ending(e: ast.AST, depth: int = 3) -> str | None:
        """The literal text a name expression ends with ('' when it ends in an interpolated value that cannot be followed)."""
        e = d.resolve(e)
        if isinstance(e, ast.Constant) and isinstance(e.value, str):
            return e.value
        if isinstance(e, ast.JoinedStr) and e.values:
            last = e.values[-1]
            if isinstance(last, ast.Constant):
                return str(last.value)
            if isinstance(last, ast.FormattedValue) and depth:
                inner = ending(last.value, depth - 1)
                return "" if inner is None else inner
            return ""
        return None

    end = ending(tval.args[0]) if tval is not None and isinstance(tval, ast.Call) and tval.args else None
    ends_plain = end == ""  # ends in a value (the destination's own name / suffix), not in a literal marker
    if end:
        consts.append(end)
    ctx.tri("1-atomic", aw, tdef if tdef is not None else aw.node, sibling and any(c.endswith(".tmp") for c in consts) and not reader, bool(reader) or bool(ends_plain),
            "temporary = sibling of the destination with a name no reader pattern matches (same directory: rename stays atomic)",
            f"the temporary name `{tmp_src[:70]}` ends like the files readers look for: a half-written temporary is taken for a completed result", f"temporary name `{tmp_src[:60]}` not classified", key="tmp-name")
    ctx.tri("1-atomic", aw, tdef if tdef is not None else aw.node, "getpid" in tmp_src or "uuid" in tmp_src or "mkstemp" in tmp_src, False, "temporary name is unique per process", "", "uniqueness of the temporary name not recognised", key="tmp-unique")
    repl = [c for c in walk_no_nested(aw.node) if isinstance(c, ast.Call) and ((isinstance(c.func, ast.Attribute) and c.func.attr == "replace" and norm(c.func.value) == tmp and len(c.args) == 1 and norm(c.args[0]) == dest)
                                                                                 or (dotted(c.func) in ("os.replace",) and [norm(a_) for a_ in c.args] == [tmp, dest]))]
    renames = [c for c in ast.walk(aw.node) if isinstance(c, ast.Call) and ((isinstance(c.func, ast.Attribute) and c.func.attr == "rename") or dotted(c.func) in ("os.rename", "shutil.move", "shutil.copy", "shutil.copyfile"))]
    ctx.tri("1-atomic", aw, (renames or repl or [aw.node])[0], len(repl) == 1 and not renames, bool(renames), "published with one atomic replace(tmp -> destination)",
            f"`{norm(renames[0])[:50] if renames else ''}` is not an atomic replace of the destination", "publication step not recognised", key="one-replace")
    if len(repl) == 1:
        cfg = ctx.cfg(aw)
        inside = any(x is repl[0] for x in ast.walk(opens[0]))
        rn, wn = cfg.node_containing(repl[0]), cfg.node(opens[0])
        after = rn is not None and cfg.dominates(wn, rn)
        ctx.tri("1-atomic", aw, repl[0], (not inside) and after, inside, "the replace happens after the `with` that closes (flushes) the file",
                "the destination is published while the temporary file is still open: a kill after the rename leaves an unflushed (empty/torn) file under the final name", "ordering of close and replace not recognised", key="replace-after-close")
    dest_del = [c for c in ast.walk(aw.node) if isinstance(c, ast.Call) and ((isinstance(c.func, ast.Attribute) and c.func.attr in ("unlink", "rmdir", "rename") and norm(c.func.value) == dest)
                                                                            or (dotted(c.func) in ("os.remove", "os.unlink", "os.rename") and c.args and norm(c.args[0]) == dest))]
    ctx.add("1-atomic", aw, (dest_del or [aw.node])[0], not dest_del, "the destination is never removed or renamed away" if not dest_del else
            "the destination is unlinked/renamed before the new file is in place: a crash in between loses a complete previous value", key="dest-not-removed")
    users = {s.caller.qualname for s in cg.call_sites_of(ATOMIC)}
    ok = {"pipefunc._utils.dump", "pipefunc.map._run_info.RunInfo.dump"} <= users
    ctx.tri("1-atomic", ATOMIC, aw.loc, ok, False, f"used by {sorted(u.rsplit('.', 2)[-2] + '.' + u.rsplit('.', 1)[-1] for u in users)}", "", f"atomic_write is used by {sorted(users)}", key="users")


def _atom_nodes(test: ast.AST, truth: bool) -> list[tuple[ast.AST, bool]]:
    """Atomic sub-tests (node, truth value) known when `test` evaluated to `truth` (`a and b` true / `a or b` false are split)."""
    if isinstance(test, ast.UnaryOp) and isinstance(test.op, ast.Not):
        return _atom_nodes(test.operand, not truth)
    if isinstance(test, ast.BoolOp) and isinstance(test.op, ast.And if truth else ast.Or):
        return [a for v in test.values for a in _atom_nodes(v, truth)]
    return [(test, truth)]


def _existence_guarded(ctx: Ctx, fn: FuncInfo, node: ast.AST, target: str) -> bool:
    """`node` in `fn` only executes when `<target>.is_file()` / `.exists()` held (enclosing if / ifexp / early exit)."""
    d = Defs(fn)
    par = _parents(fn.node)
    want = {f"{target}.is_file()", f"{target}.exists()", f"({target}).is_file()", f"({target}).exists()"}
    rt = norm(d.resolve(ast.parse(target, mode="eval").body)) if target else target
    want |= {f"{rt}.is_file()", f"{rt}.exists()", f"({rt}).is_file()", f"({rt}).exists()"}
    x = node
    while id(x) in par:
        child, x = x, par[id(x)]
        if isinstance(x, ast.IfExp) and child is not x.test:
            # the facts that hold in the selected arm: conjuncts as written, and with a named flag replaced by its definition
            cfg_ = ctx.cfg(fn)
            use = cfg_.node_containing(node)
            for atom, truth in _atom_nodes(x.test, child is x.body):
                # a flag is replaced by its definition: the unique one, or the one that reaches this statement
                local = reaching_value(cfg_, atom.id, use) if isinstance(atom, ast.Name) and use is not None else None
                for test in (atom, d.resolve(atom), *([local] if local is not None else [])):
                    t, pol = cond(test)
                    if t in want and pol == truth:
                        return True
    cfg = ctx.cfg(fn)
    cn = cfg.node_containing(node)
    if cn is None:
        return False
    for g_ in (guards(cfg, d, cn), guards(cfg, Defs(ast.Module(body=[], type_ignores=[])), cn), guard_facts(cfg, d, cn), guard_facts(cfg, Defs(ast.Module(body=[], type_ignores=[])), cn)):
        if any(t in want and pol for t, pol in g_):
            return True
        for t, pol in g_:  # conjunctions: `a and p.is_file()`
            if pol and any(w in t.split(" and ") or f"({w})" in t for w in want):
                return True
    return False


def rule_guarded(ctx: Ctx) -> None:  # noqa: C901
    P, cg, eff = ctx.prog, ctx.cg, ctx.effects
    # the commit marker (run_info.json) NAMES the files that belong to the run: taking "whatever is in the folder" instead picks up
    # the half-written temporary a killed writer left behind - the resume gate then fails to unpickle it.  Likewise "as many
    # entries as elements" is not "every element present": leftovers count as elements
    LISTING = ("listdir", "scandir", "iterdir", "glob", "rglob")
    ld = P.func("pipefunc.map._run_info.RunInfo.load")
    listed = [c for f_ in Scope(ctx, ld).funcs for c in ast.walk(f_.node) if isinstance(c, ast.Call) and (dotted(c.func).rsplit(".", 1)[-1] in LISTING or (isinstance(c.func, ast.Attribute) and c.func.attr in LISTING))]
    ctx.add("2-guarded", ld, listed[0] if listed else ld.node, not listed, "RunInfo.load reads exactly the files that run_info.json names" if not listed else
            f"`{norm(listed[0])[:50]}`: RunInfo.load takes the content of a directory for the recorded inputs: the leftover temporary file of a writer that was killed (`<name>.<pid>.tmp`) is loaded as an input - "
            "the resume gate raises 'Could not load previous run info' (truncated pickle) instead of resuming", key="load-reads-recorded-files")
    # cleanup=True has to leave an EMPTY folder: shutil.rmtree refuses to operate on a symbolic link, and `ignore_errors=True` turns
    # that refusal into "nothing happened" - every file of the earlier run stays, the new run takes them for its own results
    for f_ in P.functions_in("pipefunc.map._run_info"):
        for c in [c for c in walk_no_nested(f_.node) if isinstance(c, ast.Call) and dotted(c.func).rsplit(".", 1)[-1] == "rmtree" and c.args]:
            silent = any(k.arg == "ignore_errors" and isinstance(k.value, ast.Constant) and k.value.value is True for k in c.keywords) or (len(c.args) > 1 and isinstance(c.args[1], ast.Constant) and c.args[1].value is True)
            target = norm(c.args[0])
            cfg_f = ctx.cfg(f_)
            nd = cfg_f.node_containing(c)
            handled = "resolve()" in norm(Defs(f_).resolve(c.args[0])) or "realpath" in norm(Defs(f_).resolve(c.args[0])) or any(isinstance(x, ast.Call) and isinstance(x.func, ast.Attribute) and x.func.attr in ("is_symlink", "islink") for x in ast.walk(f_.node))
            ctx.tri("4-no-delete", f_, c, (not silent) or handled, silent and not handled, f"`{norm(c)[:50]}`: a symbolic link is handled (or a failure of rmtree is not swallowed)",
                    f"`{norm(c)[:60]}` silently does nothing when `{target}` is a symbolic link (rmtree refuses links; ignore_errors=True swallows the refusal): with cleanup=True the folder keeps the files of the earlier run, "
                    "and the new run - with different inputs - finds every element 'already stored' and returns the OLD values", key=f"rmtree-follows-link {f_.name}")
    fa = P.classes.get("pipefunc.map._storage_array._file.FileArray")
    if fa is not None:
        for mname in ("mask_linear", "has_index", "mask"):
            m = dict.get(fa.methods, mname)
            if m is None:
                continue
            counts = [c for c in ast.walk(m.node) if isinstance(c, ast.Compare) and any(isinstance(x, ast.Call) and dotted(x.func) == "len" and x.args and any(
                isinstance(y, ast.Call) and (dotted(y.func).rsplit(".", 1)[-1] in LISTING) for y in ast.walk(Defs(m).resolve(x.args[0]))) for x in ast.walk(c))]
            ctx.add("3-missing", m, counts[0] if counts else m.node, not counts, f"FileArray.{mname} decides presence by file NAME" if not counts else
                    f"`{norm(counts[0])[:60]}` takes the NUMBER of directory entries for completeness: one leftover temporary file (a writer killed between write and rename) makes the count reach `size` while an element is missing - "
                    "the element is reported present, never computed, and reading it raises FileNotFoundError", key=f"presence-by-name {mname}")
    COVERED = {  # loads that are covered by a protocol instead of a local test: reason
        "pipefunc.map._run_info.RunInfo.load": "commit marker: run_info.json is tested by the caller and written after inputs/defaults (rule below)",
        "pipefunc.map._storage_array._file.FileArray.get_from_index": "callers only pass indices whose file the mask / has_index reported present (rule below)",
    }
    n_load = 0
    for m in RUN_FOLDER_MODULES:
        if m == "pipefunc._utils":
            continue
        for fn in P.functions_in(m):
            for c in [c for c in walk_no_nested(fn.node) if isinstance(c, ast.Call) and dotted(c.func) in ("load", "_read", "cloudpickle.load") and c.args]:
                n_load += 1
                if fn.qualname in COVERED:
                    ctx.add("2-guarded", fn, c, True, f"covered: {COVERED[fn.qualname]}", key=f"load in {fn.name} (protocol)")
                    continue
                target = norm(c.args[0])
                guarded = _existence_guarded(ctx, fn, c, target)
                tested_other = None
                if not guarded:
                    cn = ctx.cfg(fn).node_containing(c)
                    gs = guards(ctx.cfg(fn), Defs(fn), cn) if cn is not None else []
                    tested_other = next((t for t, pol in gs if any(w in t for w in (".is_file()", ".exists()", ".is_dir()"))), None)
                # a private helper may be called only under the test
                if not guarded and fn.name.startswith("_"):
                    sites = cg.call_sites_of(fn.qualname)
                    if sites and all(_existence_guarded(ctx, s_.caller, s_.node, norm(s_.node.args[0]) if s_.node.args else "") for s_ in sites if s_.kind == "call"):
                        guarded = True
                ctx.tri("2-guarded", fn, c, guarded, not guarded and (tested_other is not None or not fn.name.startswith("_") or True), f"`{target}` is loaded only after testing that very path",
                        f"`{norm(c)[:60]}` is not guarded by an existence test of `{target}`" + (f" (the test is `{tested_other}`)" if tested_other else "") + ": an interrupted run leaves the folder without that file and the resume raises",
                        key=f"load in {fn.name}")
    ctx.floor("2-guarded", n_load, 6)
    wr = P.func("pipefunc.map._run_info.RunInfo._write")
    cfg = ctx.cfg(wr)
    marker = cfg.nodes(lambda s: isinstance(s, ast.Expr) and isinstance(s.value, ast.Call) and norm(s.value.func) == "self.dump")
    others = [n for n in cfg.nodes() if n not in marker and any(isinstance(c, ast.Call) and any(eff.has(cal.qualname, FS_WRITE) for cal in cg.resolve_callable(wr, c.func)) for part in header_parts(cfg.stmt[n]) for c in ast.walk(part))]
    if len(marker) == 1 and others:
        late = [o for o in others if o in cfg.reachable_from(marker[0])]
        ctx.add("2-guarded", wr, cfg.stmt[late[0]] if late else cfg.stmt[marker[0]], not late, "run_info.json (the marker that makes a resume read inputs/defaults) is published last" if not late else
                f"`{norm(cfg.stmt[late[0]])[:60]}` is written after run_info.json: a death in between makes every resume fail to load the previous run info", key="marker-last")
    else:
        ctx.tri("2-guarded", wr, wr.node, False, not marker, "", "RunInfo._write never publishes run_info.json: a resume finds no marker (or a stale one)", "marker / other writes not recognised", key="marker-last")
    cmpf = P.func("pipefunc.map._run_info._compare_to_previous_run_info")
    loads = [(f, c) for f, c in Scope(ctx, cmpf).calls("load") if "RunInfo" in norm(c.func)]
    if loads:
        f_, c_ = loads[0]
        tgt = "RunInfo.path(" + (norm(c_.args[0]) if c_.args else "") + ")"
        g1 = _existence_guarded(ctx, f_, c_, tgt)
        if not g1 and f_ is not cmpf:
            sites = [s_ for s_ in cg.call_sites_of(f_.qualname) if s_.caller is cmpf]
            g1 = bool(sites) and all(_existence_guarded(ctx, cmpf, s_.node, "RunInfo.path(" + (norm(s_.node.args[0]) if s_.node.args else "") + ")") for s_ in sites)
        ctx.tri("2-guarded", cmpf, c_, g1, False, "the previous run info is loaded only when run_info.json exists (fresh or never-started folders are skipped)", "", "existence test of run_info.json before RunInfo.load not recognised", key="marker-tested")
    for s_ in cg.call_sites_of("pipefunc.map._storage_array._file.FileArray.get_from_index") + cg.call_sites_of("pipefunc.map._storage_array._base.StorageBase.get_from_index"):
        if s_.caller.module.name not in ("pipefunc.map._run", "pipefunc.map.adaptive"):
            continue
        src = ast.unparse(s_.caller.node)
        ctx.tri("2-guarded", s_.caller, s_.node, ("existing" in src) or ("has_index(" in src), False, "get_from_index only for indices known to exist", "", "the index passed to get_from_index was not traced to an existence check", key="get-from-index guarded")


def _roles_of_returned_lists(ei: FuncInfo) -> list[str]:
    """Roles ('missing' / 'existing' / '?') of the elements of the tuple returned by _existing_and_missing_indices."""
    rets = [r for r in walk_no_nested(ei.node) if isinstance(r, ast.Return) and isinstance(r.value, ast.Tuple)]
    if not rets:
        return []
    roles = []
    for e in rets[-1].value.elts:
        role = "?"
        if isinstance(e, ast.Name):
            for c in [c for c in ast.walk(ei.node) if isinstance(c, ast.Call) and isinstance(c.func, ast.Attribute) and c.func.attr == "append" and norm(c.func.value) == e.id]:
                conds = _conds_of(c, ei.node)
                if any(t.startswith("any(") for t in conds):
                    role = "missing"
                elif any(t.startswith("not any(") for t in conds):
                    role = "existing"
                elif any(t.startswith("all(") for t in conds):
                    role = "all-missing"
        roles.append(role)
    return roles


def rule_missing(ctx: Ctx) -> None:  # noqa: C901, PLR0915
    P = ctx.prog
    sf = P.func("pipefunc.map._run._submit_func")
    pm = [c for _f, c in Scope(ctx, sf, depth=1).calls("_maybe_parallel_map") if _f is sf]
    if pm:
        a2 = arg(pm[0], 2, "indices")
        t = norm(Defs(sf).resolve(a2)) if a2 is not None else "?"
        ctx.tri("3-missing", sf, pm[0], t.endswith(".missing") or t == "missing", "existing" in t or t.startswith("range("), "only the missing indices are submitted",
                f"`{t[:60]}` is submitted on (re)run: elements that are already stored are computed again (and overwritten)", f"submitted indices `{t[:40]}`", key="submit-missing")
    ps = P.func("pipefunc.map._run._prepare_submit_map_spec")
    ei = P.func("pipefunc.map._run._existing_and_missing_indices")
    roles = _roles_of_returned_lists(ei)
    em = [s_ for s_ in walk_no_nested(ps.node) if isinstance(s_, ast.Assign) and isinstance(s_.value, ast.Call) and dotted(s_.value.func) == "_existing_and_missing_indices" and isinstance(s_.targets[0], ast.Tuple)]
    msa = P.classes.get("pipefunc.map._run._MapSpecArgs")
    ctor = [c for c in ast.walk(ps.node) if isinstance(c, ast.Call) and dotted(c.func) == "_MapSpecArgs"]
    if em and roles and msa is not None and ctor and len(roles) == len(em[0].targets[0].elts):
        names = [norm(e) for e in em[0].targets[0].elts]
        role_of = dict(zip(names, roles))
        fields = list(msa.fields)
        given = {fields[i]: norm(a_) for i, a_ in enumerate(ctor[0].args) if i < len(fields)} | {k.arg: norm(k.value) for k in ctor[0].keywords if k.arg}
        wrong = [(f_, v) for f_, v in given.items() if f_ in ("existing", "missing") and role_of.get(v, f_) not in (f_, "?")]
        traced = all(given.get(f_) in role_of and role_of[given[f_]] != "?" for f_ in ("existing", "missing"))
        ctx.tri("3-missing", ps, em[0], traced and not wrong, bool(wrong), "the list of elements with a missing output becomes `missing`, the rest `existing`",
                f"{wrong}: the list built for the {role_of.get(wrong[0][1]) if wrong else ''} elements is used as `{wrong[0][0] if wrong else ''}` - stored elements are recomputed and missing ones are read", "roles of the two lists not traced", key="existing-missing")
    else:
        ctx.add("3-missing", ps, ps.node, None, "UNDECIDED: chain _existing_and_missing_indices -> _MapSpecArgs not recognised", key="existing-missing")
    allm = [r for r in roles if r == "all-missing"]
    # vectorised spellings of the same decision: the per-output masks (True = missing) must be combined with OR
    mask_names = {t.id for a_ in walk_no_nested(ei.node) if isinstance(a_, ast.Assign) and "mask_linear(" in norm(a_.value) for t in a_.targets if isinstance(t, ast.Name)}
    par_ei = _parents(ei.node)
    for c_ in [c_ for c_ in ast.walk(ei.node) if isinstance(c_, ast.Call)]:
        fn_t = norm(c_.func)
        on_masks = any(isinstance(x, ast.Name) and x.id in mask_names for a_ in c_.args for x in ast.walk(a_)) or (isinstance(c_.func, ast.Attribute) and isinstance(c_.func.value, ast.Name) and c_.func.value.id in mask_names)
        negated = isinstance(par_ei.get(id(c_)), ast.UnaryOp) and isinstance(par_ei[id(c_)].op, (ast.Invert, ast.Not))
        if on_masks and not negated and (fn_t.endswith("logical_and.reduce") or fn_t in ("np.all", "numpy.all") or (isinstance(c_.func, ast.Attribute) and c_.func.attr == "all" and isinstance(c_.func.value, ast.Name))):
            allm.append("all-missing")
        elif on_masks and not negated and (fn_t.endswith("logical_or.reduce") or fn_t in ("np.any", "numpy.any") or (isinstance(c_.func, ast.Attribute) and c_.func.attr == "any" and isinstance(c_.func.value, ast.Name))):
            roles = [*roles, "missing"]
    ctx.tri("3-missing", ei, ei.node, "missing" in roles and not allm, bool(allm), "an element is missing if ANY of its outputs is missing",
            "an element counts as missing only if ALL of its outputs are missing: an element whose later output was never written is taken as stored", "classification not recognised", key="any-missing")
    d = Defs(ps)
    arr_its = [it for it in iterations(ps.node) if "output_name" in norm(d.resolve(it["iter"])) and "store[" in norm(getattr(it["node"], "elt", it["node"]))]
    part = [it for it in arr_its if isinstance(it["iter"], ast.Subscript)]
    ctx.tri("3-missing", ps, (part or arr_its or [{"node": ps.node}])[0]["node"], bool(arr_its) and not part, bool(part), "arrays = the storage of EVERY output of the function", "only part of the outputs' storages take part in the existing/missing split", "construction of `arrays` not recognised", key="all-arrays")
    arrays_p = ei.param_names()[0]
    mask_its = [it for it in iterations(ei.node) if "mask_linear(" in norm(getattr(it["node"], "elt", it["node"])) or ("mask_linear(" in norm(it["node"]) and it["kind"] == "loop")]
    whole = [it for it in mask_its if norm(it["iter"]) == arrays_p]
    partial = [it for it in mask_its if isinstance(it["iter"], ast.Subscript)] + [x for x in ast.walk(ei.node) if isinstance(x, ast.Call) and isinstance(x.func, ast.Attribute) and x.func.attr == "mask_linear" and isinstance(x.func.value, ast.Subscript)]
    ctx.tri("3-missing", ei, ei.node, bool(whole) and not partial, bool(partial), "the masks of all arrays are consulted",
            "only some of the output arrays are consulted: an element whose later output was never written counts as stored", "consultation of the masks not recognised", key="all-masks")
    fm = P.func("pipefunc.map._storage_array._file.FileArray.mask_linear")
    cmps = [c for c in ast.walk(fm.node) if isinstance(c, ast.Compare) and len(c.ops) == 1 and isinstance(c.ops[0], (ast.In, ast.NotIn)) and "format(" in norm(c.left)]
    par = _parents(fm.node)
    pol = []
    for c in cmps:
        neg = isinstance(c.ops[0], ast.NotIn)
        y: ast.AST = c
        while id(y) in par:
            y = par[id(y)]
            if isinstance(y, ast.UnaryOp) and isinstance(y.op, ast.Not):
                neg = not neg
        pol.append(neg)
    ctx.tri("3-missing", fm, cmps[0] if cmps else fm.node, bool(pol) and all(pol), bool(pol) and not any(pol), "FileArray: missing = file name absent from the folder listing",
            "FileArray.mask_linear marks the PRESENT files as missing: stored elements are recomputed and missing ones are read", "polarity of the file mask not recognised", key="file-mask")
    for q, runs_calls in (("pipefunc.map._run._execute_single", ("_get_or_set_cache", "_run_iteration")), ("pipefunc.map.adaptive._execute_iteration_in_map_spec", ("_run_iteration_and_process",)),
                          ("pipefunc.map.adaptive._execute_iteration_in_single", ("_submit_func",))):
        f = P.func(q)
        cfg = ctx.cfg(f)
        fd_ = Defs(f)
        runs = cfg.nodes(lambda s, rc=runs_calls: not isinstance(s, (ast.If, ast.For)) and any(isinstance(c, ast.Call) and dotted(c.func) in rc for c in ast.walk(s)))
        asks = any(w in norm(f.node) for w in ("_load_from_store(", "has_index(", ".exists()", ".is_file()"))
        if not runs:
            ctx.add("3-missing", f, f.node, None, "UNDECIDED: the call that runs the function was not found", key=f"stored-first {f.name}")
            continue
        gs = guards(cfg, fd_, runs[0]) + guards(cfg, Defs(ast.Module(body=[], type_ignores=[])), runs[0])
        skipping = [t for t, pol_ in gs if not pol_ and any(w in t for w in ("exist", "has_index("))]
        ctx.tri("3-missing", f, cfg.stmt[runs[0]], bool(skipping), not asks, "a stored result is returned before the function can run",
                f"{f.name} never looks into the store before running the function: stored results are recomputed on resume", "the existence test does not control the run in a recognised way", key=f"stored-first {f.name}")
    lfs = P.func("pipefunc.map._run._load_from_store")
    its = [it for it in iterations(lfs.node) if "output_name" in norm(it["iter"])]
    ctx.tri("3-missing", lfs, lfs.node, bool(its) and not any(isinstance(it["iter"], ast.Subscript) for it in its), any(isinstance(it["iter"], ast.Subscript) for it in its),
            "every part of a tuple output is looked up", "only some parts of a tuple output are looked up", "iteration over the output names not recognised", key="tuple-all-exist")


    # "is stored" is asked of the STORE (is_file / exists), never read off the loaded value: None is a legal stored result, and a
    # function that returned None would be re-run on every resume (and its `exists` would say False although the file is there)
    from ..flow import dependence_text

    rets = [r.value for r in walk_no_nested(lfs.node) if isinstance(r, ast.Return) and r.value is not None]
    flags: list[ast.AST] = []
    for r in rets:
        rv = Defs(lfs).resolve(r)
        if isinstance(rv, ast.Call) and (len(rv.args) == 2 or any(k.arg == "exists" for k in rv.keywords)):
            flags.append(next((k.value for k in rv.keywords if k.arg == "exists"), rv.args[1] if len(rv.args) == 2 else rv.args[-1]))
        elif isinstance(rv, ast.Tuple) and len(rv.elts) == 2:
            flags.append(rv.elts[1])
    if not flags:
        ctx.add("3-missing", lfs, lfs.node, None, "UNDECIDED: the `exists` part of what _load_from_store returns was not recognised", key="exists-asked-of-store")
    else:
        from ..flow import reaching_values

        cfg_l = ctx.cfg(lfs)
        ret_nodes = cfg_l.nodes(lambda s_: isinstance(s_, ast.Return) and s_.value is not None)
        reaching: list[ast.AST] = []
        for f_ in flags:
            if isinstance(f_, ast.Name) and ret_nodes:
                rv = reaching_values(cfg_l, f_.id, ret_nodes[-1])
                reaching += [v for _n, v in rv] if rv else [f_]
            else:
                reaching.append(f_)
        by_value = None
        asked = plain_false = False
        for v in reaching:
            dep = dependence_text(lfs.node, v) if not isinstance(v, ast.Constant) else ""
            # only what the value itself is computed from - not the flag's other definitions
            own = norm(v) + " " + " ".join(dependence_text(lfs.node, ast.Name(id=x.id, ctx=ast.Load())) for x in ast.walk(v) if isinstance(x, ast.Name) and not any(isinstance(f_, ast.Name) and f_.id == x.id for f_ in flags))
            m_ = re.search(r"\b(\w+) is (not )?None\b", own)
            by_value = by_value or m_
            asked |= any(w in own for w in (".is_file()", ".exists()", "os.path.isfile(", "os.path.exists("))
            plain_false |= isinstance(v, ast.Constant) and v.value is False
            _ = dep
        ctx.tri("3-missing", lfs, lfs.node, (asked or plain_false) and not by_value, bool(by_value),
                "whether an output is stored is decided by asking the store", f"`{by_value.group(0) if by_value else ''}` decides whether an output is stored: a stored None (a function that returns None) counts as missing - "
                "the function is run again on every resume instead of its stored result being used", "how the `exists` flag is computed was not recognised", key="exists-asked-of-store")


def _conds_of(node: ast.AST, root: ast.AST) -> list[str]:
    par = _parents(root)
    out = []
    x: ast.AST = node
    while id(x) in par and x is not root:
        child, x = x, par[id(x)]
        if isinstance(x, ast.If):
            out.append(nnf(x.test, neg=not (child in x.body)))
    return out


def rule_no_delete(ctx: Ctx) -> None:
    """Whatever deletes from a run folder in the map modules does so only when `cleanup` is true: every deleting statement
    (found by effect, not by name) sits in a function with a `cleanup` parameter under conditions that require it, or in a
    helper all of whose call sites do."""
    P, cg, eff = ctx.prog, ctx.cg, ctx.effects

    def needs_cleanup(f: FuncInfo, node: ast.AST) -> bool | None:
        cfg = ctx.cfg(f)
        n = cfg.node_containing(node)
        if n is None:
            return None
        ctrl = [(Defs(f).resolve(t_), truth) for t_, truth in cfg.controls(n)]
        atoms = sorted({a_ for t_, _tr in ctrl for a_ in bool_atoms(t_)} - {"cleanup"})[:8]
        for vals in itertools.product((True, False), repeat=len(atoms)):
            env = dict(zip(atoms, vals)) | {"cleanup": False}
            if all(bool_eval(t_, env) in (truth, None) for t_, truth in ctrl):
                return False
        return True

    def judge(f: FuncInfo, node: ast.AST) -> bool | None:
        """Walk up the callers until functions with a `cleanup` parameter are reached; each of them must guard the call."""
        frontier = [(f, node)]
        seen: set[str] = set()
        verdicts: list[bool | None] = []
        for _ in range(8):
            nxt = []
            for g, nd in frontier:
                if "cleanup" in g.param_names():
                    verdicts.append(needs_cleanup(g, nd))
                    continue
                if g.qualname in seen:
                    continue
                seen.add(g.qualname)
                nxt += [(s_.caller, s_.node) for s_ in cg.call_sites_of(g.qualname)]
            frontier = nxt
            if not frontier:
                break
        if not verdicts:
            return False  # a deletion that no `cleanup` flag anywhere up the call chain controls
        if any(v is False for v in verdicts):
            return False
        return True if all(v is True for v in verdicts) and not frontier else None

    n_del = 0
    for q in sorted(q for q in eff.sources(FS_DELETE) if P.functions[q].module.name.startswith("pipefunc.map") and "zarr" not in q):
        f = P.functions[q]
        for node in eff.direct_of(q, FS_DELETE):
            n_del += 1
            v = judge(f, node)
            ctx.add("4-no-delete", f, node, v, "the folder is wiped only when cleanup is true" if v else
                    ("the run folder can be wiped although cleanup=False: the conditions that control the deletion do not all require `cleanup`" if v is False else
                     "UNDECIDED: the deletion is not (only) reached from a function with a `cleanup` parameter"), key=f"under-cleanup {f.name}")
    ctx.floor("4-no-delete", n_del, 1)


def rule_record_deleted_with_folder(ctx: Ctx) -> None:
    """run_info.json is what makes the cleanup=False gate compare at all (without it the gate lets everything pass).  It is removed
    only together with the outputs, by the one rmtree of the folder: deleting it separately (first) opens a window in which a kill
    leaves the outputs of the old run without the record that would have refused them - the next resume takes them for its own."""
    P = ctx.prog
    bad = []
    n = 0
    for fn in P.functions_in("pipefunc.map._run_info"):
        for c in ast.walk(fn.node):
            if isinstance(c, ast.Call) and isinstance(c.func, ast.Attribute) and c.func.attr in ("unlink", "rmdir", "rename") or (isinstance(c, ast.Call) and dotted(c.func) in ("os.remove", "os.unlink")):
                n += 1
                recv = c.func.value if isinstance(c.func, ast.Attribute) and c.func.attr in ("unlink", "rmdir", "rename") else (c.args[0] if c.args else c)
                t = norm(Defs(fn).resolve(recv))
                if "RunInfo.path(" in t or "run_info.json" in t or ".path(" in t:
                    bad.append((fn, c))
    ctx.add("4-no-delete", bad[0][0] if bad else "pipefunc.map._run_info", bad[0][1] if bad else "", not bad, "the run description is only ever removed together with its folder" if not bad else
            f"`{norm(bad[0][1])[:60]}` removes run_info.json on its own: killed between this and the removal of the outputs, the folder holds the old run's outputs without the record the cleanup=False gate compares against - "
            "the resumed run passes the gate and returns the old run's values", key="record-deleted-with-folder")


def rule_propagate(ctx: Ctx) -> None:
    he = ctx.prog.func("pipefunc._utils.handle_error")
    ok = EXIT not in CFG(he.node).reachable_from(ENTRY)
    ctx.add("5-propagate", he, he.node, ok, "handle_error always raises" if ok else "handle_error can return normally", key="noreturn")


def rule_gate_like_with_like(ctx: Ctx) -> None:
    """The cleanup=False gate compares the new run with the recorded one like with like.

    RunInfo.create records values in run_info.json and, on the next run, hands values to the gate that compares them with
    the recorded ones.  If a value is *normalised after* the gate was called (rebound between the gate call and the
    constructor call), the gate compares the raw value with the recorded normalised one and an identical re-run is refused
    ("... do not match previous run") instead of resumed.  Rule: every local of `create` that is passed to the gate and also
    (under the same name) to the RunInfo constructor has all its rebinding statements BEFORE the gate call on every path."""
    P = ctx.prog
    ri = P.cls("pipefunc.map._run_info.RunInfo")
    create = ri.methods["create"]
    load_q = ri.methods["load"].qualname
    cfg = ctx.cfg(create)
    gates = [s_ for s_ in ctx.cg.sites.get(create.qualname, []) if any(c.qualname != load_q and load_q in ctx.cg.reachable(c.qualname) for c in s_.callees)]
    ctors = [c for c in ast.walk(create.node) if isinstance(c, ast.Call) and norm(c.func) in ("cls", "RunInfo")]
    if not gates or not ctors:
        ctx.add("6-gate", create, create.node, None, "UNDECIDED: the call that compares with the previous run (a callee reaching RunInfo.load) or the constructor call was not found in RunInfo.create", key="gate")
        return
    gate = gates[0].node
    gn = cfg.node_containing(gate)
    stored = {x.id for c in ctors for part in [*c.args, *[k.value for k in c.keywords]] for x in ast.walk(part) if isinstance(x, ast.Name)}
    # names whose value reaches the constructor through other locals (shapes computed from internal_shapes, ...)
    for _ in range(3):
        for a in walk_no_nested(create.node):
            if isinstance(a, ast.Assign) and any(isinstance(x, ast.Name) and x.id in stored for t in a.targets for x in ast.walk(t)):
                stored |= {x.id for x in ast.walk(a.value) if isinstance(x, ast.Name)}
    passed = {x.id for part in [*gate.args, *[k.value for k in gate.keywords]] for x in ast.walk(part) if isinstance(x, ast.Name)}
    n = 0
    for name in sorted(passed & stored):
        rebinds = [a for a in walk_no_nested(create.node) if isinstance(a, (ast.Assign, ast.AnnAssign, ast.AugAssign)) and any(isinstance(t, ast.Name) and t.id == name for t in (a.targets if isinstance(a, ast.Assign) else [a.target]))]
        if not rebinds:
            continue
        n += 1
        late = [a for a in rebinds if gn is not None and cfg.node(a) in cfg.reachable_from(gn)]
        ctx.add("6-gate", create, late[0] if late else gate, not late, f"`{name}` has its final (recorded) value when the gate compares it with the previous run" if not late else
                f"`{norm(late[0])[:70]}` rebinds `{name}` AFTER it was handed to the cleanup=False gate: the gate compares the raw value with the normalised one recorded by the previous run, so an identical re-run is refused instead of resumed", key=f"gate {name}")
    ctx.add("6-gate", create, gate, True, f"gate call found; {len(passed & stored)} value(s) are both compared and recorded, {n} of them rebound in create", key="gate-scan")


def rule_gate_whole(ctx: Ctx) -> None:
    """The gate compares WHOLE recorded values with whole new ones.  An operand that is a restriction of the value (only the
    keys both runs share, a filtered comprehension, a set difference) lets two runs that differ outside the restriction pass as
    'the same run': the stored outputs of the other run are then taken for this one's (stale values, nothing recomputed)."""
    from ..flow import narrowings

    P = ctx.prog
    ri = P.cls("pipefunc.map._run_info.RunInfo")
    create = ri.methods["create"]
    load_q = ri.methods["load"].qualname
    fns = [c for s_ in ctx.cg.sites.get(create.qualname, []) for c in s_.callees if c.qualname != load_q and load_q in ctx.cg.reachable(c.qualname)] or [create]
    n = 0
    for fn in {f.qualname: f for f in fns}.values():
        defs = Defs(fn)
        olds = {t.id for a in walk_no_nested(fn.node) if isinstance(a, ast.Assign) and isinstance(a.value, ast.Call) and any(c.qualname == load_q for c in ctx.cg.resolve_callable(fn, a.value.func))
                for t in a.targets if isinstance(t, ast.Name)}
        if not olds:
            continue
        for x in walk_no_nested(fn.node):
            if isinstance(x, ast.Compare) and len(x.ops) == 1 and isinstance(x.ops[0], (ast.Eq, ast.NotEq)):
                ops = [x.left, x.comparators[0]]
            elif isinstance(x, ast.Call) and len(x.args) >= 2 and not isinstance(x.func, ast.Attribute):
                ops = list(x.args[:2])
            else:
                continue
            rs = [defs.resolve(o) for o in ops]
            if not any(isinstance(y, ast.Attribute) and isinstance(y.value, ast.Name) and y.value.id in olds for r in ops for y in ast.walk(r)):
                continue
            n += 1
            nar = [why for r in rs for _n, why in narrowings(r)]
            ctx.add("6-gate", fn, x, not nar, f"`{norm(x)[:60]}` compares whole values" if not nar else
                    f"`{norm(x)[:70]}` compares only a restriction of the recorded and the new value ({nar[0]}): two runs that differ outside it pass the cleanup=False gate as the same run and the stored outputs of the other run are returned (stale values)",
                    key=f"gate-whole {norm(ops[1] if any(isinstance(y, ast.Name) and y.id in olds for y in ast.walk(ops[1])) else ops[0])[:40]}")
    ctx.floor("6-gate.whole", n, 3)


def rule_three_valued(ctx: Ctx) -> None:
    """`equal_dicts` answers True / False / None ("could not compare"); the gate resumes on None.  A local holding such an
    answer may be tested for truth only where None has been excluded - `not x` is also true for None, which turns "could not
    compare" into "differs" and refuses to resume a run whose inputs simply are not comparable (arrays of strings/objects)."""
    from ..flow import guard_facts

    P = ctx.prog
    n = 0
    for mn in ("pipefunc.map._run_info", "pipefunc.map._prepare", "pipefunc.map._run"):
        for fn in P.functions_in(mn):
            tri_vars: dict[str, ast.AST] = {}
            for a in walk_no_nested(fn.node):
                if isinstance(a, ast.Assign) and len(a.targets) == 1 and isinstance(a.targets[0], ast.Name) and isinstance(a.value, ast.Call):
                    for callee in ctx.cg.resolve_callable(fn, a.value.func):
                        r = callee.node.returns
                        if r is not None and re.fullmatch(r"bool \| None|None \| bool|Optional\[bool\]", norm(r)):
                            tri_vars[a.targets[0].id] = a
            if not tri_vars:
                continue
            cfg = ctx.cfg(fn)
            d = Defs(ast.Module(body=[], type_ignores=[]))
            for st in cfg.nodes(lambda s_: isinstance(s_, (ast.If, ast.While, ast.Assert))):
                test = cfg.stmt[st].test
                for name in tri_vars:
                    truthy = [x for x in ast.walk(test) if isinstance(x, ast.Name) and x.id == name] and not any(isinstance(c_, ast.Compare) and any(isinstance(x, ast.Name) and x.id == name for x in ast.walk(c_)) for c_ in ast.walk(test))
                    if not truthy:
                        continue
                    n += 1
                    facts = guard_facts(cfg, d, st)
                    excluded = any(t == f"{name} is None" and not pol for t, pol in facts)
                    if not excluded:
                        # path-sensitive: can the test be reached at all while the value is None (flags set on the way are followed)?
                        from ..flow import reachable_tracking_flags

                        # in `a and <name>...` the name is only looked at when `a` held: the operands to its left must be satisfiable on arrival
                        before = None
                        if isinstance(test, ast.BoolOp) and isinstance(test.op, ast.And):
                            idx = next((i for i, v_ in enumerate(test.values) if any(isinstance(x, ast.Name) and x.id == name for x in ast.walk(v_))), 0)
                            if idx > 0:
                                before = ast.BoolOp(op=ast.And(), values=list(test.values[:idx])) if idx > 1 else test.values[0]
                        r_ = reachable_tracking_flags(cfg, d, st, {f"{name} is None": True}, start=cfg.node(tri_vars[name]), at_target=before)
                        if r_ is None:
                            ctx.add("6-gate", fn, cfg.stmt[st], None, f"UNDECIDED: whether `{name}` can still be None at `{norm(test)[:40]}` (too many conditions to enumerate)", key=f"three-valued {fn.name}.{name} {norm(test)[:30]}")
                            continue
                        excluded = r_ is False
                    ctx.add("6-gate", fn, cfg.stmt[st], excluded, f"`{name}` is tested for truth only after None was handled" if excluded else
                            f"`{norm(test)[:40]}` tests the three-valued `{name}` (True / False / None = could not compare) for truth where it can still be None: 'could not compare' is treated as 'differs' and an identical re-run is refused", key=f"three-valued {fn.name}.{name} {norm(test)[:30]}")
    ctx.floor("6-gate.three-valued", n, 2)


def rule_loaded_is_marked(ctx: Ctx) -> None:
    """What is loaded from the store on resume is ONE VALUE PER OUTPUT NAME (already picked); what a function returns when it
    runs is the raw result, from which `output_picker` picks.  A function that can hand back either kind through the same return
    channel must mark the loaded case (wrap it in a type the consumer recognises); otherwise the consumer picks from already
    picked values - harmless with the positional default picker, a TypeError (or a wrong element) with a custom one."""
    P = ctx.prog
    RUN_ = "pipefunc.map._run"
    pickers = [f for f in P.functions_in(RUN_) if any(isinstance(c, ast.Call) and isinstance(c.func, ast.Attribute) and c.func.attr == "output_picker" and c.args and isinstance(c.args[0], ast.Name) and c.args[0].id in f.param_names()
                                                      for c in ast.walk(f.node))]
    loader_q = f"{RUN_}._load_from_store"
    n = 0
    for f in P.functions_in(RUN_):
        if f.qualname == loader_q:
            continue
        loaded_names: set[str] = set()
        for a in walk_no_nested(f.node):
            if isinstance(a, ast.Assign) and isinstance(a.value, ast.Call) and any(c.qualname == loader_q for c in ctx.cg.resolve_callable(f, a.value.func)):
                loaded_names |= {x.id for t in a.targets for x in ast.walk(t) if isinstance(x, ast.Name)}
        if not loaded_names:
            continue
        rets = [r for r in walk_no_nested(f.node) if isinstance(r, ast.Return) and r.value is not None]
        bare = [r for r in rets if (isinstance(r.value, ast.Name) and r.value.id in loaded_names) or (isinstance(r.value, (ast.Attribute, ast.Subscript)) and isinstance(r.value.value, ast.Name) and r.value.value.id in loaded_names)]
        marked = [r for r in rets if isinstance(r.value, ast.Call) and dotted(r.value.func).lstrip("_")[:1].isupper() and any(isinstance(x, ast.Name) and x.id in loaded_names for x in ast.walk(r.value))]
        computed = [r for r in rets if r not in bare and r not in marked and isinstance(r.value, ast.Call)]
        if not (bare or marked) or not computed:
            continue
        n += 1
        ctx.tri("7-loaded-marked", f, (bare or marked)[0], bool(marked) and not bare, bool(bare) and bool(pickers),
                f"{f.name} marks what it loaded from the store ({norm(marked[0].value.func) if marked else ''}) before returning it next to computed results",
                f"{f.name} returns what it loaded from the store (`{norm(bare[0]) if bare else ''}`) through the same channel as a computed result, and {pickers[0].name if pickers else '?'} applies output_picker to whatever arrives: "
                "on resume a stored multi-output result is picked from a second time (TypeError with a custom output_picker)", "loaded / computed returns not classified", key=f"loaded-marked {f.name}")
        # how the loaded value is split over the output names is decided by the DECLARED names, not by looking at the value: a
        # single output whose value happens to be a list / tuple must stay one value
        for r in marked:
            tests = [x.test for x in ast.walk(r.value) if isinstance(x, ast.IfExp)]
            peeks = [c for t in tests for c in ast.walk(t) if isinstance(c, ast.Call) and dotted(c.func) in ("isinstance", "type", "len", "hasattr") and c.args
                     and any(isinstance(x, ast.Name) and x.id in loaded_names for x in ast.walk(c.args[0]))]
            if tests:
                ctx.tri("7-loaded-marked", f, peeks[0] if peeks else r, not peeks and any("output_name" in norm(t) for t in tests), bool(peeks),
                        f"{f.name}: one value or one per name is decided by the declared output name(s)",
                        f"`{norm(peeks[0])[:50] if peeks else ''}` decides from the TYPE of the stored value whether it holds one value per output name: a single output whose value is a list (or tuple) is split on resume - "
                        "the resumed run returns its first element(s) instead of the stored value", "test that splits the loaded value not recognised", key=f"loaded-arity {f.name}")
    ctx.floor("7-loaded-marked", n, 1)


def check(ctx: Ctx) -> None:
    for rule in (rule_atomic, rule_guarded, rule_missing, rule_no_delete, rule_record_deleted_with_folder, rule_propagate, rule_gate_like_with_like, rule_gate_whole, rule_three_valued, rule_loaded_is_marked):
        ctx.run(rule)


U, RIF, R, D, A = "pipefunc/_utils.py", "pipefunc/map/_run_info.py", "pipefunc/map/_run.py", "pipefunc/map/_storage_array/_dict.py", "pipefunc/map/adaptive.py"
MUTANTS = [
    Mutant("exists-read-off-the-value", "pipefunc/map/_run.py", "    if not return_output:\n        outputs = None  # type: ignore[assignment]\n    elif len(outputs) == 1:", "    all_exist = all(output is not None for output in outputs)\n    if not return_output:\n        outputs = None  # type: ignore[assignment]\n    elif len(outputs) == 1:", ("C05.3-missing",), why="round-8 seed C05/23"),
    Mutant("gate-compares-shared-keys-only", "pipefunc/map/_run_info.py", "    equal_inputs = equal_dicts(inputs, old.inputs, verbose=True)\n", "    shared = inputs.keys() & old.inputs.keys()\n    equal_inputs = equal_dicts({k: inputs[k] for k in shared}, {k: old.inputs[k] for k in shared}, verbose=True)\n", ("C05.6-gate",), why="round-4 seed C11/11"),
    Mutant("loaded-returned-bare-F40", R, "        return _StoredOutputs(tuple(output) if isinstance(func.output_name, tuple) else (output,))\n", "        return output\n", ("C05.7-loaded-marked",), why="original F40"),
    Mutant("gate-before-construct-F37", RIF, "        # The previous run info stores the constructed internal shapes, compare like with like\n        internal_shapes = _construct_internal_shapes(internal_shapes, pipeline)\n        if run_folder is not None:\n            if cleanup:\n                _cleanup_run_folder(run_folder)\n            else:\n                _compare_to_previous_run_info(pipeline, run_folder, inputs, internal_shapes)\n        _check_inputs(pipeline, inputs)\n",
           "        if run_folder is not None:\n            if cleanup:\n                _cleanup_run_folder(run_folder)\n            else:\n                _compare_to_previous_run_info(pipeline, run_folder, inputs, internal_shapes)\n        _check_inputs(pipeline, inputs)\n        internal_shapes = _construct_internal_shapes(internal_shapes, pipeline)\n", ("C05.6-gate",), why="original F37"),
    Mutant("dump-in-place-F06", U, "    with atomic_write(path, \"wb\") as f:\n        cloudpickle.dump(obj, f)\n", "    with path.open(\"wb\") as f:\n        cloudpickle.dump(obj, f)\n", ("C05.1-atomic",), why="original F06"),
    Mutant("runinfo-dump-in-place-F06", RIF, "        with atomic_write(path, \"w\") as f:\n", "        with path.open(\"w\") as f:\n", ("C05.1-atomic",), why="original F06"),
    Mutant("replace-before-close", U, "        with tmp.open(mode) as f:\n            yield f\n        tmp.replace(path)\n", "        with tmp.open(mode) as f:\n            yield f\n            tmp.replace(path)\n", ("C05.1-atomic",), why="seeded C05/1"),
    Mutant("unlink-then-rename", U, "        tmp.replace(path)\n", "        path.unlink(missing_ok=True)\n        tmp.rename(path)\n", ("C05.1-atomic",), why="seeded C05/3"),
    Mutant("tmp-name-matches-reader", U, "tmp = path.with_name(f\"{path.name}.{os.getpid()}.{threading.get_ident()}.tmp\")", "tmp = path.with_name(f\"{os.getpid()}.{threading.get_ident()}.{path.name}\")", ("C05.1-atomic",)),
    Mutant("new-backend-writes-directly", D, "        dump(dict(self._dict), path)  # `_dict` might be a manager proxy, which cannot be unpickled later\n",
           "        import cloudpickle\n\n        with path.open(\"wb\") as f:\n            cloudpickle.dump(dict(self._dict), f)\n", ("C05.1-atomic",)),
    Mutant("dict-load-folder-test-F07", D, "        if not self._path().is_file():\n            return\n", "        if not self.folder.exists():\n            return\n", ("C05.2-guarded",), why="original F07"),
    Mutant("marker-first-F34", RIF, "        dump(self.defaults, defaults_path)\n        # `run_info.json` is written last, its existence implies that the files it refers to exist\n        self.dump()\n",
           "        dump(self.defaults, defaults_path)\n", ("C05.2-guarded",), why="original F34 (marker dropped / written elsewhere)"),
    Mutant("marker-before-defaults", RIF, "        defaults_path = _defaults_path(self.run_folder)\n        dump(self.defaults, defaults_path)\n        # `run_info.json` is written last, its existence implies that the files it refers to exist\n        self.dump()\n",
           "        self.dump()\n        defaults_path = _defaults_path(self.run_folder)\n        dump(self.defaults, defaults_path)\n", ("C05.2-guarded",), why="original F34"),
    Mutant("load-from-store-unguarded", R, "            if storage.is_file():\n                outputs.append(load(storage) if return_output else None)\n            else:\n                all_exist = False\n                outputs.append(None)\n        else:\n            assert isinstance(storage, DirectValue)",
           "            if storage.parent.is_dir():\n                outputs.append(load(storage) if return_output else None)\n            else:\n                all_exist = False\n                outputs.append(None)\n        else:\n            assert isinstance(storage, DirectValue)", ("C05.2-guarded", "C05.3-missing")),
    Mutant("first-array-mask-only", R, "    masks = (arr.mask_linear() for arr in arrays)\n", "    masks = (arr.mask_linear() for arr in arrays[:1])\n", ("C05.3-missing",), why="seeded C05/2"),
    Mutant("resubmit-everything", R, "r = _maybe_parallel_map(func, args.process_index, args.missing, executor, status, progress)", "r = _maybe_parallel_map(func, args.process_index, [*args.existing, *args.missing], executor, status, progress)", ("C05.3-missing",)),
    Mutant("all-missing-instead-of-any", R, "        if any(mask_values):  # rerun if any of the outputs are missing\n", "        if all(mask_values):  # rerun if any of the outputs are missing\n", ("C05.3-missing",)),
    Mutant("single-recomputes", R, "    output, exists = _load_from_store(func.output_name, store, return_output=True)\n    if exists:\n        # One value per output name; do not let `output_picker` pick from it again\n        return _StoredOutputs(tuple(output) if isinstance(func.output_name, tuple) else (output,))\n\n    # Otherwise, run the function\n", "", ("C05.3-missing",)),
    Mutant("learner-recomputes", A, "    if all(arr.has_index(index) for arr in arrays):\n        if not return_output:\n            return None\n        return tuple(arr.get_from_index(index) for arr in arrays)\n", "", ("C05.3-missing",)),
    Mutant("rmtree-without-cleanup", RIF, "            if cleanup:\n                _cleanup_run_folder(run_folder)\n            else:\n", "            if cleanup or not RunInfo.path(run_folder).is_file():\n                _cleanup_run_folder(run_folder)\n            else:\n", ("C05.4-no-delete",)),
    Mutant("filearray-deletes-stale", "pipefunc/map/_storage_array/_file.py", "        key = self._normalize_key(key, for_dump=True)\n        if not any(isinstance(k, slice) for k in key):\n            dump(value, self._key_to_file(key))  # type: ignore[arg-type]\n",
           "        key = self._normalize_key(key, for_dump=True)\n        if not any(isinstance(k, slice) for k in key):\n            self._key_to_file(key).unlink(missing_ok=True)  # type: ignore[arg-type]\n            dump(value, self._key_to_file(key))  # type: ignore[arg-type]\n", ("C05.4-no-delete",)),
    Mutant("twin-atomic-write-os-replace", U, "        tmp.replace(path)\n", "        os.replace(tmp, path)\n", twin=True),
    Mutant("twin-dump-comment", U, "    with atomic_write(path, \"wb\") as f:\n        cloudpickle.dump(obj, f)\n", "    with atomic_write(path, \"wb\") as f:  # atomic\n        cloudpickle.dump(obj, f)\n", twin=True),
]
