"""C05 - an interrupted map resumes to the uninterrupted result (structural clauses, true for every crash point).

  1 atomic     file presence is the completion marker, so in the run-folder modules only `atomic_write` may open a file
               for writing; it writes a temporary sibling that no reader pattern matches and publishes it with ONE
               atomic replace *after* the file is closed; the destination is never unlinked
  2 guarded    every load of a run-folder file is dominated by an existence test of that same path, or is covered by a
               commit-marker protocol (run_info.json is written after the inputs/defaults that RunInfo.load reads)
  3 missing    a resumed map submits exactly the `missing` indices, derived from the masks of ALL outputs of the
               function; stored single outputs and learner elements are returned before any user call
  4 no-delete  nothing in the map modules deletes from a run folder except _cleanup_run_folder under `if cleanup`
  5 propagate  handle_error never returns normally (shared with C13)
"""

from __future__ import annotations

import ast

from ..cfg import CFG, ENTRY, EXIT, header_parts
from ..effects import FS_DELETE, FS_WRITE, USER_CALL, _open_mode
from ..loader import AnalysisError, FuncInfo, dotted, norm, walk_no_nested
from ..report import Ctx
from ..selftest import Mutant

PROP = "C05"
EXPLANATION = (
    "Static analysis: a who-may-open-for-write rule over the modules that touch a run folder, a shape/ordering analysis "
    "of the one publishing primitive (temporary sibling, close, single atomic replace), dominance of every load by an "
    "existence test of the same path (or the commit-marker ordering in RunInfo._write), def-use of the index list that "
    "is submitted on resume, and effect summaries for deletions."
)
TRUSTED = ["CPython ast parser", "os.replace / Path.replace is atomic on POSIX", "call graph and effect patterns of sa/effects.py"]
DECLINED = [
    "enumeration of concrete crash points and torn-write sizes; equality of resumed and uninterrupted results (needs execution)",
    "durability (fsync) of published files across power loss",
    "zarr-backed storages (publication is delegated to zarr; not importable here)",
]

RUN_FOLDER_MODULES = ("pipefunc.map._run", "pipefunc.map._run_info", "pipefunc.map._storage_array._file", "pipefunc.map._storage_array._dict",
                      "pipefunc.map._storage_array._base", "pipefunc.map._load", "pipefunc.map._prepare", "pipefunc.map.adaptive", "pipefunc._utils")
ATOMIC = "pipefunc._utils.atomic_write"
READER_NAME_PATTERNS = ("__{:d}__.pickle", ".cloudpickle", "run_info.json", "dict_array.cloudpickle")


def _parents(root: ast.AST) -> dict[int, ast.AST]:
    return {id(c): p for p in ast.walk(root) for c in ast.iter_child_nodes(p)}


def check(ctx: Ctx) -> None:  # noqa: C901, PLR0912, PLR0915
    P, cg, eff = ctx.prog, ctx.cg, ctx.effects

    # ------------------------------------------------------------ 1 atomic
    n_open = 0
    for m in RUN_FOLDER_MODULES:
        for fn in P.functions_in(m):
            for c in [c for c in walk_no_nested(fn.node) if isinstance(c, ast.Call)]:
                mode = _open_mode(c)
                if mode is None or not (mode == "?" or any(x in mode for x in "wax+")):
                    continue
                n_open += 1
                ok = fn.qualname == ATOMIC
                ctx.add("1-atomic", fn, c, ok, "the publishing primitive opens its temporary file" if ok else
                        f"`{norm(c)[:70]}` writes a run-folder file in place: a death mid-write leaves a torn file under the final name, which readers take for a completed result", key=f"open-for-write in {fn.name}")
            for c in [c for c in walk_no_nested(fn.node) if isinstance(c, ast.Call) and dotted(c.func) in ("json.dump", "cloudpickle.dump", "pickle.dump")]:
                # the handle must come from `with atomic_write(...) as f`
                par = _parents(fn.node)
                x: ast.AST = c
                via = False
                while id(x) in par:
                    x = par[id(x)]
                    if isinstance(x, ast.With):
                        for it in x.items:
                            if isinstance(it.context_expr, ast.Call) and dotted(it.context_expr.func).rsplit(".", 1)[-1] == "atomic_write" and it.optional_vars is not None and len(c.args) >= 2 and norm(it.optional_vars) == norm(c.args[1]):
                                via = True
                n_open += 1
                ctx.add("1-atomic", fn, c, via, "serialised into a handle obtained from atomic_write" if via else f"`{norm(c)[:60]}` does not write through atomic_write", key=f"dump-handle in {fn.name}")
    ctx.floor("1-atomic.sites", n_open, 3)
    aw = P.func(ATOMIC)
    ok = any("contextmanager" in d for d in aw.decorators)
    ctx.add("1-atomic", aw, aw.node, ok, "atomic_write is a context manager" if ok else "atomic_write is no longer a context manager", key="ctxmgr")
    tmp_defs = [s for s in walk_no_nested(aw.node) if isinstance(s, ast.Assign) and isinstance(s.targets[0], ast.Name) and ("with_name" in norm(s.value) or "with_suffix" in norm(s.value))]
    if not tmp_defs:
        raise AnalysisError("atomic_write: temporary path definition not found")
    tmp = tmp_defs[0].targets[0].id  # type: ignore[union-attr]
    dest = aw.param_names()[0]
    tmp_src = norm(tmp_defs[0].value)
    consts = [c.value for c in ast.walk(tmp_defs[0].value) if isinstance(c, ast.Constant) and isinstance(c.value, str)]
    suffix_ok = f"{dest}.with_name(" in tmp_src and any(c.endswith(".tmp") for c in consts) and not any(c.endswith(p) for c in consts for p in READER_NAME_PATTERNS)
    ctx.add("1-atomic", aw, tmp_defs[0], suffix_ok, "temporary = sibling of the destination with a name no reader pattern matches (same directory: rename stays atomic)" if suffix_ok else
            "the temporary name is not a sibling `*.tmp` of the destination (readers may match it, or the rename crosses directories)", key="tmp-name")
    uniq = "os.getpid()" in tmp_src
    ctx.add("1-atomic", aw, tmp_defs[0], uniq, "temporary name is unique per process" if uniq else "concurrent writers share one temporary name", key="tmp-unique")
    opens = [w for w in walk_no_nested(aw.node) if isinstance(w, ast.With) and any(isinstance(i.context_expr, ast.Call) and norm(i.context_expr.func) == f"{tmp}.open" for i in w.items)]
    repl = [c for c in walk_no_nested(aw.node) if isinstance(c, ast.Call) and ((isinstance(c.func, ast.Attribute) and c.func.attr == "replace" and norm(c.func.value) == tmp and len(c.args) == 1 and norm(c.args[0]) == dest)
                                                                                 or (dotted(c.func) in ("os.replace",) and [norm(a) for a in c.args] == [tmp, dest]))]
    ok = len(opens) == 1 and len(repl) == 1
    ctx.add("1-atomic", aw, repl[0] if repl else aw.node, ok, "exactly one open of the temporary and one replace(tmp -> destination)" if ok else "atomic_write no longer publishes with a single replace of the temporary onto the destination", key="one-replace")
    if ok:
        inside = any(x is repl[0] for x in ast.walk(opens[0]))
        after = repl[0].lineno > (opens[0].end_lineno or opens[0].lineno)
        same_block = False
        par = _parents(aw.node)
        rp_stmt: ast.AST = repl[0]
        while id(rp_stmt) in par and not isinstance(rp_stmt, ast.stmt):
            rp_stmt = par[id(rp_stmt)]
        blk = par.get(id(opens[0]))
        same_block = blk is par.get(id(rp_stmt))
        ok2 = (not inside) and after and same_block
        ctx.add("1-atomic", aw, repl[0], ok2, "the replace happens after the `with` that closes (flushes) the file, on the same path" if ok2 else
                "the destination is published while the temporary file is still open: a kill after the rename leaves an unflushed (empty/torn) file under the final name", key="replace-after-close")
        ys = [y for y in ast.walk(opens[0]) if isinstance(y, ast.Yield)]
        ctx.add("1-atomic", aw, opens[0], bool(ys), "the caller writes inside the `with` on the temporary" if ys else "the yield is not inside the `with tmp.open`", key="yield-inside")
    dest_del = [c for c in ast.walk(aw.node) if isinstance(c, ast.Call) and ((isinstance(c.func, ast.Attribute) and c.func.attr in ("unlink", "rmdir", "rename") and norm(c.func.value) == dest)
                                                                            or (dotted(c.func) in ("os.remove", "os.unlink", "os.rename") and c.args and norm(c.args[0]) == dest))]
    renames = [c for c in ast.walk(aw.node) if isinstance(c, ast.Call) and isinstance(c.func, ast.Attribute) and c.func.attr == "rename"]
    ok = not dest_del and not renames
    ctx.add("1-atomic", aw, (dest_del or renames or [aw.node])[0], ok, "the destination is never removed or renamed away" if ok else
            "the destination is unlinked/renamed before the new file is in place: a crash in between loses a complete previous value", key="dest-not-removed")
    # all users
    users = {s.caller.qualname for s in cg.call_sites_of(ATOMIC)}
    ok = {"pipefunc._utils.dump", "pipefunc.map._run_info.RunInfo.dump"} <= users
    ctx.add("1-atomic", ATOMIC, aw.loc, ok, f"used by {sorted(u.rsplit('.', 2)[-2] + '.' + u.rsplit('.', 1)[-1] for u in users)}" if ok else "dump / RunInfo.dump no longer publish through atomic_write", key="users")

    # ------------------------------------------------------------ 2 guarded
    COVERED = {  # loads that are covered by a protocol instead of a local test: reason
        "pipefunc.map._run_info.RunInfo.load": "commit marker: run_info.json is tested by the caller and written after inputs/defaults (rule below)",
        "pipefunc.map._storage_array._file.FileArray.get_from_index": "callers only pass indices whose file the mask / has_index reported present (rule below)",
    }
    n_load = 0
    for m in RUN_FOLDER_MODULES:
        if m == "pipefunc._utils":
            continue
        for fn in P.functions_in(m):
            par = _parents(fn.node)
            for c in [c for c in walk_no_nested(fn.node) if isinstance(c, ast.Call) and dotted(c.func) in ("load", "_read", "cloudpickle.load") and c.args]:
                n_load += 1
                if fn.qualname in COVERED:
                    ctx.add("2-guarded", fn, c, True, f"covered: {COVERED[fn.qualname]}", key=f"load {norm(c.args[0])[:40]} (protocol)")
                    continue
                target = norm(c.args[0])
                guarded = False
                # (a) an enclosing if / conditional expression testing the same path
                x = c
                while id(x) in par and not guarded:
                    child, x = x, par[id(x)]
                    if isinstance(x, (ast.If, ast.IfExp)):
                        t = norm(x.test)
                        in_body = (child in x.body) if isinstance(x, ast.If) else (child is x.body)
                        if in_body and t in (f"{target}.is_file()", f"{target}.exists()"):
                            guarded = True
                # (b) an earlier `if not <path>.is_file(): return`
                if not guarded:
                    cfg = ctx.cfg(fn)
                    gn = cfg.nodes(lambda s: isinstance(s, ast.If) and norm(s.test) in (f"not {target}.is_file()", f"not {target}.exists()") and isinstance(s.body[-1], (ast.Return, ast.Raise, ast.Continue)))
                    cn = cfg.node_containing(c)
                    guarded = bool(gn) and cn is not None and any(cfg.dominates(g, cn) for g in gn)
                ctx.add("2-guarded", fn, c, guarded, f"`{target}` is loaded only after testing that very path" if guarded else
                        f"`{norm(c)[:60]}` is not guarded by an existence test of `{target}`: an interrupted run leaves the folder without that file and the resume raises", key=f"load {target[:50]}")
    ctx.floor("2-guarded", n_load, 6)
    wr = P.func("pipefunc.map._run_info.RunInfo._write")
    cfg = ctx.cfg(wr)
    marker = cfg.nodes(lambda s: isinstance(s, ast.Expr) and isinstance(s.value, ast.Call) and norm(s.value.func) == "self.dump")
    others = [n for n in cfg.nodes() if n not in marker and any(isinstance(c, ast.Call) and any(eff.has(cal.qualname, FS_WRITE) for cal in cg.resolve_callable(wr, c.func)) for part in header_parts(cfg.stmt[n]) for c in ast.walk(part))]
    ok = len(marker) == 1 and bool(others) and not any(o in cfg.reachable_from(marker[0]) for o in others)
    ctx.add("2-guarded", wr, cfg.stmt[marker[0]] if marker else wr.node, ok, "run_info.json (the marker that makes a resume read inputs/defaults) is published last" if ok else
            "run_info.json is published before the inputs/defaults it points to: a death in between makes every resume fail to load the previous run info", key="marker-last")
    cmpf = P.func("pipefunc.map._run_info._compare_to_previous_run_info")
    first = [s for s in cmpf.node.body if not (isinstance(s, ast.Expr) and isinstance(s.value, ast.Constant))][0]
    ok = isinstance(first, ast.If) and norm(first.test) == "not RunInfo.path(run_folder).is_file()" and isinstance(first.body[-1], ast.Return)
    ctx.add("2-guarded", cmpf, first, ok, "no run_info.json -> nothing to compare (fresh or never-started folder)" if ok else "the previous-run comparison does not start with the run_info.json existence test", key="marker-tested")
    for s in cg.call_sites_of("pipefunc.map._storage_array._file.FileArray.get_from_index") + cg.call_sites_of("pipefunc.map._storage_array._base.StorageBase.get_from_index"):
        if s.caller.module.name not in ("pipefunc.map._run", "pipefunc.map.adaptive"):
            continue
        src = ast.unparse(s.caller.node)
        ok = ("args.existing" in src) or ("has_index(index)" in src)
        ctx.add("2-guarded", s.caller, s.node, ok, "get_from_index only for indices known to exist" if ok else "get_from_index is called for an index that was not checked to exist", key="get-from-index guarded")

    # ------------------------------------------------------------ 3 missing
    sf = P.func("pipefunc.map._run._submit_func")
    pm = [c for c in ast.walk(sf.node) if isinstance(c, ast.Call) and dotted(c.func) == "_maybe_parallel_map"]
    ok = bool(pm) and len(pm[0].args) >= 3 and norm(pm[0].args[2]) == "args.missing" and norm(pm[0].args[1]) == "args.process_index"
    ctx.add("3-missing", sf, pm[0] if pm else sf.node, ok, "only args.missing is submitted" if ok else "the indices submitted on (re)run are not exactly args.missing", key="submit-missing")
    ps = P.func("pipefunc.map._run._prepare_submit_map_spec")
    em = [s for s in walk_no_nested(ps.node) if isinstance(s, ast.Assign) and "_existing_and_missing_indices" in norm(s.value)]
    ret = [r for r in walk_no_nested(ps.node) if isinstance(r, ast.Return)][-1]
    ok = bool(em) and norm(em[0].targets[0]) == "(existing, missing)" and norm(em[0].value).startswith("_existing_and_missing_indices(arrays, fixed_mask)") \
        and norm(ret.value).startswith("_MapSpecArgs(process_index, existing, missing,")
    ctx.add("3-missing", ps, em[0] if em else ps.node, ok, "existing/missing come from _existing_and_missing_indices(all arrays, selection)" if ok else "existing/missing are no longer taken (in that order) from _existing_and_missing_indices(arrays, fixed_mask)", key="existing-missing")
    arr = [s for s in walk_no_nested(ps.node) if isinstance(s, (ast.Assign, ast.AnnAssign)) and norm(s.targets[0] if isinstance(s, ast.Assign) else s.target) == "arrays"]
    ok = bool(arr) and "for name in at_least_tuple(func.output_name)" in norm(arr[0].value)
    ctx.add("3-missing", ps, arr[0] if arr else ps.node, ok, "arrays = the storage of EVERY output of the function" if ok else "not every output's storage takes part in the existing/missing split", key="all-arrays")
    ei = P.func("pipefunc.map._run._existing_and_missing_indices")
    src = norm(ei.node)
    ok = "masks = (arr.mask_linear() for arr in arrays)" in src and "zip(*masks, fixed_mask)" in src
    ctx.add("3-missing", ei, ei.node, ok, "the masks of all arrays are zipped" if ok else "only some of the output arrays are consulted: an element whose later output was never written counts as stored", key="all-masks")
    ifs = [s for s in ast.walk(ei.node) if isinstance(s, ast.If) and "mask_values" in norm(s.test)]
    ok = bool(ifs) and norm(ifs[0].test) == "any(mask_values)" and "missing_indices.append(i)" in norm(ifs[0].body[0]) and "existing_indices.append(i)" in norm(ifs[0].orelse[0])
    ctx.add("3-missing", ei, ifs[0] if ifs else ei.node, ok, "an element is missing if ANY of its outputs is missing" if ok else "the missing/existing classification changed (must be: any output missing -> recompute)", key="any-missing")
    ok = norm(ei.node.body[-1]) == "return (existing_indices, missing_indices)"
    ctx.add("3-missing", ei, ei.node.body[-1], ok, "returns (existing, missing)" if ok else "return order of (existing, missing) changed", key="return-order")
    fm = P.func("pipefunc.map._storage_array._file.FileArray.mask_linear")
    ok = "self.filename_template.format(i) not in existing_files for i in range(self.size)" in norm(fm.node) and "os.listdir(self.folder)" in norm(fm.node)
    ctx.add("3-missing", fm, fm.node, ok, "FileArray: missing = file name absent from the folder listing" if ok else "FileArray.mask_linear polarity/pattern changed", key="file-mask")
    ot = P.func("pipefunc.map._run._output_from_mapspec_task")
    ok = "for index in args.existing" in norm(ot.node) and "array.get_from_index(index) for array in args.arrays" in norm(ot.node) and "zip(args.missing, outputs_list)" in norm(ot.node)
    ctx.add("3-missing", ot, ot.node, ok, "existing elements are read back, computed ones are paired with args.missing" if ok else "existing elements are no longer read back from storage", key="read-back")
    es = P.func("pipefunc.map._run._execute_single")
    cfg = ctx.cfg(es)
    g = cfg.nodes(lambda s: isinstance(s, ast.If) and norm(s.test) == "exists" and isinstance(s.body[-1], ast.Return))
    later = [n for n in cfg.nodes() if isinstance(cfg.stmt[n], ast.Return) and "_get_or_set_cache" in norm(cfg.stmt[n])]
    ld = [s for s in walk_no_nested(es.node) if isinstance(s, ast.Assign) and "_load_from_store(func.output_name, store" in norm(s.value)]
    ok = bool(g) and bool(later) and bool(ld) and all(cfg.dominates(g[0], n) for n in later) and norm(cfg.stmt[g[0]].body[-1].value) == "output"
    ctx.add("3-missing", es, cfg.stmt[g[0]] if g else es.node, ok, "a stored single output is returned before the function can run" if ok else "_execute_single no longer returns the stored output first", key="single-stored-first")
    lfs = P.func("pipefunc.map._run._load_from_store")
    ok = norm(lfs.node).count("all_exist = False") == 2 and "for name in at_least_tuple(output_name)" in norm(lfs.node) and "return _StoredValue(outputs, all_exist)" in norm(lfs.node)
    ctx.add("3-missing", lfs, lfs.node, ok, "a tuple output exists only if every part exists" if ok else "_load_from_store no longer requires every part of a tuple output", key="tuple-all-exist")
    for q, test in (("pipefunc.map.adaptive._execute_iteration_in_map_spec", "all((arr.has_index(index) for arr in arrays))"), ("pipefunc.map.adaptive._execute_iteration_in_single", "exists")):
        f = P.func(q)
        cfg = ctx.cfg(f)
        g = cfg.nodes(lambda s, test=test: isinstance(s, ast.If) and norm(s.test) == test)
        runs = [n for n in cfg.nodes() if any(isinstance(c, ast.Call) and dotted(c.func) in ("_run_iteration_and_process", "_submit_func") for part in header_parts(cfg.stmt[n]) for c in ast.walk(part))]
        ok = bool(g) and bool(runs) and all(cfg.dominates(g[0], r) for r in runs) and all(isinstance(x, ast.Return) for x in [cfg.stmt[g[0]].body[-1]] if not isinstance(x, ast.If)) and not any(r in cfg.reachable_from(cfg.node(cfg.stmt[g[0]].body[0])) for r in runs)
        ctx.add("3-missing", f, cfg.stmt[g[0]] if g else f.node, ok, "learner: a stored element is returned without running the function" if ok else "the learner entry point recomputes stored elements", key="learner-stored-first")

    # ------------------------------------------------------------ 4 no-delete
    dels = sorted(q for q in eff.sources(FS_DELETE) if P.functions[q].module.name.startswith("pipefunc.map") and "zarr" not in q)
    ok = dels == ["pipefunc.map._run_info._cleanup_run_folder"]
    ctx.add("4-no-delete", "pipefunc.map", "", ok, "the only deleting function in the map modules is _cleanup_run_folder" if ok else f"functions that delete from a run folder: {dels}", key="sources")
    create = P.func("pipefunc.map._run_info.RunInfo.create")
    sites = cg.call_sites_of("pipefunc.map._run_info._cleanup_run_folder")
    ok = len(sites) == 1 and sites[0].caller.qualname == create.qualname
    if ok:
        par = _parents(create.node)
        x = sites[0].node
        under = False
        while id(x) in par:
            child, x = x, par[id(x)]
            if isinstance(x, ast.If) and norm(x.test) == "cleanup" and any(child is s or any(child is d for d in ast.walk(s)) for s in x.body):
                under = True
        ok = under
    ctx.add("4-no-delete", create, sites[0].node if sites else create.node, ok, "the folder is wiped only under `if cleanup`" if ok else "the run folder can be wiped although cleanup=False", key="under-cleanup")

    # ------------------------------------------------------------ 5 propagate
    he = P.func("pipefunc._utils.handle_error")
    ok = EXIT not in CFG(he.node).reachable_from(ENTRY)
    ctx.add("5-propagate", he, he.node, ok, "handle_error always raises" if ok else "handle_error can return normally", key="noreturn")


U, RIF, R, D, A = "pipefunc/_utils.py", "pipefunc/map/_run_info.py", "pipefunc/map/_run.py", "pipefunc/map/_storage_array/_dict.py", "pipefunc/map/adaptive.py"
MUTANTS = [
    Mutant("dump-in-place-F06", U, "    with atomic_write(path, \"wb\") as f:\n        cloudpickle.dump(obj, f)\n", "    with path.open(\"wb\") as f:\n        cloudpickle.dump(obj, f)\n", ("C05.1-atomic",), why="original F06"),
    Mutant("runinfo-dump-in-place-F06", RIF, "        with atomic_write(path, \"w\") as f:\n", "        with path.open(\"w\") as f:\n", ("C05.1-atomic",), why="original F06"),
    Mutant("replace-before-close", U, "        with tmp.open(mode) as f:\n            yield f\n        tmp.replace(path)\n", "        with tmp.open(mode) as f:\n            yield f\n            tmp.replace(path)\n", ("C05.1-atomic",), why="seeded C05/1"),
    Mutant("unlink-then-rename", U, "        tmp.replace(path)\n", "        path.unlink(missing_ok=True)\n        tmp.rename(path)\n", ("C05.1-atomic",), why="seeded C05/3"),
    Mutant("tmp-name-matches-reader", U, "tmp = path.with_name(f\"{path.name}.{os.getpid()}.{threading.get_ident()}.tmp\")", "tmp = path.with_name(f\"{os.getpid()}.{threading.get_ident()}.{path.name}\")", ("C05.1-atomic",)),
    Mutant("new-backend-writes-directly", D, "        dump(dict(self._dict), path)  # `_dict` might be a manager proxy, which cannot be unpickled later\n",
           "        import cloudpickle\n\n        with path.open(\"wb\") as f:\n            cloudpickle.dump(dict(self._dict), f)\n", ("C05.1-atomic",)),
    Mutant("dict-load-folder-test-F07", D, "        if not self._path().is_file():\n            return\n", "        if not self.folder.exists():\n            return\n", ("C05.2-guarded",), why="original F07"),
    Mutant("marker-first-F34", RIF, "        dump(self.defaults, defaults_path)\n        # `run_info.json` is written last, its existence implies that the files it refers to exist\n        self.dump()\n",
           "        dump(self.defaults, defaults_path)\n", ("C05.2-guarded",), why="original F34 (marker dropped / written elsewhere)"),
    Mutant("marker-before-defaults", RIF, "        defaults_path = _defaults_path(self.run_folder)\n        dump(self.defaults, defaults_path)\n        # `run_info.json` is written last, its existence implies that the files it refers to exist\n        self.dump()\n",
           "        self.dump()\n        defaults_path = _defaults_path(self.run_folder)\n        dump(self.defaults, defaults_path)\n", ("C05.2-guarded",), why="original F34"),
    Mutant("load-from-store-unguarded", R, "            if storage.is_file():\n                outputs.append(load(storage) if return_output else None)\n            else:\n                all_exist = False\n                outputs.append(None)\n        else:\n            assert isinstance(storage, DirectValue)",
           "            if storage.parent.is_dir():\n                outputs.append(load(storage) if return_output else None)\n            else:\n                all_exist = False\n                outputs.append(None)\n        else:\n            assert isinstance(storage, DirectValue)", ("C05.2-guarded", "C05.3-missing")),
    Mutant("first-array-mask-only", R, "    masks = (arr.mask_linear() for arr in arrays)\n", "    masks = (arr.mask_linear() for arr in arrays[:1])\n", ("C05.3-missing",), why="seeded C05/2"),
    Mutant("resubmit-everything", R, "r = _maybe_parallel_map(func, args.process_index, args.missing, executor, status, progress)", "r = _maybe_parallel_map(func, args.process_index, [*args.existing, *args.missing], executor, status, progress)", ("C05.3-missing",)),
    Mutant("all-missing-instead-of-any", R, "        if any(mask_values):  # rerun if any of the outputs are missing\n", "        if all(mask_values):  # rerun if any of the outputs are missing\n", ("C05.3-missing",)),
    Mutant("single-recomputes", R, "    output, exists = _load_from_store(func.output_name, store, return_output=True)\n    if exists:\n        return output\n\n    # Otherwise, run the function\n", "", ("C05.3-missing",)),
    Mutant("learner-recomputes", A, "    if all(arr.has_index(index) for arr in arrays):\n", "    if False and all(arr.has_index(index) for arr in arrays):\n", ("C05.3-missing",)),
    Mutant("rmtree-without-cleanup", RIF, "            if cleanup:\n                _cleanup_run_folder(run_folder)\n            else:\n", "            if cleanup or not RunInfo.path(run_folder).is_file():\n                _cleanup_run_folder(run_folder)\n            else:\n", ("C05.4-no-delete",)),
    Mutant("filearray-deletes-stale", "pipefunc/map/_storage_array/_file.py", "        key = self._normalize_key(key, for_dump=True)\n        if not any(isinstance(k, slice) for k in key):\n            dump(value, self._key_to_file(key))  # type: ignore[arg-type]\n",
           "        key = self._normalize_key(key, for_dump=True)\n        if not any(isinstance(k, slice) for k in key):\n            self._key_to_file(key).unlink(missing_ok=True)  # type: ignore[arg-type]\n            dump(value, self._key_to_file(key))  # type: ignore[arg-type]\n", ("C05.4-no-delete",)),
    Mutant("twin-atomic-write-os-replace", U, "        tmp.replace(path)\n", "        os.replace(tmp, path)\n", twin=True),
    Mutant("twin-dump-comment", U, "    with atomic_write(path, \"wb\") as f:\n        cloudpickle.dump(obj, f)\n", "    with atomic_write(path, \"wb\") as f:  # atomic\n        cloudpickle.dump(obj, f)\n", twin=True),
]
