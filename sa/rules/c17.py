"""C17 - sweeps enumerate exactly the documented combinations (structural clauses of pipefunc/sweep.py).

  1 all-operands  Sweep.product merges every attribute from *every* operand (no use of the loop variable after the loop)
  2 reads-dims    every path through the merge loop consults the operand's `dims`
  3 len-mirror    Sweep.__len__ has the same case split as Sweep.generate (empty items, product/dims test, exclude)
  4 arms          both arms of generate post-process a combination identically: constants, derivers, exclude
  5 shape         zipped groups are zipped (with a length check), groups are multiplied; MultiSweep concatenates in order
"""

from __future__ import annotations

import ast
import re

from ..cfg import CFG, ENTRY, EXIT, header_parts
from ..flow import Defs, Scope, iterations, nnf
from ..loader import AnalysisError, FuncInfo, dotted, norm, walk_no_nested
from ..report import Ctx
from ..selftest import Mutant

PROP = "C17"
TECHNIQUE = "static analysis: use-after-loop and def-use analysis of Sweep.product + must-read path query + negation-normal-form comparison of the case splits of __len__ and generate + arm-order and shape rules + guard-fact rule for dropped derivers + class-level method alias vs overriding subclasses + variable-arity itemgetter rule + late-binding closure rule + str-or-tuple iteration under isinstance guard (annotation typer + CFG guard facts) + groupby-needs-sorted + empty-items-first dominance + loop-carried fold rule + names/values alignment of zipped product rows + projection hands on only its own items + count_sweep covers every dependency + accumulator objects"
MOD = "pipefunc.sweep"
EXPLANATION = (
    "Static analysis of pipefunc/sweep.py: scope-aware use-after-loop detection and def-use of the merged attributes in "
    "Sweep.product, a must-read path query over the merge loop body, a sibling comparison of the case splits of "
    "__len__ and generate and of the two arms of generate, and shape rules for zip/product/concatenation."
)
TRUSTED = ["CPython ast parser", "itertools.product / zip semantics"]
DECLINED = [
    "that the enumerated combinations equal the documented set for every Sweep (value-level)",
    "filtered_sweep projections and count_sweep counts",
]


def _names_used(node: ast.AST, name: str) -> list[ast.Name]:
    """Loads of `name` in `node` that are not rebound by an enclosing comprehension / lambda inside `node`."""
    out: list[ast.Name] = []

    def visit(n: ast.AST, shadow: bool) -> None:
        if isinstance(n, (ast.ListComp, ast.SetComp, ast.GeneratorExp, ast.DictComp)):
            binds = {x.id for g in n.generators for x in ast.walk(g.target) if isinstance(x, ast.Name)}
            # the first iterable is evaluated in the enclosing scope
            visit(n.generators[0].iter, shadow)
            inner = shadow or name in binds
            for g in n.generators:
                for c in g.ifs:
                    visit(c, inner)
            for g in n.generators[1:]:
                visit(g.iter, inner)
            for part in ([n.elt] if not isinstance(n, ast.DictComp) else [n.key, n.value]):
                visit(part, inner)
            return
        if isinstance(n, ast.Lambda):
            binds = {a.arg for a in n.args.args}
            visit(n.body, shadow or name in binds)
            return
        if isinstance(n, (ast.For, ast.AsyncFor)) and any(isinstance(x, ast.Name) and x.id == name for x in ast.walk(n.target)):
            # another loop that binds the name itself: its body reads ITS element, not what the earlier loop left behind
            visit(n.iter, shadow)
            for st in n.body:
                visit(st, True)
            for st in n.orelse:
                visit(st, shadow)
            return
        if isinstance(n, ast.Name) and n.id == name and isinstance(n.ctx, ast.Load) and not shadow:
            out.append(n)
        for c in ast.iter_child_nodes(n):
            visit(c, shadow)

    visit(node, False)
    return out


def _merge_loop(prod: FuncInfo):
    vararg = prod.node.args.vararg.arg if prod.node.args.vararg else None
    def only_validates(lp: ast.For) -> bool:
        """`for other in others: if not isinstance(other, Sweep): raise ...` - an up-front check, not the merge."""
        return bool(lp.body) and all(isinstance(st, ast.If) and not st.orelse and st.body and isinstance(st.body[-1], ast.Raise) for st in lp.body)

    loops = [it["node"] for it in iterations(prod.node) if it["kind"] == "loop" and vararg and any(isinstance(x, ast.Name) and x.id == vararg for x in ast.walk(it["iter"]))]
    merging = [lp for lp in loops if not only_validates(lp)]
    if merging or loops:
        return vararg, (merging or loops)[0]
    raise AnalysisError("Sweep.product: no statement loop over the operands found")


def rule_accumulators_accumulate(ctx: Ctx) -> None:
    """A value that a loop over the operands is meant to FOLD must be carried from one iteration to the next: an assignment
    inside the loop that rebuilds it from a loop-invariant start and the current operand (`acc = combine(self.x, other.x)`) keeps
    the contribution of the LAST operand only."""
    n = 0
    for fn in [f for f in ctx.prog.functions.values() if f.module.name == MOD]:
        for loop in [lp for lp in walk_no_nested(fn.node) if isinstance(lp, ast.For)]:
            lvars = {x.id for x in ast.walk(loop.target) if isinstance(x, ast.Name)}
            body_pos = None
            for blk in [fn.node.body] + [getattr(s_, "body", []) for s_ in ast.walk(fn.node)] + [getattr(s_, "orelse", []) for s_ in ast.walk(fn.node)]:
                if isinstance(blk, list) and loop in blk:
                    body_pos = (blk, blk.index(loop))
            if body_pos is None:
                continue
            blk, i = body_pos
            before, after = blk[:i], blk[i + 1:]
            for st in loop.body:
                if not (isinstance(st, ast.Assign) and len(st.targets) == 1 and isinstance(st.targets[0], ast.Name)):
                    continue
                acc = st.targets[0].id
                if acc in lvars:
                    continue
                init = [b for b in before if isinstance(b, (ast.Assign, ast.AnnAssign)) and any(isinstance(t, ast.Name) and t.id == acc for t in (b.targets if isinstance(b, ast.Assign) else [b.target]))]
                used_after = any(isinstance(x, ast.Name) and x.id == acc and isinstance(x.ctx, ast.Load) for a_ in after for x in ast.walk(a_))
                reads_operand = any(isinstance(x, ast.Name) and x.id in lvars for x in ast.walk(st.value))
                if not (init and used_after and reads_operand and isinstance(st.value, ast.Call)):
                    continue
                # the other statements of the loop body may carry it (acc is read elsewhere in the body before this store)
                carried = any(isinstance(x, ast.Name) and x.id == acc and isinstance(x.ctx, ast.Load) for s2 in loop.body for x in ast.walk(s2))
                n += 1
                # what the fold starts from, re-used in place of the accumulator
                init_txt = norm(init[-1].value) if init[-1].value is not None else ""
                restarts = bool(init_txt) and any(norm(a_) == init_txt for a_ in st.value.args)
                ctx.tri("1-all-operands", fn, st, carried, not carried and restarts, f"`{acc}` is carried through the loop over the operands",
                        f"`{norm(st)[:70]}` rebuilds `{acc}` from its start value `{init_txt[:30]}` and the current operand in every iteration: only the last operand's contribution survives the loop "
                        "(with two or more right operands the derived keys / excludes of the ones in between are lost)", f"`{norm(st)[:60]}`: fold not recognised", key=f"fold {fn.name}.{acc}")
    ctx.add("1-all-operands", MOD, "", True, f"{n} loop-carried value(s) examined", key="fold-scan")


def rule_names_and_values_aligned(ctx: Ctx) -> None:
    """Names and values that are zipped position by position must be two views of ONE mapping (`d.keys()` with `d.values()`) or
    the values must be looked up by those very names (`[d[n] for n in names]`): names taken from somewhere else (`self.dims`)
    are in a different order - the combinations then carry the values of one dimension under the name of another."""
    n = 0
    for fn in [f for f in ctx.prog.functions.values() if f.module.name == MOD]:
        d = Defs(fn)
        for loop in [lp for lp in walk_no_nested(fn.node) if isinstance(lp, ast.For) and isinstance(lp.target, ast.Name) and isinstance(lp.iter, ast.Call) and dotted(lp.iter.func).rsplit(".", 1)[-1] in ("product", "zip")
                     and len(lp.iter.args) == 1 and isinstance(lp.iter.args[0], ast.Starred)]:
            vals = d.resolve(loop.iter.args[0].value)
            for z in [c for st in loop.body for c in ast.walk(st) if isinstance(c, ast.Call) and dotted(c.func) == "zip" and len(c.args) == 2 and isinstance(c.args[1], ast.Name) and c.args[1].id == loop.target.id]:
                names = d.resolve(z.args[0])
                if not (isinstance(vals, ast.Call) and isinstance(vals.func, ast.Attribute) and vals.func.attr == "values" and not vals.args):
                    continue
                n += 1
                base = norm(vals.func.value)

                def aligned(e: ast.AST) -> bool:
                    t = norm(e)
                    return t in (f"{base}.keys()", base, f"list({base})", f"tuple({base})", f"list({base}.keys())", f"tuple({base}.keys())")

                arms = [names.body, names.orelse] if isinstance(names, ast.IfExp) else [names]
                good = all(aligned(a) for a in arms)
                foreign = [a for a in arms if not aligned(a) and isinstance(a, (ast.Attribute, ast.Name, ast.Call))]
                ctx.tri("4-arms", fn, z, good, bool(foreign), f"`{norm(z)[:50]}`: names and values are two views of `{base}`",
                        f"`{norm(z)[:50]}` pairs the values of `{base}` (in the order of that dict) with names taken from `{norm(foreign[0])[:40] if foreign else ''}`: when the two orders differ the combinations carry the values of one dimension under another's name",
                        f"origin of the names `{norm(names)[:40]}` not recognised", key=f"aligned {fn.name}")
    ctx.add("4-arms", MOD, "", True, f"{n} position-wise pairing(s) of names with product values examined", key="aligned-scan")


def rule_all_operands(ctx: Ctx) -> None:
    prod = ctx.prog.func(f"{MOD}.Sweep.product")
    vararg, loop = _merge_loop(prod)
    var = loop.target.id if isinstance(loop.target, ast.Name) else "?"
    whole = isinstance(loop.iter, ast.Name) and loop.iter.id == vararg
    ctx.tri("1-all-operands", prod, loop, whole, isinstance(loop.iter, ast.Subscript), f"merge loop iterates the operands `*{vararg}`", f"merge loop iterates `{norm(loop.iter)}`, not all operands `*{vararg}`", key="loop-iter")
    body = next((b for b in ([prod.node.body] + [getattr(s, "body", []) for s in ast.walk(prod.node)] + [getattr(s, "orelse", []) for s in ast.walk(prod.node)]) if loop in b), prod.node.body)
    after = body[body.index(loop) + 1:]
    uses = [u for st in after for u in _names_used(st, var)]
    ctx.add("1-all-operands", prod, uses[0] if uses else loop, not uses,
            f"`{var}` is not used after the loop" if not uses else f"loop variable `{var}` is used after the loop: only the LAST operand contributes (and product() without operands fails)",
            key=f"use-after-loop {var}")
    mutated_in_loop = set()
    for n in ast.walk(loop):
        if isinstance(n, ast.Call) and isinstance(n.func, ast.Attribute) and isinstance(n.func.value, ast.Name) and n.func.attr in ("update", "extend", "append"):
            mutated_in_loop.add(n.func.value.id)
        if isinstance(n, (ast.Assign, ast.AugAssign)):
            for t in (n.targets if isinstance(n, ast.Assign) else [n.target]):
                if isinstance(t, ast.Name):
                    mutated_in_loop.add(t.id)
                if isinstance(t, ast.Subscript) and isinstance(t.value, ast.Name):
                    mutated_in_loop.add(t.value.id)
    # an accumulator OBJECT that absorbs the operand through one of its methods (`parts.absorb(other)`): the attributes that method
    # writes are accumulated; a method that cannot be found makes the whole object "possibly accumulated"
    mutated_attrs: set[str] = set()
    for n in ast.walk(loop):
        if isinstance(n, ast.Call) and isinstance(n.func, ast.Attribute) and isinstance(n.func.value, ast.Name) and n.func.attr not in ("update", "extend", "append") \
                and any(isinstance(x, ast.Name) and x.id == var for a_ in [*n.args, *[k.value for k in n.keywords]] for x in ast.walk(a_)):
            recv = n.func.value.id
            impls = [c_.methods[n.func.attr] for c_ in ctx.prog.classes.values() if c_.module.name == MOD and n.func.attr in dict.keys(c_.methods)]
            if not impls:
                mutated_in_loop.add(recv)
                continue
            for m_ in impls:
                for w in ast.walk(m_.node):
                    tg = w.targets if isinstance(w, ast.Assign) else ([w.target] if isinstance(w, (ast.AugAssign, ast.AnnAssign)) else [])
                    for t in tg:
                        if isinstance(t, ast.Attribute) and isinstance(t.value, ast.Name) and t.value.id == "self":
                            mutated_attrs.add(f"{recv}.{t.attr}")
                    if isinstance(w, ast.Call) and isinstance(w.func, ast.Attribute) and w.func.attr in ("update", "extend", "append", "setdefault", "add") and isinstance(w.func.value, ast.Attribute) \
                            and isinstance(w.func.value.value, ast.Name) and w.func.value.value.id == "self":
                        mutated_attrs.add(f"{recv}.{w.func.value.attr}")
    ret_calls = [c for st in after for c in ast.walk(st) if isinstance(c, ast.Call) and dotted(c.func) in ("Sweep", "type(self)", "self.__class__")]
    if not ret_calls:
        raise AnalysisError("Sweep.product: construction of the result not found")
    call = ret_calls[0]
    d = Defs(prod)
    sig = ["items", "dims", "exclude", "constants", "derivers"]
    given = {sig[i]: a for i, a in enumerate(call.args)} | {k.arg: k.value for k in call.keywords if k.arg}
    # `Sweep(items, dims=..., **merged)`: the keywords may come from a mapping built in the function
    dyn = False
    for k in [k for k in call.keywords if k.arg is None]:
        m_ = d.resolve(k.value)
        if isinstance(m_, ast.Dict) and all(isinstance(kk, ast.Constant) for kk in m_.keys):
            given |= {kk.value: vv for kk, vv in zip(m_.keys, m_.values)}
        else:
            dyn = True
    for attr in sig:
        e = given.get(attr)
        if e is None:
            ctx.add("1-all-operands", prod, call, None if dyn else False, f"UNDECIDED: `{attr}` may be among the keywords splatted into the constructor (`**{norm([k.value for k in call.keywords if k.arg is None][0])[:30]}`)" if dyn else
                    f"the product does not pass `{attr}`: that attribute of the operands is dropped", key=f"merged {attr}")
            continue
        r = d.resolve(e)
        names = {x.id for x in ast.walk(e) if isinstance(x, ast.Name)} | {x.id for x in ast.walk(r) if isinstance(x, ast.Name)}
        dep = bool(names & mutated_in_loop) or (vararg in names) or any(norm(x) in mutated_attrs for x in [*ast.walk(e), *ast.walk(r)] if isinstance(x, ast.Attribute))
        if not dep:  # through further locals (all definitions, in-place growth, loop variables)
            from ..flow import dependence_text

            closure = dependence_text(prod.node, e, depth=6)
            dep = any(re.search(rf"\b{re.escape(nm)}\b", closure) for nm in mutated_in_loop | {vararg})
        ctx.add("1-all-operands", prod, e, dep, f"`{attr}` is accumulated over all operands" if dep else f"`{attr}` of the result is `{norm(r)[:50]}`: it does not depend on the operands", key=f"merged {attr}")
        src = ast.unparse(loop) + ast.unparse(r) + "".join(ast.unparse(c_.methods[n_.func.attr].node) for n_ in ast.walk(loop) if isinstance(n_, ast.Call) and isinstance(n_.func, ast.Attribute)
                                                        for c_ in ctx.prog.classes.values() if c_.module.name == MOD and n_.func.attr in dict.keys(c_.methods) and c_.name != "Sweep")
        own = f".{attr}" in src
        ctx.tri("1-all-operands", prod, e, own, False, f"reads `<operand>.{attr}`", "", f"no read of `<operand>.{attr}` recognised", key=f"reads {attr}")


def rule_reads_dims(ctx: Ctx) -> None:
    prod = ctx.prog.func(f"{MOD}.Sweep.product")
    _vararg, loop = _merge_loop(prod)
    var = loop.target.id if isinstance(loop.target, ast.Name) else "?"
    fake = ast.FunctionDef(name="_body", args=ast.arguments(posonlyargs=[], args=[], kwonlyargs=[], kw_defaults=[], defaults=[]), body=loop.body, decorator_list=[], lineno=loop.lineno, col_offset=0)
    cfg = CFG(fake)
    readers = set()
    for n in cfg.nodes():
        for part in header_parts(cfg.stmt[n]):
            if any(isinstance(a, ast.Attribute) and a.attr == "dims" and isinstance(a.value, ast.Name) and a.value.id == var for a in ast.walk(part)):
                readers.add(n)
    ok = bool(readers) and cfg.must_pass(ENTRY, EXIT, readers, normal_only=True)
    wp = None if ok else cfg.witness_path(ENTRY, EXIT, readers)
    ctx.add("2-reads-dims", prod, loop, ok,
            f"every path through the merge loop reads `{var}.dims`" if ok else f"a path through the merge loop never reads `{var}.dims`: a zipped operand is expanded to a full product when the receiver has dims=None",
            key="must-read other.dims", path=cfg.describe(wp, prod.module.relpath) if wp else None)


def rule_len_mirror(ctx: Ctx) -> None:
    gen = ctx.prog.func(f"{MOD}.Sweep.generate")
    ln = ctx.prog.func(f"{MOD}.Sweep.__len__")
    g_ifs = [s for s in walk_no_nested(gen.node) if isinstance(s, ast.If)]
    l_ifs = [s for s in walk_no_nested(ln.node) if isinstance(s, ast.If)]
    # empty items
    g_empty = [s for s in g_ifs if nnf(s.test) in ("not self.items", "len(self.items) == 0") and any(isinstance(x, ast.Return) for x in s.body)]
    if g_empty:
        l_empty = [s for s in l_ifs if nnf(s.test) in ("not self.items", "len(self.items) == 0")]
        zero = [s for s in l_empty if any(isinstance(x, ast.Return) and isinstance(x.value, ast.Constant) and x.value.value == 0 for x in s.body)]
        mentions = any("self.items" in norm(s.test) and "self.dims" not in norm(s.test) for s in l_ifs)
        ctx.tri("3-len-mirror", ln, (zero or [ln.node])[0], bool(zero), not mentions, "__len__ returns 0 for empty items, like generate yields nothing",
                "generate yields nothing for empty items but __len__ has no such case (len == 1, list() == [])", "__len__ tests self.items in an unrecognised way", key="empty-items")
    # product-vs-dims split
    split = [s for s in g_ifs if "self.dims" in norm(s.test)]
    if split:
        want = {nnf(split[0].test), nnf(split[0].test, True)}
        l_dims = [s for s in l_ifs if "self.dims" in norm(s.test)]
        same = [s for s in l_dims if nnf(s.test) in want]
        ctx.tri("3-len-mirror", ln, (same or l_dims or [ln.node])[0], bool(same), bool(l_dims) and not same, "same product-vs-dims case split in __len__ and generate",
                f"__len__ splits on `{norm(l_dims[0].test) if l_dims else ''}` but generate on `{norm(split[0].test)}`: for the sweeps in between len() counts another arm than generate() runs", "__len__ has no test of self.dims", key="dims-split")
    g_ex = any("self.exclude" in norm(s.test) for s in g_ifs)
    if g_ex:
        ex = [s for s in l_ifs if "self.exclude" in norm(s.test)]
        enumerates = [s for s in ex if any(t in ast.unparse(s) for t in ("self.list()", "self.generate()", "list(self)", "for _ in self"))]
        anywhere = "self.exclude" in norm(ln.node)
        ctx.tri("3-len-mirror", ln, (enumerates or ex or [ln.node])[0], bool(enumerates), not anywhere, "with an exclude function the length is counted by enumeration",
                "__len__ never looks at `exclude` although generate filters by it: len() counts excluded combinations", "__len__ handles exclude in an unrecognised way", key="exclude-enumerates")


def _arms(gen: FuncInfo) -> list[ast.For]:
    return sorted([s for s in walk_no_nested(gen.node) if isinstance(s, ast.For) and any(isinstance(x, ast.Yield) for x in ast.walk(s))
                   and not any(isinstance(y, ast.For) and y is not s and any(isinstance(x, ast.Yield) for x in ast.walk(y)) for y in ast.walk(s))], key=lambda s_: s_.lineno)


def rule_arms(ctx: Ctx) -> None:
    gen = ctx.prog.func(f"{MOD}.Sweep.generate")
    arms = _arms(gen)
    ctx.floor("4-arms", len(arms), 2)
    for i, a in enumerate(arms):
        seq = []
        for st in a.body:
            t = ast.unparse(st)
            for kind in ("constants", "derivers", "exclude"):
                if f"self.{kind}" in t and kind not in [k for k, _ in seq]:
                    seq.append((kind, st))
        order = [k for k, _ in seq]
        ctx.tri("4-arms", gen, a, order == ["constants", "derivers", "exclude"], bool(order) and order != ["constants", "derivers", "exclude"],
                f"arm {i}: constants, then derivers, then exclude", f"arm {i} applies {order} (expected constants, derivers, exclude - all three, in this order): combinations of this arm differ from the other arm's",
                f"arm {i}: post-processing is not inline", key=f"arm{i}-order")
        for kind, st in seq:
            if kind == "constants":
                par_s = {id(c_): p_ for p_ in ast.walk(st) for c_ in ast.iter_child_nodes(p_)}

                def guarded_by_absence(x: ast.Assign) -> bool:
                    """`if key not in d: d[key] = v` - the spelled-out setdefault."""
                    t_ = next((t_ for t_ in x.targets if isinstance(t_, ast.Subscript)), None)
                    y: ast.AST = x
                    while t_ is not None and id(y) in par_s:
                        child, y = y, par_s[id(y)]
                        if isinstance(y, ast.If) and child in y.body and isinstance(y.test, ast.Compare) and len(y.test.ops) == 1 and isinstance(y.test.ops[0], ast.NotIn) \
                                and norm(y.test.left) == norm(t_.slice) and norm(y.test.comparators[0]) == norm(t_.value):
                            return True
                    return False

                absent_guarded = [x for x in ast.walk(st) if isinstance(x, ast.Assign) and any(isinstance(t_, ast.Subscript) for t_ in x.targets) and guarded_by_absence(x)]
                overwrite = [x for x in ast.walk(st) if isinstance(x, ast.Assign) and any(isinstance(t_, ast.Subscript) for t_ in x.targets) and not guarded_by_absence(x)] + \
                            [x for x in ast.walk(st) if isinstance(x, ast.Call) and isinstance(x.func, ast.Attribute) and x.func.attr == "update" and "constants" in norm(x)]
                ctx.tri("4-arms", gen, st, ("setdefault" in norm(st) or bool(absent_guarded)) and not overwrite, bool(overwrite), "constants never override swept values (setdefault)",
                        f"`{norm(overwrite[0])[:50] if overwrite else ''}`: constants overwrite swept values", key=f"constants-setdefault@{i}")


def rule_shape(ctx: Ctx) -> None:  # noqa: C901, PLR0915
    gen = ctx.prog.func(f"{MOD}.Sweep.generate")
    prod = ctx.prog.func(f"{MOD}.Sweep.product")
    d = Defs(gen)
    arms = _arms(gen)
    for i, a in enumerate(arms):
        it = d.resolve(a.iter)
        fname = dotted(it.func).rsplit(".", 1)[-1] if isinstance(it, ast.Call) else ""
        ctx.tri("5-shape", gen, a, fname == "product", fname == "zip", f"arm {i} multiplies its groups with itertools.product", f"arm {i} iterates `{norm(it)[:50]}`: groups are zipped instead of multiplied", f"arm {i} iterates `{norm(it)[:50]}`", key=f"product@{i}")
    # per-group member sequences: a starred call over [self.items[m] for m in group]
    member_calls = []
    for c in [c for c in ast.walk(gen.node) if isinstance(c, ast.Call) and len(c.args) == 1 and isinstance(c.args[0], ast.Starred)]:
        src = c.args[0].value
        defs_ = [src] + [s.value for s in ast.walk(gen.node) if isinstance(s, ast.Assign) and isinstance(src, ast.Name) and any(isinstance(t, ast.Name) and t.id == src.id for t in s.targets)]
        if any(isinstance(x, (ast.ListComp, ast.GeneratorExp)) and "self.items[" in norm(x.elt) for dd in defs_ for x in ast.walk(dd)):
            member_calls.append(c)
    zipped = [c for c in member_calls if dotted(c.func) == "zip"]
    multiplied = [c for c in member_calls if dotted(c.func).endswith("product")]
    ctx.tri("5-shape", gen, (multiplied or zipped or [gen.node])[0], bool(zipped) and not multiplied, bool(multiplied), "members of a dims group are zipped",
            "members of a dims group are multiplied (product) instead of zipped", "no zip over the members of a group recognised", key="zip-group")
    strict = any(k.arg == "strict" and isinstance(k.value, ast.Constant) and k.value.value is True for c in zipped for k in c.keywords)
    checked = any("length" in _last(dotted(c.func)) or "check" in _last(dotted(c.func)) for _f, c in Scope(ctx, gen).calls(*[_last(dotted(c.func)) for c in ast.walk(gen.node) if isinstance(c, ast.Call)]))
    raises = any(isinstance(x, ast.Raise) for f in Scope(ctx, gen).funcs for x in ast.walk(f.node))
    if zipped:
        ctx.tri("5-shape", gen, zipped[0], strict or (checked and raises), not strict and not raises, "zipped sequences are length-checked",
                "zipped sequences of unequal length are silently truncated (no length check, no strict=True)", "length check not recognised", key="dim-length-check")
    _vararg, loop = _merge_loop(prod)
    var = loop.target.id if isinstance(loop.target, ast.Name) else "?"
    grp = [c for c in ast.walk(loop) if isinstance(c, ast.Call) and isinstance(c.func, ast.Attribute) and isinstance(c.func.value, ast.Name) and "dims" in c.func.value.id and c.func.attr in ("extend", "append", "insert") and c.args]
    keys_as_one = [c for c in grp if c.func.attr in ("append", "insert") and f"{var}.items" in norm(c.args[-1])]
    good = bool(grp) and all(c.func.attr == "extend" for c in grp) and any(f"{var}.items" in norm(c.args[0]) for c in grp) and any(norm(c.args[0]) == f"{var}.dims" for c in grp)
    ctx.tri("5-shape", prod, (keys_as_one or grp or [loop])[0], good, bool(keys_as_one), "an operand contributes its own groups, or one group per key when it has none",
            "the operand's keys are added to dims as ONE group (append): they are zipped instead of multiplied", key="one-group-per-key")
    addf = ctx.prog.func(f"{MOD}.Sweep.__add__")
    other = [p for p in addf.param_names() if p != "self"][0]
    rets = [Defs(addf).resolve(r.value) for r in walk_no_nested(addf.node) if isinstance(r, ast.Return) and r.value is not None]
    swapped = [r for r in rets if isinstance(r, ast.Call) and ((r.args and norm(r.args[0]) == other and any(norm(x) == "self" for x in r.args[1:])) or (isinstance(r.func, ast.Attribute) and norm(r.func.value) == other and any(norm(x) == "self" for x in r.args)))]
    good = bool(rets) and all(isinstance(r, ast.Call) and [norm(x) for x in r.args] == ["self", other] for r in rets)
    ctx.tri("5-shape", addf, addf.node, good, bool(swapped), "a + b concatenates a before b", f"`{norm(swapped[0]) if swapped else ''}` puts the right operand first: a + b enumerates b's combinations before a's", key="add-order")
    mc = ctx.prog.func(f"{MOD}.MultiSweep.combine")
    front = [c for c in ast.walk(mc.node) if isinstance(c, ast.Call) and isinstance(c.func, ast.Attribute) and c.func.attr == "insert" and "sweeps" in norm(c.func.value)]
    back = [c for c in ast.walk(mc.node) if isinstance(c, ast.Call) and isinstance(c.func, ast.Attribute) and c.func.attr in ("append", "extend") and "sweeps" in norm(c.func.value)]
    ctx.tri("5-shape", mc, (front or back or [mc.node])[0], bool(back) and not front, bool(front), "MultiSweep.combine appends the other sweep(s) after its own", "MultiSweep.combine inserts the other sweep before its own", key="combine-appends")
    ms = ctx.prog.func(f"{MOD}.MultiSweep.generate")
    fl = [it for it in iterations(ms.node) if "self.sweeps" in norm(it["iter"])]
    inorder = [it for it in fl if norm(it["iter"]) == "self.sweeps"]
    reordered = [it for it in fl if any(w in norm(it["iter"]) for w in ("reversed(", "sorted(", "[::-1]"))]
    ctx.tri("5-shape", ms, (reordered or inorder or [{"node": ms.node}])[0]["node"], bool(inorder) and not reordered, bool(reordered), "MultiSweep yields from its sweeps in order",
            f"MultiSweep.generate iterates `{norm(reordered[0]['iter']) if reordered else ''}`: the concatenation order changes", key="multisweep-order")
    ml = ctx.prog.func(f"{MOD}.MultiSweep.__len__")
    txt = " ".join(norm(Defs(ml).resolve(r.value)) for r in walk_no_nested(ml.node) if isinstance(r, ast.Return) and r.value is not None) + norm(ml.node)
    ctx.tri("5-shape", ml, ml.node, "len(" in txt and "self.sweeps" in txt and ("sum(" in txt or "+=" in txt), False, "MultiSweep length is the sum of its parts", "", "MultiSweep.__len__ not recognised as a sum over self.sweeps", key="multisweep-len")
    lst = ctx.prog.func(f"{MOD}.Sweep.list")
    txt = norm(lst.node)
    ctx.tri("5-shape", lst, lst.node, "self.generate()" in txt or "list(self)" in txt, False, "list() enumerates generate()", "", "Sweep.list not recognised as list(generate())", key="list-is-generate")


def _last(name: str) -> str:
    return name.rsplit(".", 1)[-1]


def rule_pure(ctx: Ctx) -> None:
    """Combinators build new sweeps: no method stores into the receiver, an operand, or a container reachable from them,
    and no method other than __init__ (re)binds attributes of `self` (a Sweep carries no hidden state between calls)."""
    from .c20 import MUTATING, Alias

    n = 0
    for cname in ("Sweep", "MultiSweep"):
        cls = ctx.prog.cls(f"{MOD}.{cname}")
        for mname, fn in cls.methods.items():
            if mname in ("__init__", "__post_init__"):
                continue
            tracked = {"self"} | {p.arg for p in fn.params if p.annotation is not None and any(w in ast.unparse(p.annotation) for w in ("Sweep", "dict", "list"))}
            if mname.startswith("_") and not mname.startswith("__"):
                # a private helper's container parameter is an operand only if some caller hands it something that is
                # reachable from that caller's receiver / operands (a freshly built dict is the helper's to fill)
                from ..flow import bind_args

                def handed_operand(pname: str, fn=fn) -> bool:
                    for site in ctx.cg.call_sites_of(fn.qualname):
                        a = bind_args(site.node, fn).get(pname)
                        ctr = {"self"} | {q.arg for q in site.caller.params if q.annotation is not None and any(w in ast.unparse(q.annotation) for w in ("Sweep", "dict", "list"))}
                        if a is None or Alias(site.caller, ctr).mutated_owner(a):
                            return True
                    return False

                tracked = {"self"} | {p_ for p_ in tracked - {"self"} if "Sweep" in ast.unparse(next(q.annotation for q in fn.params if q.arg == p_)) or handed_operand(p_)}
            if mname in ("combine",) and cname == "MultiSweep":
                continue  # documented in-place operation of MultiSweep
            n += 1
            al = Alias(fn, tracked)
            bad: list[tuple[ast.AST, str]] = []
            for s_ in walk_no_nested(fn.node):
                targets: list[ast.AST] = []
                if isinstance(s_, ast.Assign):
                    targets = s_.targets
                elif isinstance(s_, (ast.AugAssign, ast.AnnAssign)):
                    targets = [s_.target]
                elif isinstance(s_, ast.Delete):
                    targets = s_.targets
                for t in targets:
                    if isinstance(t, ast.Attribute) and isinstance(t.value, ast.Name) and t.value.id == "self":
                        bad.append((s_, f"`{norm(s_)[:70]}` stores state on the sweep outside its constructor: later calls see what an earlier call (or its caller) left there"))
                    elif isinstance(t, (ast.Subscript, ast.Attribute)):
                        owners = al.mutated_owner(t.value)
                        if owners:
                            bad.append((s_, f"`{norm(s_)[:70]}` stores into an object reachable from `{sorted(owners)[0]}`"))
                if isinstance(s_, ast.Expr) and isinstance(s_.value, ast.Call) and isinstance(s_.value.func, ast.Attribute) and s_.value.func.attr in MUTATING:
                    owners = al.mutated_owner(s_.value.func.value)
                    if owners:
                        bad.append((s_, f"`{norm(s_)[:70]}` mutates an object reachable from `{sorted(owners)[0]}`: the operand sweep is changed by building a new one"))
            if bad:
                for node, msg in bad:
                    ctx.add("6-pure", fn, node, False, msg)
            else:
                ctx.add("6-pure", fn, fn.node, True, "no store or mutating call reaches the receiver or an operand", key=f"def {cname}.{mname}")
    ctx.floor("6-pure", n, 10)


def rule_derivers_kept(ctx: Ctx) -> None:
    """Derivers (and constants / exclude) are part of what a sweep enumerates: a method may build its result WITHOUT the
    receiver's derivers only on paths where the receiver has none, otherwise it must go through generate() (which applies
    them).  Checked as a guard fact on every `Sweep(..., derivers=None)` built from `self.items`."""
    from ..flow import guard_facts

    n = 0
    for cname in ("Sweep", "MultiSweep"):
        cls = ctx.prog.cls(f"{MOD}.{cname}")
        for mname, fn in cls.methods.items():
            cfg = None
            for c in [c for c in ast.walk(fn.node) if isinstance(c, ast.Call) and dotted(c.func) in ("Sweep", "type(self)", "self.__class__")]:
                drops = [k for k in c.keywords if k.arg == "derivers" and isinstance(k.value, ast.Constant) and k.value.value is None]
                from_self = any("self.items" in norm(Defs(fn).resolve(a)) for a in [*c.args, *[k.value for k in c.keywords]])  # the receiver's items, whole or narrowed
                if not drops or not from_self:
                    continue
                n += 1
                cfg = cfg or ctx.cfg(fn)
                node = cfg.node_containing(c)
                facts = guard_facts(cfg, Defs(fn), node) if node is not None else []
                none_here = any(t == "self.derivers is None" and pol for t, pol in facts) or any(t == "self.derivers" and not pol for t, pol in facts)
                ctx.add("7-derivers", fn, c, none_here, f"{cname}.{mname} builds a sweep without derivers only where the receiver has none" if none_here else
                        f"`{norm(c)[:60]}` drops the receiver's derivers on a path where `self.derivers` may be set: the derived (or overwritten) keys keep their un-derived values", key=f"derivers {cname}.{mname}")
    ctx.floor("7-derivers", n, 1)
    # a class-level alias of a method freezes the base class's implementation: subclasses that override the method are bypassed
    m = 0
    for cls in [c for c in ctx.prog.classes.values() if c.module.name == MOD]:
        for alias, v in cls.class_assigns.items():
            if isinstance(v, ast.Name) and v.id in dict.keys(cls.methods):
                m += 1
                over = [sc.name for sc in ctx.prog.subclasses(cls.qualname) if v.id in dict.keys(sc.methods) and alias not in dict.keys(sc.methods) and alias not in sc.class_assigns]
                ctx.add("7-derivers", cls.qualname, cls.loc, not over, f"`{alias} = {v.id}` in {cls.name}: no subclass overrides {v.id}" if not over else
                        f"`{alias} = {v.id}` in {cls.name} binds {cls.name}.{v.id} itself: {over} override(s) `{v.id}` but `{alias}` still runs the base implementation (iteration of a {over[0]} yields the base class's combinations)", key=f"alias {cls.name}.{alias}")
    ctx.add("7-derivers", MOD, "", True, f"{m} class-level method alias(es) examined", key="alias-scan")
    # a getter built from a VARIABLE number of names changes its result kind with that number: itemgetter(*names) returns a bare
    # value for one name, a tuple for several and raises for none - keys built with it are not uniformly tuples
    g = 0
    for fn in ctx.prog.functions_in(MOD):
        for c in [c for c in ast.walk(fn.node) if isinstance(c, ast.Call) and dotted(c.func).rsplit(".", 1)[-1] in ("itemgetter", "attrgetter")]:
            g += 1
            star = [a for a in c.args if isinstance(a, ast.Starred)]
            ctx.add("7-derivers", fn, c, not star, f"`{norm(c)}` has a fixed number of names" if not star else
                    f"`{norm(c)}` is built from a variable number of names: with exactly one name it yields bare values instead of 1-tuples (and with none it raises), so the reported keys change shape with the number of root arguments", key=f"getter {fn.name}")
    ctx.add("7-derivers", MOD, "", True, f"{g} itemgetter/attrgetter call(s) examined", key="getter-scan")


def rule_closures_and_names(ctx: Ctx) -> None:
    """Two Python pitfalls that silently change WHICH combinations a sweep yields:
    (a) a closure created in a loop reads the loop variable late - a chain of exclude functions built that way calls the LAST
        function at every link, the excludes of the other operands are dropped;
    (b) a dims entry is `str | tuple[str, ...]`; iterating an entry that may be a str walks its characters - names longer than one
        character vanish from the filtered dims.  Every iteration over such a value must sit under an isinstance test of it."""
    from ..flow import late_bound_closures

    P = ctx.prog
    fns = [f for f in P.functions.values() if f.module.name == "pipefunc.sweep"]
    late = [(f, cl, v) for f in fns for cl, v, _lp in late_bound_closures(f.node) if f.parent is None or True]
    seen_ids = set()
    late = [(f, cl, v) for f, cl, v in late if not (id(cl) in seen_ids or seen_ids.add(id(cl)))]
    ctx.add("1-all-operands", late[0][0] if late else fns[0], late[0][1] if late else fns[0].node, not late, "no closure created in a loop reads the loop variable late" if not late else
            f"`{norm(late[0][1])[:70]}` is created in a loop and reads `{late[0][2]}` as a free variable: Python binds it late, so every closure built by the loop sees the LAST value - "
            "with three or more operands the combined exclude calls the last function at every link and the excludes of the operands in between are lost", key="late-binding")
    n = 0
    for f in fns:
        par = {id(c): p_ for p_ in ast.walk(f.node) for c in ast.iter_child_nodes(p_)}
        for it in ast.walk(f.node):
            src = it.iter if isinstance(it, (ast.For, ast.comprehension)) else None
            if not isinstance(src, ast.Name):
                continue
            ty = ctx.cg.typer.expr(f, src)
            alts = ty.args if ty.kind == "union" else (ty,)
            if not (any(a.kind == "builtin" and a.name == "str" for a in alts) and any(a.kind in ("tuple", "seq") for a in alts)):
                continue
            n += 1
            guarded = False
            x: ast.AST = it
            while id(x) in par:
                x = par[id(x)]
                if isinstance(x, (ast.If, ast.IfExp)) and any(isinstance(c, ast.Call) and dotted(c.func) == "isinstance" and c.args and norm(c.args[0]) == src.id for c in ast.walk(x.test)):
                    guarded = True
            if not guarded:
                from ..flow import guard_facts

                cfg_ = ctx.cfg(f)
                nd = cfg_.node_containing(src)
                if nd is not None:
                    guarded = any(re.search(rf"isinstance\({re.escape(src.id)}\b", t_) for t_, _pol in guard_facts(cfg_, Defs(ast.Module(body=[], type_ignores=[])), nd))
            ctx.add("5-shape", f, it if not isinstance(it, ast.comprehension) else src, guarded, f"`{src.id}` (str | tuple) is iterated only under an isinstance test" if guarded else
                    f"`{src.id}` may be a plain name (str) or a tuple of names; iterating it without an isinstance test walks the CHARACTERS of a name: every bare dims entry longer than one character is dropped from the filtered sweep", key=f"str-iteration {f.name} {src.id}")
    ctx.floor("5-shape.str-or-tuple", n, 1)
    # (c) itertools.groupby groups CONSECUTIVE equal keys; counting combinations with it is only right on sorted input
    ungrouped = []
    for f in fns:
        d_ = Defs(f)
        for c in ast.walk(f.node):
            if isinstance(c, ast.Call) and dotted(c.func).rsplit(".", 1)[-1] == "groupby" and not isinstance(c.func, ast.Attribute) or (isinstance(c, ast.Call) and dotted(c.func) == "itertools.groupby"):
                src = d_.resolve(c.args[0]) if c.args else None
                if src is not None and not any(isinstance(x, ast.Call) and dotted(x.func) == "sorted" for x in ast.walk(src)):
                    ungrouped.append((f, c))
    ctx.add("5-shape", ungrouped[0][0] if ungrouped else fns[0], ungrouped[0][1] if ungrouped else fns[0].node, not ungrouped, "no itertools.groupby over unsorted combinations" if not ungrouped else
            f"`{norm(ungrouped[0][1])[:50]}` groups CONSECUTIVE equal keys of an unsorted sequence: equal root-argument tuples that are not adjacent in enumeration order are counted as separate runs, "
            "the later run overwrites the earlier one (counts too small; caching is then switched off for functions that ARE re-executed)", key="groupby-sorted")
    # (d) "no items -> nothing" is decided first, whatever dims says: a Sweep({}, dims=[...]) (what filtered_sweep leaves of a sweep that
    # enumerates nothing) must list as [] and have length 0 like any other empty sweep
    sw = P.cls("pipefunc.sweep.Sweep")
    for mname in ("generate", "__len__"):
        m = sw.methods[mname]
        cfg_ = ctx.cfg(m)
        guards_ = cfg_.nodes(lambda s_: isinstance(s_, ast.If) and norm(s_.test) in ("not self.items", "len(self.items) == 0", "not len(self.items)"))
        others = cfg_.nodes(lambda s_: isinstance(s_, (ast.If, ast.For)) and norm(getattr(s_, "test", getattr(s_, "iter", None))) not in ("not self.items",) and ("self.dims" in norm(getattr(s_, "test", getattr(s_, "iter", None)))))
        first = bool(guards_) and all(any(cfg_.dominates(g_, o_) for g_ in guards_) for o_ in others)
        ctx.tri("3-len-mirror", m, cfg_.stmt[guards_[0]] if guards_ else m.node, first, bool(guards_) and bool(others) and not first, f"Sweep.{mname}: an empty `items` is handled before `dims` is looked at",
                f"Sweep.{mname} looks at `dims` before it has handled empty `items`: a sweep without items but with dims (left over by filtered_sweep when nothing is enumerated) raises KeyError from list() / len() instead of being empty",
                "empty-items guard not recognised", key=f"empty-first {mname}")


def rule_projection_keeps_only_its_items(ctx: Ctx) -> None:
    """A sweep's `items` hold its dimensions and nothing else: product() merges the operands' items wholesale, so an entry that
    is no dimension of an operand (left behind by a projection) replaces the visible dimension of the same name of another operand.
    filtered_sweep narrows `dims` to the requested keys, so the `items` it hands to the new Sweep are narrowed by the same keys."""
    from ..flow import dependence_text

    fs = ctx.prog.cls(f"{MOD}.Sweep").methods["filtered_sweep"]
    keyp = [p_ for p_ in fs.param_names() if p_ != "self"][0]
    d = Defs(fs)
    n = 0
    for r in [r for r in walk_no_nested(fs.node) if isinstance(r, ast.Return) and isinstance(r.value, ast.Call) and dotted(r.value.func) == "Sweep"]:
        c = r.value
        items = c.args[0] if c.args else next((k.value for k in c.keywords if k.arg == "items"), None)
        dims = c.args[1] if len(c.args) > 1 else next((k.value for k in c.keywords if k.arg == "dims"), None)
        if items is None or dims is None:
            continue  # Sweep({}) / a sweep without dims
        n += 1
        it_txt, dm_txt = dependence_text(fs.node, items), dependence_text(fs.node, dims)
        narrowed_dims = re.search(rf"\bin {re.escape(keyp)}\b", dm_txt) is not None or re.search(rf"\b{re.escape(keyp)}\b", norm(d.resolve(dims))) is not None
        narrowed_items = re.search(rf"\b{re.escape(keyp)}\b", it_txt) is not None
        whole = norm(d.resolve(items)) in ("self.items", "self.items.copy()", "dict(self.items)")
        ctx.tri("7-closures", fs, c, narrowed_items or not narrowed_dims, whole and narrowed_dims, "the projection hands on only the items it still enumerates",
                f"`{norm(c)[:60]}` narrows dims to `{keyp}` but hands on ALL items: the dropped entries stay in `.items`, and product() (items.update(other.items)) lets them replace the dimension of the same name "
                "of the other operand - Sweep({'b': [7, 8, 9]}).product(Sweep({'a': [1, 2], 'b': [3, 4]}).filtered_sweep(('a',))) enumerates b in [3, 4]",
                "how the projection's items relate to the requested keys was not recognised", key="projection-items-narrowed")
    ctx.floor("7-closures.projection", n, 2)


def rule_counts_every_dependency(ctx: Ctx) -> None:
    """count_sweep reports EVERY dependency of the output: the loop over func_dependencies has no filter and no `continue` -
    a dependency without root arguments is reported with the empty tuple as its only key."""
    cs = ctx.prog.func(f"{MOD}.count_sweep")
    d = Defs(cs)
    loops = [lp for lp in walk_no_nested(cs.node) if isinstance(lp, ast.For) and "func_dependencies(" in norm(d.resolve(lp.iter))]
    if not loops:
        ctx.add("5-shape", cs, cs.node, None, "UNDECIDED: the loop over the dependencies was not found in count_sweep", key="counts-every-dependency")
        return
    lp = loops[0]
    skips = [x for b_ in lp.body for x in ast.walk(b_) if isinstance(x, ast.Continue) and not any(isinstance(q, (ast.For, ast.While)) and any(y is x for y in ast.walk(q)) for b2 in lp.body for q in ast.walk(b2) if q is not lp)]
    filtered = isinstance(d.resolve(lp.iter), (ast.ListComp, ast.GeneratorExp, ast.SetComp)) and any(g.ifs for g in d.resolve(lp.iter).generators)  # type: ignore[union-attr]
    stores = [x for b_ in lp.body for x in ast.walk(b_) if isinstance(x, ast.Assign) and any(isinstance(t, ast.Subscript) and norm(t.slice) == norm(lp.target) for t in x.targets)]
    # a `continue` that follows a store of this dependency's entry skips nothing of the report
    cfg = ctx.cfg(cs)
    store_nodes = {cfg.node_containing(x) for x in stores} - {None}
    early = [x for x in skips if not any(cfg.dominates(sn, cfg.node_containing(x)) for sn in store_nodes if cfg.node_containing(x) is not None)]
    bad = early or ([lp.iter] if filtered else [])
    ctx.tri("5-shape", cs, bad[0] if bad else lp, bool(stores) and not bad, bool(bad), "every dependency gets an entry in the report",
            "count_sweep skips some dependencies (a `continue` / filter in the loop over func_dependencies): the report has no entry for them, although the property promises one per dependency "
            "(a dependency without root arguments is counted under the empty tuple)", "the store of a dependency's entry was not recognised", key="counts-every-dependency")


def check(ctx: Ctx) -> None:
    for rule in (rule_projection_keeps_only_its_items, rule_counts_every_dependency, rule_all_operands, rule_accumulators_accumulate, rule_names_and_values_aligned, rule_reads_dims, rule_len_mirror, rule_arms, rule_shape, rule_pure, rule_derivers_kept, rule_closures_and_names):
        ctx.run(rule)


F = "pipefunc/sweep.py"
MUTANTS = [
    Mutant("late-bound-exclude-chain", "pipefunc/sweep.py", "    return lambda x: any(func(x) for func in funcs)\n", "    combined = funcs[0]\n    for f in funcs[1:]:\n        combined = lambda x, prev=combined: prev(x) or f(x)  # noqa: E731\n    return combined\n", ("C17.1-all-operands",), why="round-4 seed C17/10"),
    Mutant("product-original-F27", F, "exclude=_combined_exclude(self.exclude, *(other.exclude for other in others)),", "exclude=_combined_exclude(self.exclude, other.exclude),", ("C17.1-all-operands",), why="original F27"),
    Mutant("product-drops-derivers", F, "            derivers=_combine_dicts(self.derivers, *(other.derivers for other in others)),  # type: ignore[arg-type]\n", "            derivers=self.derivers,\n", ("C17.1-all-operands",)),
    Mutant("product-first-operand-only", F, "        for other in others:\n            if not isinstance(other, Sweep):  # pragma: no cover\n                msg = \"All arguments", "        for other in others[:1]:\n            if not isinstance(other, Sweep):  # pragma: no cover\n                msg = \"All arguments", ("C17.1-all-operands",)),
    Mutant("len-original-F29", F, "        if not self.items:\n            return 0  # `generate` yields nothing without items\n", "", ("C17.3-len-mirror",), why="original F29"),
    Mutant("len-ignores-exclude", F, "        if self.exclude is not None:\n            return len(self.list())\n", "", ("C17.3-len-mirror",)),
    Mutant("len-other-split", F, "        if self.dims is None or set(self.dims) == self.items.keys():\n            # Full Cartesian product; simply", "        if self.dims is None:\n            # Full Cartesian product; simply", ("C17.3-len-mirror",)),
    Mutant("arm-derivers-before-constants", F,
           "                combination = {k: v for item in combo for k, v in item.items()}\n                if self.constants is not None:\n                    for key, value in self.constants.items():\n                        combination.setdefault(key, value)\n                if self.derivers is not None:\n                    for key, func in self.derivers.items():\n                        combination[key] = func(combination)\n",
           "                combination = {k: v for item in combo for k, v in item.items()}\n                if self.derivers is not None:\n                    for key, func in self.derivers.items():\n                        combination[key] = func(combination)\n                if self.constants is not None:\n                    for key, value in self.constants.items():\n                        combination.setdefault(key, value)\n",
           ("C17.4-arms",)),
    Mutant("arm-dims-no-exclude", F, "                        combination[key] = func(combination)\n                if self.exclude is None or not self.exclude(combination):\n                    yield combination\n\n    def __iter__",
           "                        combination[key] = func(combination)\n                yield combination\n\n    def __iter__", ("C17.4-arms",)),
    Mutant("constants-override", F, "                    for key, value in self.constants.items():\n                        combination.setdefault(key, value)\n                if self.derivers is not None:\n                    for key, func in self.derivers.items():\n                        combination[key] = func(combination)\n                if self.exclude is None or not self.exclude(combination):\n                    yield combination\n        else:",
           "                    for key, value in self.constants.items():\n                        combination[key] = value\n                if self.derivers is not None:\n                    for key, func in self.derivers.items():\n                        combination[key] = func(combination)\n                if self.exclude is None or not self.exclude(combination):\n                    yield combination\n        else:", ("C17.4-arms",)),
    Mutant("multisweep-reversed", F, "        for sweep in self.sweeps:\n            yield from sweep.generate()", "        for sweep in reversed(self.sweeps):\n            yield from sweep.generate()", ("C17.5-shape",)),
    Mutant("group-product-instead-of-zip", F, "for res in zip(*dim_seqs)]", "for res in product(*dim_seqs)]", ("C17.5-shape",)),
    Mutant("no-length-check", F, "                _check_dim_lengths(dim_seqs, dims)\n", "", ("C17.5-shape",)),
    Mutant("operand-keys-zipped", F, "                    dims.extend(list(other.items.keys()))\n", "                    dims.append(tuple(other.items.keys()))\n", ("C17.5-shape",), why="seeded C17/2"),
    Mutant("add-multisweep-reversed", F, "        return MultiSweep(self, other)\n\n    def combine(self, other: Sweep) -> MultiSweep:\n        \"\"\"Add another sweep to this MultiSweep.\"\"\"\n        return self + other",
           "        if isinstance(other, MultiSweep):\n            return other.combine(self)\n        return MultiSweep(self, other)\n\n    def combine(self, other: Sweep) -> MultiSweep:\n        \"\"\"Add another sweep to this MultiSweep.\"\"\"\n        return self + other", ("C17.5-shape",), why="seeded C17/3"),
    Mutant("product-writes-into-receiver", F, "        items = self.items.copy()\n", "        items = self.items\n", ("C17.6-pure",), why="round-2 seed C17/4"),
    Mutant("list-memoised-on-self", F, "        return self.generate()\n\n    def list(self) -> list[dict[str, Any]]:\n        \"\"\"Return the sweep as a list.\"\"\"\n        return list(self.generate())\n", "        return self.generate()\n\n    def list(self) -> list[dict[str, Any]]:\n        \"\"\"Return the sweep as a list.\"\"\"\n        if getattr(self, \"_combinations\", None) is None:\n            self._combinations = list(self.generate())\n        return self._combinations.copy()\n", ("C17.6-pure",), why="round-2 seed C17/6"),
    Mutant("projection-original-F63", F, "            {k: v for k, v in self.items.items() if k in keys},  # items that are no dimension anymore are not carried along\n", "            self.items,\n", ("C17.7-closures",), why="original F63"),
    Mutant("count-skips-rootless", F, "        assert isinstance(arg_combination, tuple)\n", "        assert isinstance(arg_combination, tuple)\n        if not arg_combination:\n            continue\n", ("C17.5-shape",), why="round-8 seed C17/24"),
    Mutant("twin-loop-var-renamed", F, "exclude=_combined_exclude(self.exclude, *(other.exclude for other in others)),", "exclude=_combined_exclude(self.exclude, *(o.exclude for o in others)),", twin=True),
    Mutant("twin-len-comment", F, "            return 0  # `generate` yields nothing without items\n", "            return 0\n", twin=True),
]
