"""C17 - sweeps enumerate exactly the documented combinations (structural clauses of pipefunc/sweep.py).

  1 all-operands  Sweep.product merges every attribute from *every* operand (no use of the loop variable after the loop)
  2 reads-dims    every path through the merge loop consults the operand's `dims`
  3 len-mirror    Sweep.__len__ has the same case split as Sweep.generate (empty items, product/dims test, exclude)
  4 arms          both arms of generate post-process a combination identically: constants, derivers, exclude
  5 shape         zipped groups are zipped (with a length check), groups are multiplied; MultiSweep concatenates in order
"""

from __future__ import annotations

import ast

from ..cfg import CFG
from ..loader import dotted, norm, walk_no_nested
from ..report import Ctx
from ..selftest import Mutant

PROP = "C17"
MOD = "pipefunc.sweep"
EXPLANATION = (
    "Static analysis of pipefunc/sweep.py: scope-aware use-after-loop detection and def-use of the merged attributes in "
    "Sweep.product, a must-read path query over the merge loop body, a sibling comparison of the case splits of "
    "__len__ and generate and of the two arms of generate, and shape rules for zip/product/concatenation."
)
TRUSTED = ["CPython ast parser", "itertools.product / zip semantics"]
DECLINED = [
    "that the enumerated combinations equal the documented set for every Sweep (value-level)",
    "filtered_sweep projections and count_sweep counts",
]


def _names_used(node: ast.AST, name: str) -> list[ast.Name]:
    """Loads of `name` in `node` that are not rebound by an enclosing comprehension / lambda inside `node`."""
    out: list[ast.Name] = []

    def visit(n: ast.AST, shadow: bool) -> None:
        if isinstance(n, (ast.ListComp, ast.SetComp, ast.GeneratorExp, ast.DictComp)):
            binds = {x.id for g in n.generators for x in ast.walk(g.target) if isinstance(x, ast.Name)}
            # the first iterable is evaluated in the enclosing scope
            visit(n.generators[0].iter, shadow)
            inner = shadow or name in binds
            for g in n.generators:
                for c in g.ifs:
                    visit(c, inner)
            for g in n.generators[1:]:
                visit(g.iter, inner)
            for part in ([n.elt] if not isinstance(n, ast.DictComp) else [n.key, n.value]):
                visit(part, inner)
            return
        if isinstance(n, ast.Lambda):
            binds = {a.arg for a in n.args.args}
            visit(n.body, shadow or name in binds)
            return
        if isinstance(n, ast.Name) and n.id == name and isinstance(n.ctx, ast.Load) and not shadow:
            out.append(n)
        for c in ast.iter_child_nodes(n):
            visit(c, shadow)

    visit(node, False)
    return out


def check(ctx: Ctx) -> None:  # noqa: C901, PLR0912, PLR0915
    prod = ctx.prog.func(f"{MOD}.Sweep.product")
    loops = [s for s in prod.node.body if isinstance(s, ast.For)]
    ctx.floor("merge-loop", len(loops), 1)
    loop = loops[0]
    var = loop.target.id if isinstance(loop.target, ast.Name) else "?"
    iter_name = norm(loop.iter)
    vararg = prod.node.args.vararg.arg if prod.node.args.vararg else None
    ok = iter_name == vararg
    ctx.add("1-all-operands", prod, loop, ok, f"merge loop iterates the operands `*{vararg}`" if ok else f"merge loop iterates `{iter_name}`, not all operands `*{vararg}`", key="loop-iter")
    after = prod.node.body[prod.node.body.index(loop) + 1:]
    uses = [u for st in after for u in _names_used(st, var)]
    ctx.add("1-all-operands", prod, uses[0] if uses else loop, not uses,
            f"`{var}` is not used after the loop" if not uses else f"loop variable `{var}` is used after the loop: only the LAST operand contributes (and product() without operands fails)",
            key=f"use-after-loop {var}")
    # each merged attribute of the result depends on all operands
    mutated_in_loop = set()
    for n in ast.walk(loop):
        if isinstance(n, ast.Call) and isinstance(n.func, ast.Attribute) and isinstance(n.func.value, ast.Name) and n.func.attr in ("update", "extend", "append"):
            mutated_in_loop.add(n.func.value.id)
        if isinstance(n, ast.Assign):
            for t in n.targets:
                if isinstance(t, ast.Name):
                    mutated_in_loop.add(t.id)
    ret_calls = [c for st in after for c in ast.walk(st) if isinstance(c, ast.Call) and dotted(c.func) == "Sweep"]
    ctx.floor("result-ctor", len(ret_calls), 1)
    call = ret_calls[0]
    sig = ["items", "dims", "exclude", "constants", "derivers"]
    given = {sig[i]: a for i, a in enumerate(call.args)} | {k.arg: k.value for k in call.keywords if k.arg}
    n1 = 0
    for attr in sig:
        n1 += 1
        e = given.get(attr)
        if e is None:
            ctx.add("1-all-operands", prod, call, False, f"the product does not pass `{attr}`: that attribute of the operands is dropped", key=f"merged {attr}")
            continue
        names = {x.id for x in ast.walk(e) if isinstance(x, ast.Name)}
        dep = bool(names & mutated_in_loop) or (vararg in names)
        ctx.add("1-all-operands", prod, e, dep, f"`{attr}` is accumulated over all operands" if dep else f"`{attr}` of the result does not depend on the operands", key=f"merged {attr}")
        # it must read the operands' *own* attribute of that name
        src = ast.unparse(loop) + ast.unparse(e)
        own = f".{attr}" in src
        ctx.add("1-all-operands", prod, e, own, f"reads `<operand>.{attr}`" if own else f"never reads `<operand>.{attr}`", key=f"reads {attr}")
    # ---- 2 reads-dims: every path through the loop body reads <var>.dims
    fake = ast.FunctionDef(name="_body", args=ast.arguments(posonlyargs=[], args=[], kwonlyargs=[], kw_defaults=[], defaults=[]), body=loop.body, decorator_list=[], lineno=loop.lineno, col_offset=0)
    cfg = CFG(fake)
    readers = set()
    for n in cfg.nodes():
        from ..cfg import header_parts

        for part in header_parts(cfg.stmt[n]):
            if any(isinstance(a, ast.Attribute) and a.attr == "dims" and isinstance(a.value, ast.Name) and a.value.id == var for a in ast.walk(part)):
                readers.add(n)
    from ..cfg import ENTRY, EXIT

    ok = bool(readers) and cfg.must_pass(ENTRY, EXIT, readers, normal_only=True)
    wp = None if ok else cfg.witness_path(ENTRY, EXIT, readers)
    ctx.add("2-reads-dims", prod, loop, ok,
            f"every path through the merge loop reads `{var}.dims`" if ok else f"a path through the merge loop never reads `{var}.dims`: a zipped operand is expanded to a full product when the receiver has dims=None",
            key="must-read other.dims", path=cfg.describe(wp, prod.module.relpath) if wp else None)

    # ---- 3 len mirrors generate
    gen = ctx.prog.func(f"{MOD}.Sweep.generate")
    ln = ctx.prog.func(f"{MOD}.Sweep.__len__")

    def tests(fn) -> list[str]:
        return [norm(s.test) for s in walk_no_nested(fn.node) if isinstance(s, ast.If)]

    gt, lt = tests(gen), tests(ln)
    empty = "not self.items"
    g_has, l_has = empty in gt, empty in lt
    ok = (not g_has) or l_has
    ctx.add("3-len-mirror", ln, ln.node, ok, "__len__ has generate's empty-items case" if ok else "generate yields nothing for empty items but __len__ has no such case (len == 1, list() == [])", key="empty-items")
    if l_has:
        first = [s for s in ln.node.body if not (isinstance(s, ast.Expr) and isinstance(s.value, ast.Constant))][0]
        ok = isinstance(first, ast.If) and norm(first.test) == empty and isinstance(first.body[0], ast.Return) and norm(first.body[0].value) == "0"
        ctx.add("3-len-mirror", ln, first, ok, "empty items -> 0 before anything else" if ok else "the empty-items case of __len__ does not return 0 first", key="empty-items-first")
    split = [t for t in gt if "self.dims is None" in t]
    ok = bool(split) and split[0] in lt
    ctx.add("3-len-mirror", ln, ln.node, ok, "same product-vs-dims test in __len__ and generate" if ok else f"__len__ does not use generate's case split `{split[0] if split else '?'}`", key="dims-split")
    ex = [s for s in walk_no_nested(ln.node) if isinstance(s, ast.If) and "self.exclude" in norm(s.test)]
    ok = bool(ex) and "self.list()" in ast.unparse(ex[0]) and norm(ex[0].test) == "self.exclude is not None"
    ctx.add("3-len-mirror", ln, ex[0] if ex else ln.node, ok, "with an exclude function the length is counted by enumeration" if ok else "__len__ ignores `exclude`", key="exclude-enumerates")
    # dims arm of __len__: one factor per group, taken from the group's first member
    loops_l = sorted([s for s in walk_no_nested(ln.node) if isinstance(s, ast.For)], key=lambda s_: s_.lineno)
    ok = len(loops_l) == 2 and norm(loops_l[1].iter) == "self.dims" and "self.items.values()" in norm(loops_l[0].iter)
    ctx.add("3-len-mirror", ln, ln.node, ok, "product arm multiplies all item lengths; dims arm multiplies one length per group" if ok else "__len__ no longer multiplies per item / per dims group", key="len-arms")

    # ---- 4 arms of generate
    arms = sorted([s for s in walk_no_nested(gen.node) if isinstance(s, ast.For) and any(isinstance(x, (ast.Yield,)) for x in ast.walk(s))], key=lambda s_: s_.lineno)
    ctx.floor("4-arms", len(arms), 2)
    seqs = []
    for a in arms:
        seq = []
        for st in a.body:
            t = ast.unparse(st)
            if "self.constants" in t:
                seq.append(("constants", norm(st)))
            elif "self.derivers" in t:
                seq.append(("derivers", norm(st)))
            elif "self.exclude" in t:
                seq.append(("exclude", norm(st)))
        seqs.append(seq)
    for i, (a, seq) in enumerate(zip(arms, seqs)):
        order = [k for k, _ in seq]
        ok = order == ["constants", "derivers", "exclude"]
        ctx.add("4-arms", gen, a, ok, f"arm {i}: constants, then derivers, then exclude" if ok else f"arm {i} post-processes in the order {order}", key=f"arm{i}-order")
    ok = len(seqs) >= 2 and all(s == seqs[0] for s in seqs[1:])
    ctx.add("4-arms", gen, arms[-1], ok, "both arms post-process identically" if ok else "the two arms of generate differ in how they apply constants/derivers/exclude", key="arms-equal")
    for a, seq in zip(arms, seqs):
        for kind, text in seq:
            if kind == "constants":
                ok = "setdefault" in text
                ctx.add("4-arms", gen, a, ok, "constants never override swept values (setdefault)" if ok else "constants overwrite swept values", key=f"constants-setdefault@{arms.index(a)}")
            if kind == "exclude":
                ok = "self.exclude is None or not self.exclude(combination)" in text
                ctx.add("4-arms", gen, a, ok, "excluded combinations are skipped" if ok else "the exclude test is not `exclude is None or not exclude(combination)`", key=f"exclude-test@{arms.index(a)}")

    # ---- 5 shape
    prod_calls = [c for c in ast.walk(gen.node) if isinstance(c, ast.Call) and dotted(c.func) == "product"]
    zip_calls = [c for c in ast.walk(gen.node) if isinstance(c, ast.Call) and dotted(c.func) == "zip"]
    ok = len(prod_calls) == 2 and all(len(c.args) == 1 and isinstance(c.args[0], ast.Starred) for c in prod_calls)
    ctx.add("5-shape", gen, prod_calls[0] if prod_calls else gen.node, ok, "groups / items are multiplied with itertools.product(*...)" if ok else "generate no longer multiplies its groups with product(*...)", key="product")
    ok = any(norm(c) == "zip(*dim_seqs)" for c in zip_calls)
    ctx.add("5-shape", gen, gen.node, ok, "members of a dims group are zipped" if ok else "members of a dims group are no longer zipped", key="zip-group")
    chk = [c for c in ast.walk(gen.node) if isinstance(c, ast.Call) and dotted(c.func) == "_check_dim_lengths"]
    ctx.add("5-shape", gen, chk[0] if chk else gen.node, bool(chk), "zipped sequences are length-checked" if chk else "zipped sequences of unequal length are silently truncated", key="dim-length-check")
    names_vals = "names = self.items.keys()" in ast.unparse(gen.node) and "vals = self.items.values()" in ast.unparse(gen.node) and "dict(zip(names, res))" in ast.unparse(gen.node)
    ctx.add("5-shape", gen, gen.node, names_vals, "product arm pairs item names with their own values in item order" if names_vals else "product arm no longer pairs names and values from the same dict order", key="names-vals")
    ext = [c for c in ast.walk(loop) if isinstance(c, ast.Call) and isinstance(c.func, ast.Attribute) and norm(c.func.value) == "dims" and c.func.attr in ("extend", "append", "insert")]
    ok = bool(ext) and all(c.func.attr == "extend" for c in ext) and any(f"{var}.items" in norm(c.args[0]) for c in ext) and any(norm(c.args[0]) == f"{var}.dims" for c in ext)  # type: ignore[union-attr]
    ctx.add("5-shape", prod, ext[0] if ext else loop, ok, "an operand contributes its own groups, or one group per key when it has none" if ok else
            "the operand's keys are added to dims as ONE group (append): they are zipped instead of multiplied", key="one-group-per-key")
    addf = ctx.prog.func(f"{MOD}.Sweep.__add__")
    rets = [norm(r.value) for r in walk_no_nested(addf.node) if isinstance(r, ast.Return) and r.value is not None]
    ok = rets == ["MultiSweep(self, other)"]
    ctx.add("5-shape", addf, addf.node, ok, "a + b concatenates a before b" if ok else f"Sweep.__add__ returns {rets}: the receiver is not always first (and an operand may be mutated)", key="add-order")
    mc = ctx.prog.func(f"{MOD}.MultiSweep.combine")
    ok = "self.sweeps.extend(other.sweeps)" in norm(mc.node) and "self.sweeps.append(other)" in norm(mc.node)
    ctx.add("5-shape", mc, mc.node, ok, "MultiSweep.combine appends the other sweep(s) after its own" if ok else "MultiSweep.combine no longer appends at the end", key="combine-appends")
    ms = ctx.prog.func(f"{MOD}.MultiSweep.generate")
    fl = [s for s in walk_no_nested(ms.node) if isinstance(s, ast.For)]
    ok = len(fl) == 1 and norm(fl[0].iter) == "self.sweeps" and any(isinstance(y, ast.YieldFrom) for y in ast.walk(fl[0]))
    ctx.add("5-shape", ms, fl[0] if fl else ms.node, ok, "MultiSweep yields from its sweeps in order" if ok else "MultiSweep.generate does not concatenate self.sweeps in order", key="multisweep-order")
    ml = ctx.prog.func(f"{MOD}.MultiSweep.__len__")
    ok = norm(ml.node.body[-1]) == "return sum((len(sweep) for sweep in self.sweeps))"
    ctx.add("5-shape", ml, ml.node, ok, "MultiSweep length is the sum of its parts" if ok else "MultiSweep.__len__ is not the sum over self.sweeps", key="multisweep-len")
    lst = ctx.prog.func(f"{MOD}.Sweep.list")
    ok = norm(lst.node.body[-1]) == "return list(self.generate())"
    ctx.add("5-shape", lst, lst.node, ok, "list() == list(generate())" if ok else "list() is no longer list(generate())", key="list-is-generate")


F = "pipefunc/sweep.py"
MUTANTS = [
    Mutant("product-original-F27", F, "exclude=_combined_exclude(self.exclude, *(other.exclude for other in others)),", "exclude=_combined_exclude(self.exclude, other.exclude),", ("C17.1-all-operands",), why="original F27"),
    Mutant("product-drops-derivers", F, "            derivers=_combine_dicts(self.derivers, *(other.derivers for other in others)),  # type: ignore[arg-type]\n", "            derivers=self.derivers,\n", ("C17.1-all-operands",)),
    Mutant("product-first-operand-only", F, "        for other in others:\n            if not isinstance(other, Sweep):  # pragma: no cover\n                msg = \"All arguments", "        for other in others[:1]:\n            if not isinstance(other, Sweep):  # pragma: no cover\n                msg = \"All arguments", ("C17.1-all-operands",)),
    Mutant("len-original-F29", F, "        if not self.items:\n            return 0  # `generate` yields nothing without items\n", "", ("C17.3-len-mirror",), why="original F29"),
    Mutant("len-ignores-exclude", F, "        if self.exclude is not None:\n            return len(self.list())\n", "", ("C17.3-len-mirror",)),
    Mutant("len-other-split", F, "        if self.dims is None or set(self.dims) == self.items.keys():\n            # Full Cartesian product; simply", "        if self.dims is None:\n            # Full Cartesian product; simply", ("C17.3-len-mirror",)),
    Mutant("arm-derivers-before-constants", F,
           "                combination = {k: v for item in combo for k, v in item.items()}\n                if self.constants is not None:\n                    for key, value in self.constants.items():\n                        combination.setdefault(key, value)\n                if self.derivers is not None:\n                    for key, func in self.derivers.items():\n                        combination[key] = func(combination)\n",
           "                combination = {k: v for item in combo for k, v in item.items()}\n                if self.derivers is not None:\n                    for key, func in self.derivers.items():\n                        combination[key] = func(combination)\n                if self.constants is not None:\n                    for key, value in self.constants.items():\n                        combination.setdefault(key, value)\n",
           ("C17.4-arms",)),
    Mutant("arm-dims-no-exclude", F, "                        combination[key] = func(combination)\n                if self.exclude is None or not self.exclude(combination):\n                    yield combination\n\n    def __iter__",
           "                        combination[key] = func(combination)\n                yield combination\n\n    def __iter__", ("C17.4-arms",)),
    Mutant("constants-override", F, "                    for key, value in self.constants.items():\n                        combination.setdefault(key, value)\n                if self.derivers is not None:\n                    for key, func in self.derivers.items():\n                        combination[key] = func(combination)\n                if self.exclude is None or not self.exclude(combination):\n                    yield combination\n        else:",
           "                    for key, value in self.constants.items():\n                        combination[key] = value\n                if self.derivers is not None:\n                    for key, func in self.derivers.items():\n                        combination[key] = func(combination)\n                if self.exclude is None or not self.exclude(combination):\n                    yield combination\n        else:", ("C17.4-arms",)),
    Mutant("multisweep-reversed", F, "        for sweep in self.sweeps:\n            yield from sweep.generate()", "        for sweep in reversed(self.sweeps):\n            yield from sweep.generate()", ("C17.5-shape",)),
    Mutant("group-product-instead-of-zip", F, "for res in zip(*dim_seqs)]", "for res in product(*dim_seqs)]", ("C17.5-shape",)),
    Mutant("no-length-check", F, "                _check_dim_lengths(dim_seqs, dims)\n", "", ("C17.5-shape",)),
    Mutant("operand-keys-zipped", F, "                    dims.extend(list(other.items.keys()))\n", "                    dims.append(tuple(other.items.keys()))\n", ("C17.5-shape",), why="seeded C17/2"),
    Mutant("add-multisweep-reversed", F, "        return MultiSweep(self, other)\n\n    def combine(self, other: Sweep) -> MultiSweep:\n        \"\"\"Add another sweep to this MultiSweep.\"\"\"\n        return self + other",
           "        if isinstance(other, MultiSweep):\n            return other.combine(self)\n        return MultiSweep(self, other)\n\n    def combine(self, other: Sweep) -> MultiSweep:\n        \"\"\"Add another sweep to this MultiSweep.\"\"\"\n        return self + other", ("C17.5-shape",), why="seeded C17/3"),
    Mutant("twin-loop-var-renamed", F, "exclude=_combined_exclude(self.exclude, *(other.exclude for other in others)),", "exclude=_combined_exclude(self.exclude, *(o.exclude for o in others)),", twin=True),
    Mutant("twin-len-comment", F, "            return 0  # `generate` yields nothing without items\n", "            return 0\n", twin=True),
]
