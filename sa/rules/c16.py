"""C16 - type-annotation validation: only the wiring around the compatibility relation is decided.

  1 flag        validate_consistent_type_annotations has exactly one caller (Pipeline._validate) and that call is
                control-dependent on self.validate_type_annotations
  2 typeerror   the validator's only raise is TypeError, and construction (add / __init__) reaches it
  3 unions      union source -> all members; union target -> any member; both -> all(any(...))
  4 reduction   the producer's type is wrapped in Array[...] exactly under _axis_is_reduced and not for
                object-array / unresolvable / missing annotations; generated-MapSpec and internal-shape edges are skipped
  5 wildcards   identical-or-any: equality first, `required is Any`, NoAnnotation on both sides (and NOT `incoming is Any`,
                which the suite pins); an incoming TypeVar is accepted; dispatch order identical/typevar/union/generic
The relation itself (agreement with subtype compatibility over the annotation grammar) is declined: it is value-level.
"""

from __future__ import annotations

import ast
import itertools
import re

from ..flow import inline_predicates, Defs, Scope, bool_atoms, conjuncts, decide, guard_facts, iterations, rejections
from ..loader import dotted, norm, walk_no_nested
from ..report import Ctx
from ..selftest import Mutant

PROP = "C16"
TECHNIQUE = "static analysis: truth-table evaluation of the wildcard and reduction predicates + quantifier-direction analysis of the union arms + guard facts of the validator call and the Array wrapping + read-only (no-mutation) rule for the validator + union-member narrowing rule + forced/rebound validation-flag rule + cached-annotation freshness rule for _clear_internal_cache + totality of the comparison predicate (no raise / strict zip) + every mutating path of a Pipeline mutator re-validates (must-pass with mutation-on-path)"
TY = "pipefunc.typing"
VAL = "pipefunc._pipeline._validation"
EXPLANATION = (
    "Static analysis of the wiring of type validation: who-calls and control-dependence of the validator on the "
    "validate_type_annotations flag, the exception type it raises, the quantifier (all/any) used on each side of a "
    "union, the guard under which a reduced output is wrapped in Array[...], the documented skips, and the wildcard "
    "predicate. The compatibility relation over runtime type objects is not decided."
)
TRUSTED = ["CPython ast parser", "call graph resolution of validate_consistent_type_annotations"]
DECLINED = [
    "agreement of is_type_compatible with subtype compatibility over the annotation grammar (most of the property; value-level)",
    "generic origin/argument comparison, Annotated metadata handling, TypeVar bounds",
]


def rule_flag(ctx: Ctx) -> None:
    P = ctx.prog
    vq = f"{VAL}.validate_consistent_type_annotations"
    v = P.func(vq)
    sites = [s for s in ctx.cg.call_sites_of(vq) if s.kind == "call"]
    ctx.tri("1-flag", vq, v.loc, bool(sites), False, f"validator is called from {[s_.caller.name for s_ in sites]}", "", "no call site of the validator found", key="single-caller")
    for s_ in sites:
        caller = s_.caller
        cfg_c = ctx.cfg(caller)
        n = cfg_c.node_containing(s_.node)
        facts = guard_facts(cfg_c, Defs(caller), n) if n is not None else []
        guarded = any(t.endswith("validate_type_annotations") and pol for t, pol in facts)
        ctx.tri("1-flag", caller, s_.node, guarded, n is not None and not guarded and not any("validate_type_annotations" in t for t, _p in facts), "the call is under `if self.validate_type_annotations`",
                "type validation runs regardless of validate_type_annotations: pipelines that opted out are rejected", "guard of the validator call not recognised", key="guarded")
    init = P.func("pipefunc._pipeline._base.Pipeline.__init__")
    cfg = ctx.cfg(init)
    sets = cfg.nodes(lambda s: isinstance(s, ast.Assign) and norm(s.targets[0]) == "self.validate_type_annotations")
    adds = cfg.nodes(lambda s: isinstance(s, (ast.For,)) and ("self.add(" in norm(s) or "self._add(" in norm(s) or "self.functions.append(" in norm(s)))
    if sets and adds:
        ok = all(any(cfg.dominates(s0, a) for s0 in sets) for a in adds)
        ctx.add("1-flag", init, cfg.stmt[sets[0]], ok, "the flag is stored before any function is added" if ok else "functions are added (and validated) before the validate_type_annotations flag is stored", key="flag-before-add")
        read = any(isinstance(x, ast.Name) and x.id == "validate_type_annotations" and isinstance(x.ctx, ast.Load) for x in ast.walk(init.node))
        ctx.add("1-flag", init, cfg.stmt[sets[0]], read, "the flag comes from the constructor argument" if read else "the constructor never reads its `validate_type_annotations` argument: the caller's choice is ignored", key="flag-from-argument")
    else:
        ctx.add("1-flag", init, init.node, None, "UNDECIDED: flag assignment / add loop not found", key="flag-before-add")
    cp = P.func("pipefunc._pipeline._base.Pipeline.copy")
    ctx.tri("1-flag", cp, cp.node, "self.validate_type_annotations" in norm(cp.node), "validate_type_annotations" not in norm(cp.node), "copy() carries the flag", "Pipeline.copy drops validate_type_annotations: the copy validates (or skips validation) differently", key="copy")



def rule_typeerror(ctx: Ctx) -> None:
    P = ctx.prog
    vq = f"{VAL}.validate_consistent_type_annotations"
    v = P.func(vq)
    raises = [r for r in ast.walk(v.node) if isinstance(r, ast.Raise)]
    kinds_ = [norm(Defs(v).resolve(r.exc)).split("(")[0] for r in raises if r.exc is not None]
    ctx.tri("2-typeerror", v, raises[0] if raises else v.node, bool(kinds_) and all(k == "TypeError" for k in kinds_), not raises or any(k != "TypeError" and k[:1].isupper() for k in kinds_),
            "incompatible edge raises TypeError", f"the validator raises {kinds_ or 'nothing'} instead of TypeError", key="raises")
    if raises:
        par = {id(c): p for p in ast.walk(v.node) for c in ast.iter_child_nodes(p)}
        x = raises[0]
        tests = []
        while id(x) in par:
            x = par[id(x)]
            if isinstance(x, ast.If):
                tests.append(norm(x.test))
        rj = [r for r in rejections(ctx.cfg(v), v.node, Defs(v)) if not r["dead"]]
        conds = [c for r in rj for c in r["conds"] if "is_type_compatible(" in c]
        good = any(c.startswith("not is_type_compatible(output") for c in conds)
        swapped = any(re.match(r"not is_type_compatible\(input\w*, output", c) for c in conds)
        positive = any(c.startswith("is_type_compatible(") for c in conds)
        ctx.tri("2-typeerror", v, raises[0], good, swapped or positive, "raised iff not is_type_compatible(producer type, consumer type) - in that argument order",
                "the rejection tests the consumer type against the producer type (arguments swapped) or rejects compatible edges", f"the rejection is guarded by {conds[:1]}", key="guard")
    for q in ("pipefunc._pipeline._base.Pipeline.add",):
        reach = vq in ctx.cg.reachable(q)
        ctx.add("2-typeerror", q, "", reach, "construction reaches the validator" if reach else "Pipeline.add no longer reaches the validator", key="reach")
    it = [lp for lp in walk_no_nested(v.node) if isinstance(lp, ast.For)]
    its = iterations(v.node)
    part = [i_ for i_ in its if isinstance(i_["iter"], ast.Subscript) and isinstance(i_["iter"].slice, ast.Slice)]
    ctx.tri("2-typeerror", v, v.node, len(its) >= 3 and not part and "graph.nodes" in norm(v.node), bool(part), "every producer node x direct consumer x annotated parameter is checked",
            "only part of the nodes / consumers / parameters is iterated", "iteration over the edges not recognised", key="all-edges")



def rule_unions(ctx: Ctx) -> None:
    P = ctx.prog
    hu = P.func(f"{TY}._handle_union_types")
    # the members that are compared are ALL the members of each union: a local holding get_args(...) is not narrowed by a
    # filtering comprehension before the comparison (dropping "shared" members from the target removes the very member that
    # would have accepted another source member)
    narrowed = []
    member_vars = {t.id for a in ast.walk(hu.node) if isinstance(a, ast.Assign) and isinstance(a.value, ast.Call) and dotted(a.value.func) == "get_args" for t in a.targets if isinstance(t, ast.Name)}
    for a in [a for a in ast.walk(hu.node) if isinstance(a, ast.Assign) and any(isinstance(t, ast.Name) and t.id in member_vars for t in a.targets)]:
        for comp in [x for x in ast.walk(a.value) if isinstance(x, (ast.GeneratorExp, ast.ListComp, ast.SetComp))]:
            if any(g.ifs for g in comp.generators) and any(isinstance(y, ast.Name) and y.id in member_vars for g in comp.generators for y in ast.walk(g.iter)):
                narrowed.append(a)
    ctx.tri("3-unions", hu, narrowed[0] if narrowed else hu.node, bool(member_vars) and not narrowed, bool(narrowed), "all members of both unions take part in the comparison",
            f"`{norm(narrowed[0])[:70] if narrowed else ''}` removes members from a union before the members are compared: a source member that is only acceptable through a removed target member is rejected", "members of the unions not traced", key="members-whole")
    quant = []
    for f_ in Scope(ctx, hu).funcs:
        d = Defs(f_)
        for c in [c for c in ast.walk(f_.node) if isinstance(c, ast.Call) and dotted(c.func) in ("all", "any") and c.args and isinstance(c.args[0], (ast.GeneratorExp, ast.ListComp))]:
            for g in c.args[0].generators:
                src = norm(d.resolve(g.iter))
                side = "incoming" if "incoming" in src else ("required" if "required" in src else "?")
                quant.append((dotted(c.func), side, c))
    wrong = [(q, sd, c) for q, sd, c in quant if (q == "any" and sd == "incoming") or (q == "all" and sd == "required")]
    right = [(q, sd) for q, sd, _c in quant if (q == "all" and sd == "incoming") or (q == "any" and sd == "required")]
    ctx.tri("3-unions", hu, wrong[0][2] if wrong else hu.node, len(right) >= 2 and not wrong, bool(wrong), "union SOURCE: all members must be accepted; union TARGET: one member suffices",
            f"`{wrong[0][0]}(...)` ranges over the members of the {wrong[0][1]} type: " + ("a union source is accepted if only ONE member is compatible" if wrong and wrong[0][1] == "incoming" else "a union target must accept with ALL of its members") if wrong else "",
            "quantifiers over the union members not recognised", key="quantifiers")


def rule_reduction(ctx: Ctx) -> None:
    P = ctx.prog
    v = P.func(f"{VAL}.validate_consistent_type_annotations")
    # ------------------------------------------------------------ 4 reduction
    wraps = [s for s in ast.walk(v.node) if isinstance(s, ast.Assign) and "Array[output_type]" in norm(s.value)]
    ok = False
    if wraps:
        par = {id(c): p for p in ast.walk(v.node) for c in ast.iter_child_nodes(p)}
        x = wraps[0]
        while id(x) in par:
            x = par[id(x)]
            if isinstance(x, ast.If):
                break
    if wraps:
        cfg_v = ctx.cfg(v)
        wn = cfg_v.node_containing(wraps[0])
        facts = guard_facts(cfg_v, Defs(v), wn) if wn is not None else []
        # a flag that is set from the predicate and may only be cleared afterwards (`w = pred(...); if w and ...: w = False; if w: ...`):
        # when the flag is true it still holds the predicate's value
        dv = Defs(v)
        expanded = []
        for t, pol in facts:
            if pol and t.isidentifier():
                vals = [a.value for a in ast.walk(v.node) if isinstance(a, ast.Assign) and any(isinstance(x, ast.Name) and x.id == t for x in a.targets)]
                live = [x for x in vals if not (isinstance(x, ast.Constant) and x.value in (False, None))]
                if len(live) == 1:
                    t = norm(dv.resolve(live[0]))
            expanded.append((t, pol))
        facts = expanded
        ok = any("_axis_is_reduced(" in t and pol for t, pol in facts)
        ctx.add("4-reduction", v, wraps[0], ok, "the output type is wrapped in Array[...] only for reduced axes" if ok else
                f"the Array[...] wrapping does not require `_axis_is_reduced(...)` (it happens under {[t for t, _p in facts][-3:]}): element-wise consumers are compared against an array type", key="wrap-guard")
    else:
        ctx.add("4-reduction", v, v.node, None, "UNDECIDED: Array[...] wrapping not found", key="wrap-guard")
    rj = [r for r in rejections(ctx.cfg(v), v.node, Defs(v)) if not r["dead"]]
    skipping = sorted({c for r in rj for c in r["conds"] if c.startswith("not ") and any(w in c for w in ("_mapspec_is_generated(", "_mapspec_with_internal_shape(", "not in output_types"))} | {c for r in rj for c in r["conds"] if " in output_types" in c})
    # The rejection must be reached whenever the types are incompatible and none of the documented exemptions applies
    # (producer not a PipeFunc / parameter not an output / auto-generated MapSpec / internal shape).  The guard conditions of
    # the raise are evaluated under "no exemption applies, types incompatible" for every assignment of the other atoms.
    import itertools

    from ..flow import bool_atoms, bool_eval

    def documented(atom: str) -> bool | None:
        if "is_type_compatible(" in atom:
            return False
        if "_is_generated" in atom or "internal_shape" in atom:
            return False
        if re.search(r"\bin (output_types|\w+\.output_annotation)\b", atom) or atom.startswith("isinstance("):
            return True
        return None

    local_helpers = {f_.name for f_ in P.functions_in(VAL)}
    verdicts = []
    for r in rj:
        tests = [(inline_predicates(ctx, v, t_), truth) for t_, truth in r["tests"]]
        atoms_ = sorted({a for t_, _tr in tests for a in bool_atoms(t_)})
        env0 = {a: documented(a) for a in atoms_ if documented(a) is not None}
        free = [a for a in atoms_ if a not in env0]
        opaque = [a for a in free if any(re.search(rf"\b{re.escape(h)}\(", a) for h in local_helpers)]
        if len(free) > 8:
            verdicts.append((None, free))
            continue
        escaping = [dict(zip(free, vals)) for vals in itertools.product((True, False), repeat=len(free))
                    if any(bool_eval(t_, env0 | dict(zip(free, vals))) not in (truth, None) for t_, truth in tests)]
        verdicts.append((True, []) if not escaping else ((None if opaque else False), opaque or free))
    raw = [fr for ok_, fr in verdicts if ok_ is False]
    und = [fr for ok_, fr in verdicts if ok_ is None]
    ctx.tri("4-reduction", v, v.node, bool(rj) and all(ok_ is True for ok_, _fr in verdicts), bool(raw), f"incompatible types are rejected unless a documented exemption applies ({len(skipping)} documented skips recognised)",
            f"edges are additionally exempted from the type check depending on `{(raw[0] or ['?'])[0] if raw else ''}`: incompatible annotations are accepted although no documented exemption applies",
            f"skip condition(s) {[u[:2] for u in und][:1]} are computed by helpers this rule does not look into", key="no-extra-skip")
    air = P.func(f"{VAL}._axis_is_reduced")
    body = [s_ for s_ in air.node.body if not (isinstance(s_, ast.Expr) and isinstance(s_.value, ast.Constant))]
    tail = [s_ for s_ in body if isinstance(s_, ast.Return) or (isinstance(s_, ast.If) and any(isinstance(x, ast.Return) for x in ast.walk(s_)))]
    A, B_, C, D_ = "parameter_name in output_mapspec_names", "parameter_name in input_mapspec_names", "input_spec_axes is None", "None in input_spec_axes"
    atoms = set()
    for s_ in tail:
        for x in ast.walk(s_):
            if isinstance(x, (ast.BoolOp, ast.Compare)):
                atoms |= set(bool_atoms(x))
    if tail and atoms <= {A, B_, C, D_}:
        wrong = []
        for a_, b_, c_, d_ in itertools.product((True, False), repeat=4):
            if c_ and d_:
                continue
            got = decide(tail, {A: a_, B_: b_, C: c_, D_: d_})
            want = a_ and ((not b_) or ((not c_) and d_))
            if got is not None and got != want:
                wrong.append((a_, b_, c_, d_))
        ctx.add("4-reduction", air, air.node, not wrong, "reduced = mapped producer whose consumer takes it whole or with a ':' axis" if not wrong else
                f"_axis_is_reduced differs from `mapped output and (not a MapSpec input of the consumer or consumed with a ':' axis)` for (mapped, consumer input, no axes, ':' axis) = {wrong[:3]}", key="axis-is-reduced")
    else:
        ctx.add("4-reduction", air, air.node, None, f"UNDECIDED: _axis_is_reduced uses other atoms {sorted(atoms - {A, B_, C, D_})[:3]}", key="axis-is-reduced")



def rule_extraction(ctx: Ctx) -> None:
    P = ctx.prog
    n6 = 0
    for q in ("pipefunc._pipefunc.PipeFunc.parameter_annotations", "pipefunc._pipefunc.PipeFunc.output_annotation"):
        f = P.func(q)
        for c in [c for c in ast.walk(f.node) if isinstance(c, ast.Call) and dotted(c.func) == "safe_get_type_hints"]:
            n6 += 1
            ok = any(k.arg == "include_extras" and isinstance(k.value, ast.Constant) and k.value.value is True for k in c.keywords)
            ctx.add("6-extraction", f, c, ok, "annotations are read with include_extras=True (Array[T] is Annotated: the element type lives in the extras)" if ok else
                    "annotations are read without extras on this side only: Array[T] degrades to a bare ndarray and the element type is never compared", key=f"extras {f.name}")
    ctx.floor("6-extraction", n6, 2)


def rule_wildcards(ctx: Ctx) -> None:
    P = ctx.prog
    ci = P.func(f"{TY}._check_identical_or_any")
    ATOMS = ["incoming_type == required_type", "required_type is Any", "incoming_type is NoAnnotation", "required_type is NoAnnotation", "incoming_type is Any"]
    body = [s_ for s_ in ci.node.body if not (isinstance(s_, ast.Expr) and isinstance(s_.value, ast.Constant))]
    body = [s_ for s_ in body if not (isinstance(s_, (ast.For, ast.If)) and "Unresolvable" in norm(s_))]  # the predicate for resolvable annotations
    used = set()
    for s_ in body:
        for x in ast.walk(s_):
            if isinstance(x, (ast.BoolOp, ast.Compare)):
                used |= set(bool_atoms(x))
    if not used <= set(ATOMS):
        ctx.add("5-wildcards", ci, ci.node, None, f"UNDECIDED: predicate uses other conditions {sorted(used - set(ATOMS))[:2]}", key="predicate")
    else:
        wrong = []
        for vals in itertools.product((True, False), repeat=len(ATOMS)):
            env = dict(zip(ATOMS, vals))
            got = decide(body, env)
            want = env[ATOMS[0]] or env[ATOMS[1]] or env[ATOMS[2]] or env[ATOMS[3]]
            if got is not None and got != want:
                wrong.append({k.split(" ", 1)[0] + " " + k.split(" ", 1)[1]: v for k, v in env.items() if v})
        ctx.add("5-wildcards", ci, ci.node, not wrong, "identical, or required is Any, or either side unannotated" if not wrong else
                f"the wildcard predicate differs from `identical or required is Any or either side unannotated`, e.g. when only {sorted(wrong[0]) if wrong[0] else 'nothing'} holds", key="predicate")
    itc = P.func(f"{TY}.is_type_compatible")
    order = [dotted(c.func) for s in walk_no_nested(itc.node) if isinstance(s, ast.If) for c in ast.walk(s.test) if isinstance(c, ast.Call) and dotted(c.func).startswith("_")]
    want_o = ["_check_identical_or_any", "_is_typevar_compatible", "_handle_union_types", "_handle_generic_types"]
    ctx.tri("5-wildcards", itc, itc.node, order == want_o, False, "dispatch: identical/any, typevar, union, generic", "", f"dispatch order is {order}", key="dispatch")
    last = [s for s in itc.node.body if isinstance(s, ast.Return)]
    ctx.tri("5-wildcards", itc, last[-1] if last else itc.node, bool(last) and norm(last[-1].value) == "False", bool(last) and norm(last[-1].value) == "True", "anything not proven compatible is incompatible",
            "the fall-through of is_type_compatible is True: unrelated types are accepted", "fall-through not recognised", key="default-false")
    tv = [s for s in itc.node.body if isinstance(s, ast.If) and norm(s.test) == "isinstance(incoming_type, TypeVar)"]
    ctx.tri("5-wildcards", itc, tv[0] if tv else itc.node, bool(tv) and norm(tv[0].body[-1]) == "return True", False, "an incoming TypeVar is accepted", "", "handling of incoming TypeVars not recognised", key="incoming-typevar")
    res = [s for s in itc.node.body if isinstance(s, ast.Assign) and "_resolve_type" in norm(s.value)]
    ctx.tri("5-wildcards", itc, res[0] if res else itc.node, len(res) == 2, len(res) == 1, "both sides are resolved (forward references) first", "forward references are resolved on one side only", "resolution of forward references not recognised", key="resolve")


def rule_readonly(ctx: Ctx) -> None:
    """The validator only inspects: it never writes into the functions' (cached) annotations it compares."""
    from .c10 import _param_mutations

    P = ctx.prog
    v = P.func(f"{VAL}.validate_consistent_type_annotations")
    MUT = {"update", "setdefault", "pop", "popitem", "clear", "__setitem__", "__delitem__", "append", "extend"}
    borrowed: set[str] = set()
    for s_ in ast.walk(v.node):
        if isinstance(s_, ast.Assign) and isinstance(s_.value, ast.Attribute) and any(a in s_.value.attr for a in ("annotation", "parameters", "defaults", "mapspec")):
            borrowed |= {t.id for t in s_.targets if isinstance(t, ast.Name)}
    bad: list[tuple[ast.AST, str]] = []
    for n in ast.walk(v.node):
        if isinstance(n, (ast.Assign, ast.AugAssign, ast.Delete)):
            for t in (n.targets if isinstance(n, (ast.Assign, ast.Delete)) else [n.target]):
                if isinstance(t, ast.Subscript) and ((isinstance(t.value, ast.Name) and t.value.id in borrowed) or (isinstance(t.value, ast.Attribute) and "annotation" in t.value.attr)):
                    bad.append((n, f"`{norm(n)[:60]}` writes into a function's annotations"))
        if isinstance(n, ast.Call) and isinstance(n.func, ast.Attribute) and n.func.attr in MUT and isinstance(n.func.value, ast.Name) and n.func.value.id in borrowed:
            bad.append((n, f"`{norm(n)[:60]}` mutates a function's annotations"))
        if isinstance(n, ast.Call):
            for callee in ctx.cg.resolve_callable(v, n.func):
                if callee.module.name != v.module.name:
                    continue
                pm = _param_mutations(callee)
                ps = [p_ for p_ in callee.param_names() if p_ not in ("self", "cls")]
                for i, a in enumerate(n.args):
                    if isinstance(a, ast.Name) and a.id in borrowed and i < len(ps) and ps[i] in pm:
                        bad.append((n, f"`{norm(a)}` (a function's cached annotations) is passed to {callee.name}, which writes into its parameter `{ps[i]}`"))
    ctx.add("7-readonly", v, bad[0][0] if bad else v.node, not bad, f"the validator never writes into the annotations it inspects ({len(borrowed)} borrowed mapping(s))" if not bad else
            bad[0][1] + ": the change persists on the function (cached property) and other edges / later validations see the altered type", key="readonly")


def rule_always_validated(ctx: Ctx) -> None:
    """Only the user's `validate_type_annotations` setting can switch the check off: nothing in the package constructs a
    pipeline with the flag forced to False, and nothing rebinds the flag of an existing pipeline (a pipeline assembled with the
    check off and the flag "restored" afterwards has edges that were never compared - e.g. the edges that only exist after a join)."""
    P = ctx.prog
    n = 0
    for fn in P.functions.values():
        for c in [c for c in ast.walk(fn.node) if isinstance(c, ast.Call)]:
            for k in c.keywords:
                if k.arg == "validate_type_annotations":
                    n += 1
                    forced = isinstance(k.value, ast.Constant) and k.value.value is False
                    ctx.add("8-always-validated", fn, c, not forced, "the flag is passed on from the caller / the receiver" if not forced else
                            f"`{norm(c)[:60]}` builds a pipeline with validate_type_annotations=False regardless of the user's setting: the edges between its functions are never type-checked", key=f"forced {fn.name}")
        for a in [a for a in ast.walk(fn.node) if isinstance(a, (ast.Assign, ast.AnnAssign, ast.AugAssign))]:
            for t in (a.targets if isinstance(a, ast.Assign) else [a.target]):
                if isinstance(t, ast.Attribute) and t.attr == "validate_type_annotations":
                    n += 1
                    ok = fn.name == "__init__"
                    ctx.add("8-always-validated", fn, a, ok, "the flag is set by the constructor" if ok else
                            f"`{norm(a)[:60]}` rebinds the flag of an existing pipeline outside its constructor: what the flag says and what was actually validated come apart", key=f"rebinds {fn.name}")
    ctx.floor("8-always-validated", n, 1)


def rule_mutators_revalidate(ctx: Ctx) -> None:
    """Every Pipeline method that changes functions, names or defaults ends in self._validate() (which runs the type check of
    every edge) on EVERY normal path: a condition in front of it ("nothing was renamed") misses the updates that change edges
    without matching the condition - update_renames({}, overwrite=True) drops all renames and re-connects parameters to outputs."""
    from ..cfg import ENTRY, EXIT

    cls = ctx.prog.cls("pipefunc._pipeline._base.Pipeline")
    n = 0
    for m in cls.methods.values():
        if m.name.startswith("__") or m.name == "_validate":
            continue
        cfg = ctx.cfg(m)
        vs = set(cfg.nodes(lambda s_: not isinstance(s_, (ast.If, ast.For, ast.While, ast.With, ast.Try, ast.FunctionDef)) and any(isinstance(x, ast.Call) and norm(x.func) == "self._validate" for x in ast.walk(s_))))
        if not vs:
            continue
        n += 1
        ok = cfg.must_pass(ENTRY, EXIT, vs, normal_only=True)
        wp = None if ok else cfg.witness_path(ENTRY, EXIT, vs)
        # a violation needs a path that CHANGES something and still skips the validation (an early return before any change is not one)
        def mutates(s_: ast.AST) -> bool:
            for x in ast.walk(s_) if not isinstance(s_, (ast.If, ast.For, ast.While, ast.With, ast.Try)) else []:
                if isinstance(x, ast.Call) and isinstance(x.func, ast.Attribute) and (x.func.attr.startswith(("update_", "add_")) or x.func.attr in ("append", "remove", "pop", "clear", "insert", "extend", "drop", "replace", "_clear_internal_cache")) and norm(x.func) != "self._validate":
                    return True
                if isinstance(x, (ast.Assign, ast.AugAssign)) and any(isinstance(t, (ast.Attribute, ast.Subscript)) for t in (x.targets if isinstance(x, ast.Assign) else [x.target])):
                    return True
            return False
        before = cfg.reachable_from(ENTRY, without=vs, normal_only=True)
        skipping = [nd for nd in cfg.nodes(mutates) if nd in before and EXIT in cfg.reachable_from(nd, without=vs, normal_only=True)]
        verdict = True if ok else (False if skipping else None)
        ctx.add("8-always-validated", m, cfg.stmt[skipping[0]] if skipping else cfg.stmt[sorted(vs)[0]], verdict, f"Pipeline.{m.name} re-validates on every normal path" if ok else
                f"UNDECIDED: Pipeline.{m.name} has a path without self._validate(), on which no change was recognised" if verdict is None else
                f"Pipeline.{m.name} can return without self._validate(): an update on that path that changes an edge (e.g. resetting all renames with an empty dict and overwrite=True) is never type-checked", key=f"revalidates {m.name}",
                path=cfg.describe(wp, m.module.relpath) if wp else None)
    ctx.floor("8-always-validated.mutators", n, 6)


def rule_total_predicate(ctx: Ctx) -> None:
    """is_type_compatible answers True or False for EVERY pair of annotations; it is called on whatever the user wrote, and an
    exception out of it surfaces as a construction failure of a valid pipeline.  The comparison functions contain no raise today;
    a `zip(..., strict=True)` over the type arguments raises ValueError for generics of different arity (tuple[int] vs
    tuple[int, ...]), which the prefix-wise comparison accepts."""
    from ..flow import Scope

    P = ctx.prog
    fn = P.func("pipefunc.typing.is_type_compatible")
    funcs = Scope(ctx, fn, wide=True).funcs
    strict = [(f, c) for f in funcs for c in ast.walk(f.node) if isinstance(c, ast.Call) and dotted(c.func) == "zip" and any(k.arg == "strict" and not (isinstance(k.value, ast.Constant) and k.value.value is False) for k in c.keywords)]
    raises = [(f, r) for f in funcs for r in ast.walk(f.node) if isinstance(r, (ast.Raise, ast.Assert))]
    ctx.tri("5-wildcards", strict[0][0] if strict else fn, strict[0][1] if strict else (raises[0][1] if raises else fn.node), not strict and not raises, bool(strict),
            f"the {len(funcs)} comparison functions contain no raise / assert / strict zip: the predicate is total",
            f"`{norm(strict[0][1])[:60] if strict else ''}` raises ValueError when the two generics have different numbers of type arguments (tuple[int] -> tuple[int, ...]): a valid pipeline is refused at construction with an exception from inside the comparison",
            f"`{norm(raises[0][1])[:60] if raises else ''}`: whether it can fire for well-formed annotations is not decided", key="total-predicate")


def rule_annotations_fresh(ctx: Ctx) -> None:
    """The annotations the validator compares are cached properties keyed by the CURRENT names; every update of a function
    (renames, scope, defaults, bound) goes through _clear_internal_cache, which must leave none of them behind.  A value that is
    put back after the clearing (`self.__dict__[name] = saved`, setattr) survives a rename: the annotation dict stays keyed by
    the old output name and the edges from the renamed output are no longer compared."""
    P = ctx.prog
    n = 0
    for cq in ("pipefunc._pipefunc.PipeFunc", "pipefunc._pipeline._base.Pipeline"):
        cls = P.cls(cq)
        fn = cls.methods.get("_clear_internal_cache")
        if fn is None:
            continue
        n += 1
        cached = {m.name for c_ in P.mro(cq) for m in c_.methods.values() if any("cached_property" in d for d in m.decorators)}
        clears = [c for c in ast.walk(fn.node) if isinstance(c, ast.Call) and dotted(c.func).rsplit(".", 1)[-1] == "clear_cached_properties"]
        kept = []
        for x in ast.walk(fn.node):
            if isinstance(x, ast.Subscript) and isinstance(x.ctx, ast.Store) and norm(x.value) == "self.__dict__":
                kept.append(x)
            if isinstance(x, ast.Call) and ((dotted(x.func) == "setattr" and x.args and norm(x.args[0]) == "self") or (isinstance(x.func, ast.Attribute) and x.func.attr in ("update", "setdefault") and norm(x.func.value) == "self.__dict__")):
                kept.append(x)
            if isinstance(x, ast.Attribute) and isinstance(x.ctx, ast.Store) and isinstance(x.value, ast.Name) and x.value.id == "self" and x.attr in cached:
                kept.append(x)
        ctx.tri("9-annotations-fresh", fn, (kept or clears or [fn.node])[0], bool(clears) and not kept, bool(kept), f"{cls.name}._clear_internal_cache drops every cached property ({len(cached)}) and puts nothing back",
                f"`{norm(kept[0])[:60] if kept else ''}` in {cls.name}._clear_internal_cache puts a cached value back after the clearing: it survives renames / scope updates, so the cached annotations stay keyed by the old names "
                "and edges from a renamed output are accepted without being compared", "clearing of the cached properties not recognised", key=f"fresh {cls.name}")
    ctx.floor("9-annotations-fresh", n, 2)


def check(ctx: Ctx) -> None:
    for rule in (rule_flag, rule_typeerror, rule_unions, rule_reduction, rule_extraction, rule_wildcards, rule_readonly, rule_always_validated, rule_mutators_revalidate, rule_annotations_fresh, rule_total_predicate):
        ctx.run(rule)


T, V, B = "pipefunc/typing.py", "pipefunc/_pipeline/_validation.py", "pipefunc/_pipeline/_base.py"
MUTANTS = [
    Mutant("strict-zip-in-predicate", "pipefunc/typing.py", "zip(incoming_args, required_args))", "zip(incoming_args, required_args, strict=True))", ("C16.5-wildcards",), why="round-4 seed C16/10"),
    Mutant("output-annotation-survives-clearing", "pipefunc/_pipefunc.py", "        clear_cached_properties(self, PipeFunc)\n", "        kept = self.__dict__.get(\"output_annotation\")\n        clear_cached_properties(self, PipeFunc)\n        if kept is not None:\n            self.__dict__[\"output_annotation\"] = kept\n", ("C16.9-annotations-fresh",), why="round-4 seed C16/11"),
    Mutant("wrap-written-back", V, "                    output_type = Array[output_type]  # type: ignore[valid-type]\n", "                    output_type = Array[output_type]  # type: ignore[valid-type]\n                    output_types[parameter_name] = output_type\n", ("C16.7-readonly",), why="seeded C16/2"),
    Mutant("validate-regardless", B, "        if self.validate_type_annotations:\n            validate_consistent_type_annotations(self.graph)\n", "        validate_consistent_type_annotations(self.graph)\n", ("C16.1-flag",)),
    Mutant("flag-after-add", B, "        self.validate_type_annotations = validate_type_annotations\n        for f in functions:", "        self.validate_type_annotations = True\n        for f in functions:", ("C16.1-flag",)),
    Mutant("raise-valueerror", V, "                    raise TypeError(msg)\n", "                    raise ValueError(msg)\n", ("C16.2-typeerror",)),
    Mutant("swapped-direction", V, "if not is_type_compatible(output_type, input_type):", "if not is_type_compatible(input_type, output_type):", ("C16.2-typeerror",)),
    Mutant("incoming-union-any", T, "        return all(is_type_compatible(t, required_type, memo) for t in get_args(incoming_type))\n", "        return any(is_type_compatible(t, required_type, memo) for t in get_args(incoming_type))\n", ("C16.3-unions",)),
    Mutant("required-union-all", T, "        return any(is_type_compatible(incoming_type, t, memo) for t in get_args(required_type))\n", "        return all(is_type_compatible(incoming_type, t, memo) for t in get_args(required_type))\n", ("C16.3-unions",)),
    Mutant("both-any-any", T, "    return all(\n        any(is_type_compatible(t1, t2, memo) for t2 in required_args) for t1 in incoming_args\n    )", "    return any(\n        any(is_type_compatible(t1, t2, memo) for t2 in required_args) for t1 in incoming_args\n    )", ("C16.3-unions",)),
    Mutant("always-wrap", V, "                    _axis_is_reduced(node, dep, parameter_name)\n                    and not is_object_array_type(output_type)", "                    not is_object_array_type(output_type)", ("C16.4-reduction",)),
    Mutant("skip-all-mapspec", V, "                if _mapspec_is_generated(node, dep):", "                if _mapspec_is_generated(node, dep) or node.mapspec is not None:", ("C16.4-reduction",)),
    Mutant("incoming-any-wildcard", T, "        or required_type is Any\n        or incoming_type is NoAnnotation", "        or required_type is Any\n        or incoming_type is Any\n        or incoming_type is NoAnnotation", ("C16.5-wildcards",)),
    Mutant("no-required-noannotation", T, "        or incoming_type is NoAnnotation\n        or required_type is NoAnnotation\n", "        or incoming_type is NoAnnotation\n", ("C16.5-wildcards",)),
    Mutant("default-true", T, "        return result\n    return False\n\n\ndef _is_typevar_compatible", "        return result\n    return True\n\n\ndef _is_typevar_compatible", ("C16.5-wildcards",)),
    Mutant("output-annotation-no-extras", "pipefunc/_pipefunc.py", "            hint = safe_get_type_hints(func, include_extras=True).get(\"return\", NoAnnotation)\n", "            hint = safe_get_type_hints(func).get(\"return\", NoAnnotation)\n", ("C16.6-extraction",), why="seeded C16/3"),
    Mutant("twin-msg", V, "                        \"\\nPlease make sure the shared input arguments have the same type.\"\n", "                        \"\\nPlease make sure the shared input arguments have compatible types.\"\n", twin=True),
]
