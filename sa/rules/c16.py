"""C16 - type-annotation validation: only the wiring around the compatibility relation is decided.

  1 flag        validate_consistent_type_annotations has exactly one caller (Pipeline._validate) and that call is
                control-dependent on self.validate_type_annotations
  2 typeerror   the validator's only raise is TypeError, and construction (add / __init__) reaches it
  3 unions      union source -> all members; union target -> any member; both -> all(any(...))
  4 reduction   the producer's type is wrapped in Array[...] exactly under _axis_is_reduced and not for
                object-array / unresolvable / missing annotations; generated-MapSpec and internal-shape edges are skipped
  5 wildcards   identical-or-any: equality first, `required is Any`, NoAnnotation on both sides (and NOT `incoming is Any`,
                which the suite pins); an incoming TypeVar is accepted; dispatch order identical/typevar/union/generic
The relation itself (agreement with subtype compatibility over the annotation grammar) is declined: it is value-level.
"""

from __future__ import annotations

import ast

from ..loader import AnalysisError, dotted, norm, walk_no_nested
from ..report import Ctx
from ..selftest import Mutant

PROP = "C16"
TY = "pipefunc.typing"
VAL = "pipefunc._pipeline._validation"
EXPLANATION = (
    "Static analysis of the wiring of type validation: who-calls and control-dependence of the validator on the "
    "validate_type_annotations flag, the exception type it raises, the quantifier (all/any) used on each side of a "
    "union, the guard under which a reduced output is wrapped in Array[...], the documented skips, and the wildcard "
    "predicate. The compatibility relation over runtime type objects is not decided."
)
TRUSTED = ["CPython ast parser", "call graph resolution of validate_consistent_type_annotations"]
DECLINED = [
    "agreement of is_type_compatible with subtype compatibility over the annotation grammar (most of the property; value-level)",
    "generic origin/argument comparison, Annotated metadata handling, TypeVar bounds",
]


def check(ctx: Ctx) -> None:  # noqa: C901, PLR0915
    P = ctx.prog
    vq = f"{VAL}.validate_consistent_type_annotations"
    v = P.func(vq)
    # ------------------------------------------------------------ 1 flag
    sites = [s for s in ctx.cg.call_sites_of(vq) if s.kind == "call"]
    ok = len(sites) == 1 and sites[0].caller.qualname == "pipefunc._pipeline._base.Pipeline._validate"
    ctx.add("1-flag", vq, v.loc, ok, "single caller: Pipeline._validate" if ok else f"validator is called from {[s.caller.qualname for s in sites]}", key="single-caller")
    if sites:
        caller = sites[0].caller
        par = {id(c): p for p in ast.walk(caller.node) for c in ast.iter_child_nodes(p)}
        x: ast.AST = sites[0].node
        guarded = False
        while id(x) in par:
            child, x = x, par[id(x)]
            if isinstance(x, ast.If) and norm(x.test) == "self.validate_type_annotations" and any(child is s or any(child is d for d in ast.walk(s)) for s in x.body):
                guarded = True
        ctx.add("1-flag", caller, sites[0].node, guarded, "the call is under `if self.validate_type_annotations`" if guarded else "type validation runs regardless of validate_type_annotations", key="guarded")
    init = P.func("pipefunc._pipeline._base.Pipeline.__init__")
    cfg = ctx.cfg(init)
    sets = cfg.nodes(lambda s: isinstance(s, ast.Assign) and norm(s.targets[0]) == "self.validate_type_annotations")
    adds = cfg.nodes(lambda s: isinstance(s, (ast.For,)) and "self.add(" in norm(s))
    ok = bool(sets) and bool(adds) and norm(cfg.stmt[sets[0]].value) == "validate_type_annotations" and all(cfg.dominates(sets[0], a) for a in adds)
    ctx.add("1-flag", init, cfg.stmt[sets[0]] if sets else init.node, ok, "the flag is stored from the constructor argument before any function is added" if ok else "the flag is not set (from the argument) before functions are added", key="flag-before-add")
    cp = P.func("pipefunc._pipeline._base.Pipeline.copy")
    ok = "'validate_type_annotations': self.validate_type_annotations" in norm(cp.node)
    ctx.add("1-flag", cp, cp.node, ok, "copy() carries the flag" if ok else "Pipeline.copy drops validate_type_annotations", key="copy")

    # ------------------------------------------------------------ 2 typeerror
    raises = [r for r in ast.walk(v.node) if isinstance(r, ast.Raise)]
    ok = len(raises) == 1 and raises[0].exc is not None and norm(raises[0].exc).startswith("TypeError(")
    ctx.add("2-typeerror", v, raises[0] if raises else v.node, ok, "incompatible edge raises TypeError" if ok else "the validator does not raise exactly TypeError", key="raises")
    if raises:
        par = {id(c): p for p in ast.walk(v.node) for c in ast.iter_child_nodes(p)}
        x = raises[0]
        tests = []
        while id(x) in par:
            x = par[id(x)]
            if isinstance(x, ast.If):
                tests.append(norm(x.test))
        ok = "not is_type_compatible(output_type, input_type)" in tests
        ctx.add("2-typeerror", v, raises[0], ok, "raised iff not is_type_compatible(producer type, consumer type) - in that argument order" if ok else f"the rejection is guarded by {tests[:1]}", key="guard")
    for q in ("pipefunc._pipeline._base.Pipeline.add",):
        reach = vq in ctx.cg.reachable(q)
        ctx.add("2-typeerror", q, "", reach, "construction reaches the validator" if reach else "Pipeline.add no longer reaches the validator", key="reach")
    it = [lp for lp in walk_no_nested(v.node) if isinstance(lp, ast.For)]
    ok = len(it) >= 3 and norm(it[0].iter) == "graph.nodes" and "nx.descendants_at_distance(graph, node, 1)" in norm(v.node) and "dep.parameter_annotations.items()" in norm(v.node)
    ctx.add("2-typeerror", v, v.node, ok, "every producer node x direct consumer x annotated parameter is checked" if ok else "the validator no longer iterates all producer/consumer edges", key="all-edges")

    # ------------------------------------------------------------ 3 unions
    hu = P.func(f"{TY}._handle_union_types")
    ifs = [s for s in hu.node.body if isinstance(s, ast.If)]
    if len(ifs) < 3:
        raise AnalysisError("_handle_union_types: expected three arms")
    both, inc, req = ifs[0], ifs[1], ifs[2]
    t_both, t_inc, t_req = norm(both.test), norm(inc.test), norm(req.test)
    ok = "incoming_type" in t_both and "required_type" in t_both and "incoming_type" in t_inc and "required_type" not in t_inc and "required_type" in t_req and "incoming_type" not in t_req
    ctx.add("3-unions", hu, both, ok, "arms: both unions / incoming union / required union" if ok else "the three union arms are not (both, incoming, required) in that order", key="arms")
    r_inc = norm(inc.body[-1])
    ok = r_inc == "return all((is_type_compatible(t, required_type, memo) for t in get_args(incoming_type)))"
    ctx.add("3-unions", hu, inc, ok, "union SOURCE: all members must be accepted" if ok else "a union source no longer requires all of its members to be accepted", key="incoming-all")
    r_req = norm(req.body[-1])
    ok = r_req == "return any((is_type_compatible(incoming_type, t, memo) for t in get_args(required_type)))"
    ctx.add("3-unions", hu, req, ok, "union TARGET: one member suffices" if ok else "a union target no longer accepts a value matching one of its members", key="required-any")
    ac = P.func(f"{TY}._all_types_compatible")
    ok = "return all((any((is_type_compatible(t1, t2, memo) for t2 in required_args)) for t1 in incoming_args))" in norm(ac.node) and "_all_types_compatible(incoming_type_args, required_type_args, memo)" in norm(both)
    ctx.add("3-unions", ac, ac.node, ok, "both unions: all(any(...)) incoming over required" if ok else "union-to-union compatibility is no longer all(incoming) any(required)", key="both")

    # ------------------------------------------------------------ 4 reduction
    wraps = [s for s in ast.walk(v.node) if isinstance(s, ast.Assign) and "Array[output_type]" in norm(s.value)]
    ok = False
    if wraps:
        par = {id(c): p for p in ast.walk(v.node) for c in ast.iter_child_nodes(p)}
        x = wraps[0]
        while id(x) in par:
            x = par[id(x)]
            if isinstance(x, ast.If):
                t = norm(x.test)
                ok = t == ("_axis_is_reduced(node, dep, parameter_name) and (not is_object_array_type(output_type)) and (not isinstance(output_type, Unresolvable)) "
                           "and (output_type is not NoAnnotation)")
                break
    ctx.add("4-reduction", v, wraps[0] if wraps else v.node, ok, "wrapped in Array[...] exactly for reduced axes with a concrete, not-yet-array annotation" if ok else
            "the Array[...] wrapping of reduced outputs is missing or its guard changed", key="wrap-guard")
    skips = [s for s in ast.walk(v.node) if isinstance(s, ast.If) and any(isinstance(b, ast.Continue) for b in s.body)]
    tests = {norm(s.test) for s in skips}
    for t, why in (("parameter_name not in output_types", "only edges that carry this producer's outputs"),
                   ("_mapspec_is_generated(node, dep)", "auto-generated MapSpecs are not type-checked"),
                   ("_mapspec_with_internal_shape(node, parameter_name)", "internal-shape producers are not type-checked")):
        ctx.add("4-reduction", v, v.node, t in tests, why if t in tests else f"documented skip `{t}` is gone", key=f"skip {t[:30]}")
    extra = tests - {"parameter_name not in output_types", "_mapspec_is_generated(node, dep)", "_mapspec_with_internal_shape(node, parameter_name)", "not isinstance(node, PipeFunc)"}
    ctx.add("4-reduction", v, v.node, not extra, "no undocumented skip" if not extra else f"additional edges are skipped: {sorted(extra)}", key="no-extra-skip")
    air = P.func(f"{VAL}._axis_is_reduced")
    ret = [r for r in walk_no_nested(air.node) if isinstance(r, ast.Return)][-1]
    ok = norm(ret.value) == "parameter_name in output_mapspec_names and (parameter_name not in input_mapspec_names or (input_spec_axes is not None and None in input_spec_axes))"
    ctx.add("4-reduction", air, ret, ok, "reduced = mapped producer whose consumer takes it whole or with a ':' axis" if ok else "_axis_is_reduced changed", key="axis-is-reduced")

    # ------------------------------------------------------------ 6 extraction (producer and consumer annotations are read the same way)
    n6 = 0
    for q in ("pipefunc._pipefunc.PipeFunc.parameter_annotations", "pipefunc._pipefunc.PipeFunc.output_annotation"):
        f = P.func(q)
        for c in [c for c in ast.walk(f.node) if isinstance(c, ast.Call) and dotted(c.func) == "safe_get_type_hints"]:
            n6 += 1
            ok = any(k.arg == "include_extras" and isinstance(k.value, ast.Constant) and k.value.value is True for k in c.keywords)
            ctx.add("6-extraction", f, c, ok, "annotations are read with include_extras=True (Array[T] is Annotated: the element type lives in the extras)" if ok else
                    "annotations are read without extras on this side only: Array[T] degrades to a bare ndarray and the element type is never compared", key=f"extras {f.name}")
    ctx.floor("6-extraction", n6, 2)
    # ------------------------------------------------------------ 5 wildcards
    ci = P.func(f"{TY}._check_identical_or_any")
    ret = [r for r in walk_no_nested(ci.node) if isinstance(r, ast.Return)][-1]
    parts = [norm(x) for x in ret.value.values] if isinstance(ret.value, ast.BoolOp) and isinstance(ret.value.op, ast.Or) else []
    want = ["incoming_type == required_type", "required_type is Any", "incoming_type is NoAnnotation", "required_type is NoAnnotation"]
    ok = parts == want
    ctx.add("5-wildcards", ci, ret, ok, "identical, or required is Any, or either side unannotated" if ok else f"wildcard predicate is {parts}", key="predicate")
    itc = P.func(f"{TY}.is_type_compatible")
    order = [dotted(c.func) for s in walk_no_nested(itc.node) if isinstance(s, ast.If) for c in ast.walk(s.test) if isinstance(c, ast.Call) and dotted(c.func).startswith("_")]
    ok = order == ["_check_identical_or_any", "_is_typevar_compatible", "_handle_union_types", "_handle_generic_types"]
    ctx.add("5-wildcards", itc, itc.node, ok, "dispatch: identical/any, typevar, union, generic" if ok else f"dispatch order is {order}", key="dispatch")
    last = [s for s in itc.node.body if isinstance(s, ast.Return)]
    ok = bool(last) and norm(last[-1].value) == "False"
    ctx.add("5-wildcards", itc, last[-1] if last else itc.node, ok, "anything not proven compatible is incompatible" if ok else "the fall-through of is_type_compatible is no longer False", key="default-false")
    tv = [s for s in itc.node.body if isinstance(s, ast.If) and norm(s.test) == "isinstance(incoming_type, TypeVar)"]
    ok = bool(tv) and norm(tv[0].body[-1]) == "return True"
    ctx.add("5-wildcards", itc, tv[0] if tv else itc.node, ok, "an incoming TypeVar is accepted" if ok else "incoming TypeVars are no longer accepted", key="incoming-typevar")
    res = [s for s in itc.node.body if isinstance(s, ast.Assign) and "_resolve_type" in norm(s.value)]
    ok = len(res) == 2
    ctx.add("5-wildcards", itc, res[0] if res else itc.node, ok, "both sides are resolved (forward references) first" if ok else "forward references are not resolved on both sides", key="resolve")


T, V, B = "pipefunc/typing.py", "pipefunc/_pipeline/_validation.py", "pipefunc/_pipeline/_base.py"
MUTANTS = [
    Mutant("validate-regardless", B, "        if self.validate_type_annotations:\n            validate_consistent_type_annotations(self.graph)\n", "        validate_consistent_type_annotations(self.graph)\n", ("C16.1-flag",)),
    Mutant("flag-after-add", B, "        self.validate_type_annotations = validate_type_annotations\n        for f in functions:", "        self.validate_type_annotations = True\n        for f in functions:", ("C16.1-flag",)),
    Mutant("raise-valueerror", V, "                    raise TypeError(msg)\n", "                    raise ValueError(msg)\n", ("C16.2-typeerror",)),
    Mutant("swapped-direction", V, "if not is_type_compatible(output_type, input_type):", "if not is_type_compatible(input_type, output_type):", ("C16.2-typeerror",)),
    Mutant("incoming-union-any", T, "        return all(is_type_compatible(t, required_type, memo) for t in get_args(incoming_type))\n", "        return any(is_type_compatible(t, required_type, memo) for t in get_args(incoming_type))\n", ("C16.3-unions",)),
    Mutant("required-union-all", T, "        return any(is_type_compatible(incoming_type, t, memo) for t in get_args(required_type))\n", "        return all(is_type_compatible(incoming_type, t, memo) for t in get_args(required_type))\n", ("C16.3-unions",)),
    Mutant("both-any-any", T, "    return all(\n        any(is_type_compatible(t1, t2, memo) for t2 in required_args) for t1 in incoming_args\n    )", "    return any(\n        any(is_type_compatible(t1, t2, memo) for t2 in required_args) for t1 in incoming_args\n    )", ("C16.3-unions",)),
    Mutant("always-wrap", V, "                    _axis_is_reduced(node, dep, parameter_name)\n                    and not is_object_array_type(output_type)", "                    not is_object_array_type(output_type)", ("C16.4-reduction",)),
    Mutant("skip-all-mapspec", V, "                if _mapspec_is_generated(node, dep):", "                if _mapspec_is_generated(node, dep) or node.mapspec is not None:", ("C16.4-reduction",)),
    Mutant("incoming-any-wildcard", T, "        or required_type is Any\n        or incoming_type is NoAnnotation", "        or required_type is Any\n        or incoming_type is Any\n        or incoming_type is NoAnnotation", ("C16.5-wildcards",)),
    Mutant("no-required-noannotation", T, "        or incoming_type is NoAnnotation\n        or required_type is NoAnnotation\n", "        or incoming_type is NoAnnotation\n", ("C16.5-wildcards",)),
    Mutant("default-true", T, "        return result\n    return False\n\n\ndef _is_typevar_compatible", "        return result\n    return True\n\n\ndef _is_typevar_compatible", ("C16.5-wildcards",)),
    Mutant("output-annotation-no-extras", "pipefunc/_pipefunc.py", "            hint = safe_get_type_hints(func, include_extras=True).get(\"return\", NoAnnotation)\n", "            hint = safe_get_type_hints(func).get(\"return\", NoAnnotation)\n", ("C16.6-extraction",), why="seeded C16/3"),
    Mutant("twin-msg", V, "                        \"\\nPlease make sure the shared input arguments have the same type.\"\n", "                        \"\\nPlease make sure the shared input arguments have compatible types.\"\n", twin=True),
]
